/-
  `Reach.reach_inv`: the differentiation engine preserves every predicate that is closed under the
  calculation API (`Closed`). This is the structural engine of Proofs/DiffStruct.lean with the
  invariant abstracted, and with all thirteen binary rules (the comparisons and `if`/`else` are
  carried by `operate_bin`).
-/
import Exmex.Proofs.ReachCompile
namespace Exmex.ReachLemmas
open Exmex.C10 Exmex.C05 Exmex.Shortcut Exmex.CalcLemmas Exmex.DeepCompile Exmex.Diff

/-- a predicate on deep expressions that is closed under the calculation API -/
structure Closed {K : Type} (I : Interp K) (C : CalcOps K) (t : Table) (R : DeepEx K → Prop) : Prop where
  lit : ∀ x, R (.mk [.num x] [] [] [])
  add : ∀ a b r, R a → R b → a.add I C t b = .ok r → R r
  sub : ∀ a b r, R a → R b → a.sub I t b = .ok r → R r
  mul : ∀ a b r, R a → R b → a.mul I C t b = .ok r → R r
  div : ∀ a b r, R a → R b → a.div I C t b = .ok r → R r
  pow : ∀ a b r, R a → R b → a.pow I C t b = .ok r → R r
  neg : ∀ a r, R a → a.neg I t = .ok r → R r
  opBin : ∀ a b r repr, R a → R b → a.operateBin I t b repr = .ok r → R r
  opUn : ∀ a r repr, R a → a.operateUnary I t repr = .ok r → R r
  unSub : ∀ nodes ops us us' vars, R (.mk nodes ops us vars) → (∀ u ∈ us', u ∈ us) →
    R (.mk nodes ops us' vars)
  union : ∀ a b a' b', R a → R b → varNamesUnion a b = .ok (a', b') → R a'
  subExpr : ∀ nodes ops us vars sub, R (.mk nodes ops us vars) → .expr sub ∈ nodes → R sub
  subVar : ∀ nodes ops us vars j nm, R (.mk nodes ops us vars) → .var j nm ∈ nodes →
    R (.mk [.var j nm] [] [] [nm])

section
variable {K : Type} (I : Interp K) (C : CalcOps K) (t : Table)

theorem binRule_gt (f g : ValDer K) : binRule I C t ">" f g =
    match DeepEx.operateBin I t f.val g.val ">".toList, DeepEx.operateBin I t f.val g.val ">".toList with
    | .ok v, .ok d => .ok { val := v, der := d }
    | .error e, _ => .error e
    | _, .error e => .error e := rfl

theorem binRule_lt (f g : ValDer K) : binRule I C t "<" f g =
    match DeepEx.operateBin I t f.val g.val "<".toList, DeepEx.operateBin I t f.val g.val "<".toList with
    | .ok v, .ok d => .ok { val := v, der := d }
    | .error e, _ => .error e
    | _, .error e => .error e := rfl

theorem binRule_ne (f g : ValDer K) : binRule I C t "!=" f g =
    match DeepEx.operateBin I t f.val g.val "!=".toList, DeepEx.operateBin I t f.val g.val "!=".toList with
    | .ok v, .ok d => .ok { val := v, der := d }
    | .error e, _ => .error e
    | _, .error e => .error e := rfl

theorem binRule_eq (f g : ValDer K) : binRule I C t "==" f g =
    match DeepEx.operateBin I t f.val g.val "==".toList, DeepEx.operateBin I t f.val g.val "==".toList with
    | .ok v, .ok d => .ok { val := v, der := d }
    | .error e, _ => .error e
    | _, .error e => .error e := rfl

theorem binRule_le (f g : ValDer K) : binRule I C t "<=" f g =
    match DeepEx.operateBin I t f.val g.val "<=".toList, DeepEx.operateBin I t f.val g.val "<=".toList with
    | .ok v, .ok d => .ok { val := v, der := d }
    | .error e, _ => .error e
    | _, .error e => .error e := rfl

theorem binRule_ge (f g : ValDer K) : binRule I C t ">=" f g =
    match DeepEx.operateBin I t f.val g.val ">=".toList, DeepEx.operateBin I t f.val g.val ">=".toList with
    | .ok v, .ok d => .ok { val := v, der := d }
    | .error e, _ => .error e
    | _, .error e => .error e := rfl

theorem binRule_if (f g : ValDer K) : binRule I C t "if" f g =
    match DeepEx.operateBin I t f.val g.val "if".toList, DeepEx.operateBin I t f.der g.der "if".toList with
    | .ok v, .ok d => .ok { val := v, der := d }
    | .error e, _ => .error e
    | _, .error e => .error e := rfl

theorem binRule_else (f g : ValDer K) : binRule I C t "else" f g =
    match DeepEx.operateBin I t f.val g.val "else".toList, DeepEx.operateBin I t f.der g.der "else".toList with
    | .ok v, .ok d => .ok { val := v, der := d }
    | .error e, _ => .error e
    | _, .error e => .error e := rfl

end

section
variable {K : Type} (I : Interp K) (C : CalcOps K) (t : Table) (R : DeepEx K → Prop)
  (hR : Closed I C t R)
include hR

theorem c_lit (x : K) : R (lit x) := hR.lit x
theorem c_add (a b r : DeepEx K) (ha : R a) (hb : R b) (h : a.add I C t b = .ok r) : R r ∧ True :=
  ⟨hR.add a b r ha hb h, trivial⟩
theorem c_sub (a b r : DeepEx K) (ha : R a) (hb : R b) (h : a.sub I t b = .ok r) : R r ∧ True :=
  ⟨hR.sub a b r ha hb h, trivial⟩
theorem c_mul (a b r : DeepEx K) (ha : R a) (hb : R b) (h : a.mul I C t b = .ok r) : R r ∧ True :=
  ⟨hR.mul a b r ha hb h, trivial⟩
theorem c_div (a b r : DeepEx K) (ha : R a) (hb : R b) (h : a.div I C t b = .ok r) : R r ∧ True :=
  ⟨hR.div a b r ha hb h, trivial⟩
theorem c_pow (a b r : DeepEx K) (ha : R a) (hb : R b) (h : a.pow I C t b = .ok r) : R r ∧ True :=
  ⟨hR.pow a b r ha hb h, trivial⟩
theorem c_neg (a r : DeepEx K) (ha : R a) (h : a.neg I t = .ok r) : R r ∧ True :=
  ⟨hR.neg a r ha h, trivial⟩
theorem c_opUn (a r : DeepEx K) (repr : Str) (_ : True) (ha : R a)
    (h : a.operateUnary I t repr = .ok r) : R r ∧ True := ⟨hR.opUn a r repr ha h, trivial⟩
theorem c_unSub (nodes : List (DeepNode K)) (ops : List DBin) (us us' : List Nat) (vars : List Str)
    (h : R (.mk nodes ops us vars)) (hsub : ∀ u ∈ us', u ∈ us) : R (.mk nodes ops us' vars) :=
  hR.unSub nodes ops us us' vars h hsub

theorem c_without (f x : DeepEx K) (hf : R f) (hx : f.withoutLatestUnary = .ok x) : R x := by
  obtain ⟨nodes, ops, un, vars⟩ := f
  unfold DeepEx.withoutLatestUnary at hx
  simp only [DeepEx.un, DeepEx.nodes, DeepEx.ops, DeepEx.vars] at hx
  split at hx
  · cases hx
  · rename_i u rest
    cases hx
    exact hR.unSub nodes ops _ rest vars hf (fun v hv => List.mem_cons_of_mem _ hv)

theorem binRule_c5 (name : String) (hname : name ∈ ["+", "-", "*", "/", "^"]) (f g pd : ValDer K)
    (hfv : R f.val) (hfd : R f.der) (hgv : R g.val) (hgd : R g.der)
    (h : binRule I C t name f g = .ok pd) : R pd.val ∧ R pd.der := by
  simp only [List.mem_cons, List.not_mem_nil, or_false] at hname
  rcases hname with rfl | rfl | rfl | rfl | rfl
  · rw [binRule_add] at h
    split at h
    · rename_i v d h1 h2
      cases h
      exact ⟨(c_add I C t R hR _ _ _ hfv hgv h1).1, (c_add I C t R hR _ _ _ hfd hgd h2).1⟩
    · cases h
    · cases h
  · rw [binRule_sub] at h
    split at h
    · rename_i v d h1 h2
      cases h
      exact ⟨(c_sub I C t R hR _ _ _ hfv hgv h1).1, (c_sub I C t R hR _ _ _ hfd hgd h2).1⟩
    · cases h
    · cases h
  · rw [binRule_mul] at h
    split at h
    · cases h
    rename_i val hval
    split at h
    · cases h
    rename_i d1 hd1
    split at h
    · cases h
    rename_i d2 hd2
    split at h
    · cases h
    rename_i der hder
    cases h
    have r1 := (c_mul I C t R hR _ _ _ hgv hfd hd1).1
    have r2 := (c_mul I C t R hR _ _ _ hgd hfv hd2).1
    exact ⟨(c_mul I C t R hR _ _ _ hfv hgv hval).1, (c_add I C t R hR _ _ _ r1 r2 hder).1⟩
  · rw [binRule_div] at h
    split at h
    · cases h
    rename_i val hval
    split at h
    · cases h
    rename_i n1 hn1
    split at h
    · cases h
    rename_i n2 hn2
    split at h
    · cases h
    rename_i num hnum
    split at h
    · cases h
    rename_i den hden
    split at h
    · cases h
    rename_i der hder
    cases h
    have r1 := (c_mul I C t R hR _ _ _ hfd hgv hn1).1
    have r2 := (c_mul I C t R hR _ _ _ hgd hfv hn2).1
    have r3 := (c_sub I C t R hR _ _ _ r1 r2 hnum).1
    have r4 := (c_mul I C t R hR _ _ _ hgv hgv hden).1
    exact ⟨(c_div I C t R hR _ _ _ hfv hgv hval).1, (c_div I C t R hR _ _ _ r3 r4 hder).1⟩
  · rw [binRule_pow] at h
    split at h
    · cases h
    rename_i one hone
    split at h
    · cases h
    rename_i val hval
    split at h
    · cases h
    rename_i gm1 hgm1
    split at h
    · cases h
    rename_i p1 hp1
    split at h
    · cases h
    rename_i p2 hp2
    split at h
    · cases h
    rename_i der1 hder1
    split at h
    · cases h
    rename_i lnf hlnf
    split at h
    · cases h
    rename_i q1 hq1
    split at h
    · cases h
    rename_i der2 hder2
    split at h
    · cases h
    rename_i der hder
    cases h
    rw [fromNum_eq] at hone
    cases hone
    have rone := c_lit I C t R hR C.one
    have rval := (c_pow I C t R hR _ _ _ hfv hgv hval).1
    have rgm1 := (c_sub I C t R hR _ _ _ hgv rone hgm1).1
    have rp1 := (c_pow I C t R hR _ _ _ hfv rgm1 hp1).1
    have rp2 := (c_mul I C t R hR _ _ _ rp1 hgv hp2).1
    have rder1 := (c_mul I C t R hR _ _ _ rp2 hfd hder1).1
    have rlnf := (c_opUn I C t R hR _ _ _ (by decide) hfv hlnf).1
    have rq1 := (c_mul I C t R hR _ _ _ rval rlnf hq1).1
    have rder2 := (c_mul I C t R hR _ _ _ rq1 hgd hder2).1
    exact ⟨rval, (c_add I C t R hR _ _ _ rder1 rder2 hder).1⟩

theorem binRule_c (name : String) (hname : name ∈ binRuleNames) (f g pd : ValDer K)
    (hfv : R f.val) (hfd : R f.der) (hgv : R g.val) (hgd : R g.der)
    (h : binRule I C t name f g = .ok pd) : R pd.val ∧ R pd.der := by
  simp only [binRuleNames, List.mem_cons, List.not_mem_nil, or_false] at hname
  rcases hname with rfl | rfl | rfl | rfl | rfl | rfl | rfl | rfl | rfl | rfl | rfl | rfl | rfl
  · exact binRule_c5 I C t R hR _ (by decide) f g pd hfv hfd hgv hgd h
  · exact binRule_c5 I C t R hR _ (by decide) f g pd hfv hfd hgv hgd h
  · exact binRule_c5 I C t R hR _ (by decide) f g pd hfv hfd hgv hgd h
  · exact binRule_c5 I C t R hR _ (by decide) f g pd hfv hfd hgv hgd h
  · rw [binRule_gt] at h
    split at h
    · rename_i v d h1 h2
      cases h
      exact ⟨hR.opBin _ _ _ _ hfv hgv h1, hR.opBin _ _ _ _ hfv hgv h2⟩
    · cases h
    · cases h
  · rw [binRule_lt] at h
    split at h
    · rename_i v d h1 h2
      cases h
      exact ⟨hR.opBin _ _ _ _ hfv hgv h1, hR.opBin _ _ _ _ hfv hgv h2⟩
    · cases h
    · cases h
  · rw [binRule_ne] at h
    split at h
    · rename_i v d h1 h2
      cases h
      exact ⟨hR.opBin _ _ _ _ hfv hgv h1, hR.opBin _ _ _ _ hfv hgv h2⟩
    · cases h
    · cases h
  · rw [binRule_eq] at h
    split at h
    · rename_i v d h1 h2
      cases h
      exact ⟨hR.opBin _ _ _ _ hfv hgv h1, hR.opBin _ _ _ _ hfv hgv h2⟩
    · cases h
    · cases h
  · rw [binRule_le] at h
    split at h
    · rename_i v d h1 h2
      cases h
      exact ⟨hR.opBin _ _ _ _ hfv hgv h1, hR.opBin _ _ _ _ hfv hgv h2⟩
    · cases h
    · cases h
  · rw [binRule_ge] at h
    split at h
    · rename_i v d h1 h2
      cases h
      exact ⟨hR.opBin _ _ _ _ hfv hgv h1, hR.opBin _ _ _ _ hfv hgv h2⟩
    · cases h
    · cases h
  · rw [binRule_if] at h
    split at h
    · rename_i v d h1 h2
      cases h
      exact ⟨hR.opBin _ _ _ _ hfv hgv h1, hR.opBin _ _ _ _ hfd hgd h2⟩
    · cases h
    · cases h
  · rw [binRule_else] at h
    split at h
    · rename_i v d h1 h2
      cases h
      exact ⟨hR.opBin _ _ _ _ hfv hgv h1, hR.opBin _ _ _ _ hfd hgd h2⟩
    · cases h
    · cases h
  · exact binRule_c5 I C t R hR _ (by decide) f g pd hfv hfd hgv hgd h

theorem logDeri_c (f r : DeepEx K) (base : Option K) (hf : R f)
    (h : logDeri I C t f base = .ok r) : R r := by
  have rone := c_lit I C t R hR C.one
  unfold logDeri at h
  split at h
  · rename_i x one hx hone
    rw [fromNum_eq] at hone
    cases hone
    have rx := c_without I C t R hR f x hf hx
    cases base with
    | none => exact (c_div I C t R hR _ _ _ rone rx h).1
    | some b =>
      simp only [fromNum_eq] at h
      split at h
      · cases h
      rename_i lnb hlnb
      split at h
      · cases h
      rename_i den hden
      have r1 := (c_opUn I C t R hR _ _ _ (by decide) (c_lit I C t R hR b) hlnb).1
      have r2 := (c_mul I C t R hR _ _ _ rx r1 hden).1
      exact (c_div I C t R hR _ _ _ rone r2 h).1
  · cases h
  · cases h

theorem unRule_c (name : String) (hname : name ∈ unRuleNames) (f r : DeepEx K) (hf : R f)
    (h : unRule I C t name f = .ok r) : R r := by
  have rone := c_lit I C t R hR C.one
  have rtwo := c_lit I C t R hR C.two
  simp only [unRuleNames, List.mem_cons, List.not_mem_nil, or_false] at hname
  rcases hname with rfl | rfl | rfl | rfl | rfl | rfl | rfl | rfl | rfl | rfl | rfl | rfl | rfl | rfl |
    rfl | rfl | rfl | rfl | rfl | rfl
  · rw [unRule_plus] at h
    cases h
    exact rone
  · rw [unRule_neg] at h
    exact (c_neg I C t R hR _ _ rone h).1
  · rw [unRule_sqrt] at h
    split at h
    · cases h
    rename_i d hd
    exact (c_div I C t R hR _ _ _ rone (c_mul I C t R hR _ _ _ rtwo hf hd).1 h).1
  · rw [unRule_ln] at h
    exact logDeri_c I C t R hR f r _ hf h
  · rw [unRule_log] at h
    exact logDeri_c I C t R hR f r _ hf h
  · rw [unRule_log10] at h
    exact logDeri_c I C t R hR f r _ hf h
  · rw [unRule_log2] at h
    exact logDeri_c I C t R hR f r _ hf h
  · rw [unRule_exp] at h
    cases h
    exact hf
  · rw [unRule_sin] at h
    split at h
    · cases h
    rename_i x hx
    exact (c_opUn I C t R hR _ _ _ (by decide) (c_without I C t R hR f x hf hx) h).1
  · rw [unRule_cos] at h
    split at h
    · cases h
    rename_i x hx
    split at h
    · cases h
    rename_i s hs
    have r1 := (c_opUn I C t R hR _ _ _ (by decide) (c_without I C t R hR f x hf hx) hs).1
    exact (c_neg I C t R hR _ _ r1 h).1
  · rw [unRule_tan] at h
    split at h
    · cases h
    rename_i x hx
    split at h
    · cases h
    rename_i c hc
    split at h
    · cases h
    rename_i c2 hc2
    have r1 := (c_opUn I C t R hR _ _ _ (by decide) (c_without I C t R hR f x hf hx) hc).1
    have r2 := (c_pow I C t R hR _ _ _ r1 rtwo hc2).1
    exact (c_div I C t R hR _ _ _ rone r2 h).1
  · rw [unRule_asin] at h
    split at h
    · cases h
    rename_i x hx
    split at h
    · cases h
    rename_i x2 hx2
    split at h
    · cases h
    rename_i d hd
    split at h
    · cases h
    rename_i sd hsd
    have r1 := (c_pow I C t R hR _ _ _ (c_without I C t R hR f x hf hx) rtwo hx2).1
    have r2 := (c_sub I C t R hR _ _ _ rone r1 hd).1
    have r3 := (c_opUn I C t R hR _ _ _ (by decide) r2 hsd).1
    exact (c_div I C t R hR _ _ _ rone r3 h).1
  · rw [unRule_acos] at h
    split at h
    · cases h
    rename_i x hx
    split at h
    · cases h
    rename_i x2 hx2
    split at h
    · cases h
    rename_i d hd
    split at h
    · cases h
    rename_i sd hsd
    split at h
    · cases h
    rename_i q hq
    have r1 := (c_pow I C t R hR _ _ _ (c_without I C t R hR f x hf hx) rtwo hx2).1
    have r2 := (c_sub I C t R hR _ _ _ rone r1 hd).1
    have r3 := (c_opUn I C t R hR _ _ _ (by decide) r2 hsd).1
    have r4 := (c_div I C t R hR _ _ _ rone r3 hq).1
    exact (c_neg I C t R hR _ _ r4 h).1
  · rw [unRule_atan] at h
    split at h
    · cases h
    rename_i x hx
    split at h
    · cases h
    rename_i x2 hx2
    split at h
    · cases h
    rename_i d hd
    have r1 := (c_pow I C t R hR _ _ _ (c_without I C t R hR f x hf hx) rtwo hx2).1
    have r2 := (c_add I C t R hR _ _ _ rone r1 hd).1
    exact (c_div I C t R hR _ _ _ rone r2 h).1
  · rw [unRule_sinh] at h
    split at h
    · cases h
    rename_i x hx
    exact (c_opUn I C t R hR _ _ _ (by decide) (c_without I C t R hR f x hf hx) h).1
  · rw [unRule_cosh] at h
    split at h
    · cases h
    rename_i x hx
    exact (c_opUn I C t R hR _ _ _ (by decide) (c_without I C t R hR f x hf hx) h).1
  · rw [unRule_tanh] at h
    split at h
    · cases h
    rename_i x hx
    split at h
    · cases h
    rename_i th hth
    split at h
    · cases h
    rename_i th2 hth2
    have r1 := (c_opUn I C t R hR _ _ _ (by decide) (c_without I C t R hR f x hf hx) hth).1
    have r2 := (c_pow I C t R hR _ _ _ r1 rtwo hth2).1
    exact (c_sub I C t R hR _ _ _ rone r2 h).1
  · rw [unRule_asinh] at h
    split at h
    · cases h
    rename_i x hx
    split at h
    · cases h
    rename_i x2 hx2
    split at h
    · cases h
    rename_i d hd
    split at h
    · cases h
    rename_i sd hsd
    have r1 := (c_pow I C t R hR _ _ _ (c_without I C t R hR f x hf hx) rtwo hx2).1
    have r2 := (c_add I C t R hR _ _ _ rone r1 hd).1
    have r3 := (c_opUn I C t R hR _ _ _ (by decide) r2 hsd).1
    exact (c_div I C t R hR _ _ _ rone r3 h).1
  · rw [unRule_acosh] at h
    split at h
    · cases h
    rename_i x hx
    have rx := c_without I C t R hR f x hf hx
    split at h
    · rename_i a1 b1 ha1 hb1
      split at h
      · rename_i sa sb hsa hsb
        split at h
        · cases h
        rename_i d hd
        have r1 := (c_sub I C t R hR _ _ _ rx rone ha1).1
        have r2 := (c_add I C t R hR _ _ _ rx rone hb1).1
        have r3 := (c_opUn I C t R hR _ _ _ (by decide) r1 hsa).1
        have r4 := (c_opUn I C t R hR _ _ _ (by decide) r2 hsb).1
        have r5 := (c_mul I C t R hR _ _ _ r3 r4 hd).1
        exact (c_div I C t R hR _ _ _ rone r5 h).1
      · cases h
      · cases h
    · cases h
    · cases h
  · rw [unRule_atanh] at h
    split at h
    · cases h
    rename_i x hx
    split at h
    · cases h
    rename_i x2 hx2
    split at h
    · cases h
    rename_i d hd
    have r1 := (c_pow I C t R hR _ _ _ (c_without I C t R hR f x hf hx) rtwo hx2).1
    have r2 := (c_sub I C t R hR _ _ _ rone r1 hd).1
    exact (c_div I C t R hR _ _ _ rone r2 h).1



theorem go_c (e : DeepEx K) (he : R e) : ∀ (rest : List Nat) (idx : Nat) (acc r : DeepEx K),
    R acc → partialOuter.go I C t e rest idx acc = .ok r → R r := by
  intro rest
  induction rest with
  | nil =>
    intro idx acc r hacc h
    rw [partialOuter.go] at h
    cases h
    exact hacc
  | cons u rest' ih =>
    intro idx acc r hacc h
    rw [partialOuter.go] at h
    split at h
    · cases h
    rename_i hc
    split at h
    · cases h
    rename_i factor hfac
    split at h
    · cases h
    rename_i acc' hacc'
    have hname : String.ofList (reprOf t u) ∈ unRuleNames := by simpa using hc
    have hd : R (dropUnaries e idx) := by
      obtain ⟨nodes, ops, us, vars⟩ := e
      exact c_unSub I C t R hR nodes ops us _ vars he (fun v hv => List.mem_of_mem_drop hv)
    have hf := unRule_c I C t R hR _ hname _ factor hd hfac
    exact ih (idx + 1) acc' r (c_mul I C t R hR _ _ _ hf hacc hacc').1 h


theorem reducePairs_c (ops : List DBin) :
    ∀ (bs ns : List Nat) (nodes final : List (ValDer K)),
      (∀ vd ∈ nodes, R vd.val ∧ R vd.der) →
      reducePairs I C t bs ns nodes ops = .ok final →
      ∀ vd ∈ final, R vd.val ∧ R vd.der := by
  intro bs
  induction bs with
  | nil =>
    intro ns nodes final hn h
    rw [reducePairs] at h
    cases h
    exact hn
  | cons b bs ih =>
    intro ns nodes final hn h
    cases ns with
    | nil => rw [reducePairs] at h; cases h
    | cons n ns =>
      rw [reducePairs] at h
      split at h
      · rename_i f g op hf hg hop
        simp only [] at h
        split at h
        · cases h
        rename_i hc
        split at h
        · cases h
        rename_i pd hpd
        have hname : String.ofList (reprOf t op.idx) ∈ binRuleNames := by simpa using hc
        have hfm := hn f (List.mem_of_getElem? hf)
        have hgm := hn g (List.mem_of_getElem? hg)
        have hpdm := binRule_c I C t R hR _ hname f g pd hfm.1 hfm.2 hgm.1 hgm.2 hpd
        refine ih _ _ final ?_ h
        intro vd hvd
        rcases List.mem_or_eq_of_mem_set (List.mem_of_mem_eraseIdx hvd) with h' | h'
        · exact hn vd h'
        · rw [h']; exact hpdm
      · cases h

end

/-- what the engine needs of a node -/
def RN {K : Type} (R : DeepEx K → Prop) : DeepNode K → Prop
  | .num _ => True
  | .var j nm => R (.mk [.var j nm] [] [] [nm])
  | .expr sub => R sub

theorem union_vars {K : Type} (a b a' b' : DeepEx K) (hu : varNamesUnion a b = .ok (a', b')) :
    a'.vars = unionVars a.vars b.vars ∧ b'.vars = unionVars a.vars b.vars := by
  unfold varNamesUnion at hu
  simp only [] at hu
  change (match a.resetVars (unionVars a.vars b.vars), b.resetVars (unionVars a.vars b.vars) with
    | some a', some b' => Except.ok (a', b')
    | _, _ => Except.error (Fail.panic "deep.rs:reset_vars unwrap")) = _ at hu
  cases h1 : a.resetVars (unionVars a.vars b.vars) with
  | none => rw [h1] at hu; cases hu
  | some a1 =>
    cases h2 : b.resetVars (unionVars a.vars b.vars) with
    | none => rw [h1, h2] at hu; cases hu
    | some b1 =>
      rw [h1, h2] at hu
      cases hu
      exact ⟨resetVars_vars _ a a' h1, resetVars_vars _ b b' h2⟩

section
variable {K : Type} (I : Interp K) (C : CalcOps K) (t : Table) (R : DeepEx K → Prop)
  (hR : Closed I C t R) (i : Nat)

def SPD (fuel : Nat) : Prop :=
  ∀ (e e' : DeepEx K), R e → partialDeepex I C t i fuel e = .ok e' → R e'

def SPI (fuel : Nat) : Prop :=
  ∀ (e e' : DeepEx K), R e → partialInner I C t i fuel e = .ok e' →
    R e' ∧ (∀ y ∈ e.vars, y ∈ e'.vars)

def SVD (fuel : Nat) : Prop :=
  ∀ (nodes : List (DeepNode K)) (vds : List (ValDer K)),
    (∀ nd ∈ nodes, RN R nd) → valDers I C t i fuel nodes = .ok vds →
    ∀ vd ∈ vds, R vd.val ∧ R vd.der

include hR

theorem outer_c (e outer : DeepEx K) (he : R e) (hout : partialOuter I C t e = .ok outer) : R outer := by
  unfold partialOuter at hout
  rw [fromNum_eq] at hout
  exact go_c I C t R hR e he e.un 0 _ outer (c_lit I C t R hR C.one) hout

theorem spd_step (fuel : Nat) (hPI : SPI I C t R i fuel) : SPD I C t R i (fuel + 1) := by
  intro e e' he h
  rw [partialDeepex] at h
  split at h
  · cases h
  rename_i inner hin
  split at h
  · cases h
  rename_i outer hout
  obtain ⟨sin, -⟩ := hPI e inner he hin
  exact hR.mul _ _ _ sin (outer_c I C t R hR e outer he hout) h

omit i in
theorem inner_tail (res e r b' : DeepEx K) (hr : R res) (he : R e)
    (hu : varNamesUnion res e = .ok (r, b')) : R r ∧ ∀ y ∈ e.vars, y ∈ r.vars := by
  refine ⟨hR.union res e r b' hr he hu, ?_⟩
  intro y hy
  rw [(union_vars res e r b' hu).1, mem_unionVars]
  exact .inr hy

omit i in
theorem nodes_rn (nodes : List (DeepNode K)) (ops : List DBin) (us : List Nat) (vars : List Str)
    (he : R (.mk nodes ops us vars)) : ∀ nd ∈ nodes, RN R nd := by
  intro nd hnd
  cases nd with
  | num a => trivial
  | var j nm => exact hR.subVar nodes ops us vars j nm he hnd
  | expr sub => exact hR.subExpr nodes ops us vars sub he hnd

theorem spi_step (fuel : Nat) (hPD : SPD I C t R i fuel) (hVD : SVD I C t R i fuel) :
    SPI I C t R i (fuel + 1) := by
  intro e e' he h
  obtain ⟨nodes, ops, us, vars⟩ := e
  have hnodes := nodes_rn I C t R hR nodes ops us vars he
  match nodes, hnodes, he with
  | [], _, he =>
    simp only [partialInner, DeepEx.nodes, DeepEx.ops] at h
    split at h
    · cases h
    rename_i vds hvds
    split at h
    · cases h
    rename_i final hfinal
    split at h
    · cases h
    rename_i vd vtail
    split at h
    · cases h
    rename_i res' b' hu
    cases h
    have hp := hVD _ vds (fun _ hnd => by cases hnd) hvds
    have hf := reducePairs_c I C t R hR ops _ _ vds _ hp hfinal vd List.mem_cons_self
    exact inner_tail I C t R hR _ _ _ b' hf.2 he hu
  | [single], hnodes, he =>
    cases single with
    | num a =>
      simp only [partialInner, DeepEx.nodes, fromNum_eq] at h
      split at h
      · cases h
      rename_i res' b' hu
      cases h
      exact inner_tail I C t R hR _ _ _ b' (c_lit I C t R hR C.zero) he hu
    | var j nm =>
      simp only [partialInner, DeepEx.nodes] at h
      by_cases hji : (j == i) = true
      · rw [if_pos hji, fromNum_eq] at h
        simp only [] at h
        split at h
        · cases h
        rename_i res' b' hu
        cases h
        exact inner_tail I C t R hR _ _ _ b' (c_lit I C t R hR C.one) he hu
      · rw [if_neg hji, fromNum_eq] at h
        simp only [] at h
        split at h
        · cases h
        rename_i res' b' hu
        cases h
        exact inner_tail I C t R hR _ _ _ b' (c_lit I C t R hR C.zero) he hu
    | expr sub =>
      simp only [partialInner, DeepEx.nodes] at h
      split at h
      · cases h
      rename_i res hres
      split at h
      · cases h
      rename_i res' b' hu
      cases h
      have hsub : R sub := hnodes _ List.mem_cons_self
      exact inner_tail I C t R hR _ _ _ b' (hPD sub res hsub hres) he hu
  | n1 :: n2 :: rest, hnodes, he =>
    simp only [partialInner, DeepEx.nodes, DeepEx.ops] at h
    split at h
    · cases h
    rename_i vds hvds
    split at h
    · cases h
    rename_i final hfinal
    split at h
    · cases h
    rename_i vd vtail
    split at h
    · cases h
    rename_i res' b' hu
    cases h
    have hp := hVD _ vds hnodes hvds
    have hf := reducePairs_c I C t R hR ops _ _ vds _ hp hfinal vd List.mem_cons_self
    exact inner_tail I C t R hR _ _ _ b' hf.2 he hu

theorem svd_step (fuel : Nat) (hPD : SPD I C t R i fuel) (hVD : SVD I C t R i fuel) :
    SVD I C t R i (fuel + 1) := by
  intro nodes vds hn h
  cases nodes with
  | nil =>
    simp only [valDers] at h
    cases h
    intro vd hvd
    cases hvd
  | cons n ns =>
    have hns : ∀ nd ∈ ns, RN R nd := fun nd hnd => hn nd (List.mem_cons_of_mem _ hnd)
    have hn1 := hn n List.mem_cons_self
    have tail : ∀ (val der : DeepEx K) (rest : List (ValDer K)), R val →
        partialDeepex I C t i fuel val = .ok der → valDers I C t i fuel ns = .ok rest →
        ∀ vd ∈ ({ val := val, der := der } : ValDer K) :: rest, R vd.val ∧ R vd.der := by
      intro val der rest hval hder hrest vd hvd
      rcases List.mem_cons.1 hvd with rfl | hvd
      · exact ⟨hval, hPD val der hval hder⟩
      · exact hVD ns rest hns hrest vd hvd
    cases n with
    | num a =>
      have hnew : DeepEx.new I [DeepNode.num a] [] [] = .ok (DeepEx.mk [.num a] [] [] []) := rfl
      simp only [valDers, hnew] at h
      split at h
      · rename_i der rest hder hrest
        cases h
        exact tail _ der rest (c_lit I C t R hR a) hder hrest
      · cases h
      · cases h
    | var j nm =>
      have hnew : DeepEx.new I [DeepNode.var j nm] [] [] =
          .ok (DeepEx.mk [.var j nm] [] [] [nm]) := rfl
      simp only [valDers, hnew] at h
      have hval : R (DeepEx.mk [DeepNode.var j nm] [] [] [nm] : DeepEx K) := hn1
      split at h
      · rename_i der rest hder hrest
        cases h
        exact tail _ der rest hval hder hrest
      · cases h
      · cases h
    | expr sub =>
      simp only [valDers] at h
      have hval : R sub := hn1
      split at h
      · rename_i der rest hder hrest
        cases h
        exact tail _ der rest hval hder hrest
      · cases h
      · cases h

theorem c_engine : ∀ fuel, SPD I C t R i fuel ∧ SPI I C t R i fuel ∧ SVD I C t R i fuel := by
  intro fuel
  induction fuel with
  | zero =>
    refine ⟨?_, ?_, ?_⟩
    · intro e e' _ h
      rw [partialDeepex] at h
      cases h
    · intro e e' _ h
      rw [partialInner] at h
      cases h
    · intro nodes vds _ h
      rw [valDers] at h
      cases h
  | succ fuel ih =>
    obtain ⟨h1, h2, h3⟩ := ih
    exact ⟨spd_step I C t R hR i fuel h2, spi_step I C t R hR i fuel h1 h3,
      svd_step I C t R hR i fuel h1 h3⟩

/-- **the engine preserves every closed predicate**; the last step is a product
    `inner * outer` of two expressions satisfying it, and `inner` lists the variables of `d` -/
theorem partial_closed (d d' : DeepEx K) (fuel : Nat) (hd : R d)
    (hp : partialDeepex I C t i fuel d = .ok d') :
    ∃ inner outer, R inner ∧ R outer ∧ (∀ y ∈ d.vars, y ∈ inner.vars) ∧
      DeepEx.mul I C t inner outer = .ok d' := by
  cases fuel with
  | zero => rw [partialDeepex] at hp; cases hp
  | succ fuel =>
    rw [partialDeepex] at hp
    split at hp
    · cases hp
    rename_i inner hin
    split at hp
    · cases hp
    rename_i outer hout
    obtain ⟨sin, vin⟩ := (c_engine I C t R hR i fuel).2.1 d inner hd hin
    exact ⟨inner, outer, sin, outer_c I C t R hR d outer hd hout, vin, hp⟩

end
end Exmex.ReachLemmas
