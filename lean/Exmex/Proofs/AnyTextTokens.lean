/-
  Assembly at token level: a token list accepted by `checkPre`, by the flat walker and by the deep
  walker in which no two operands are adjacent is the canonical token stream of a chain.
-/
import Exmex.Proofs.AnyTextDeep
namespace Exmex.AnyText
open Exmex.ReachLemmas Exmex.Diff

variable {α : Type}

theorem isOpBin_false (t : Table) (o : Nat) (p : Option (Tok α))
    (h : isOperatorBinary t o p = .ok false) (hr : Role t o) : tblHasUnary t o = true := by
  cases hu : tblHasUnary t o with
  | true => rfl
  | false =>
    exfalso
    have hb : tblHasBin t o = true := by
      rcases hr with hr | hr
      · exact hr
      · rw [hu] at hr; cases hr
    unfold isOperatorBinary at h
    rw [hb, hu] at h
    simp only [Bool.true_and, Bool.not_false, if_true] at h
    split at h <;> cases h

theorem stepOK_of_facts (t : Table) (toks : List (Tok α))
    (hW : ∀ i tk, toks[i]? = some tk → stepW t (prevAt toks i) tk = true)
    (hlead : ∀ j, ¬ Lead t toks j)
    (hbin : ∀ (j o : Nat), toks[j]? = some (Tok.op o) → ∃ b, isBinaryAt t toks o j = .ok b)
    (hrole : ∀ (j o : Nat), toks[j]? = some (Tok.op o) → Role t o) :
    ∀ i tk, toks[i]? = some tk → stepOK t (prevAt toks i) tk = true := by
  intro i tk hi
  have hw := hW i tk hi
  cases tk with
  | num a => exact hw
  | var x => exact hw
  | popen => exact hw
  | pclose => exact hw
  | op o =>
    rw [stepOK]
    cases hp : isEnd (prevAt toks i) with
    | true =>
      rw [stepW, hp] at hw
      simpa using hw
    | false =>
      simp only [Bool.false_eq_true, if_false]
      obtain ⟨b, hb⟩ := hbin i o hi
      cases b with
      | true => exact absurd ⟨o, hi, hb, hp⟩ (hlead i)
      | false => exact isOpBin_false t o _ hb (hrole i o hi)

theorem allOK_of_steps (t : Table) (toks : List (Tok α))
    (hS : ∀ i tk, toks[i]? = some tk → stepOK t (prevAt toks i) tk = true)
    (hlast : (toks.getLast?.map isOpTok).getD false = false) :
    ∀ (rest : List (Tok α)) (i : Nat), toks.drop i = rest → i ≤ toks.length →
      allOK t (prevAt toks i) rest = true
  | [], i, hd, hi => by
    have hlen : toks.length ≤ i := by
      have := congrArg List.length hd
      simp at this
      omega
    have hi' : i = toks.length := by omega
    subst hi'
    rw [allOK]
    unfold prevAt
    split
    · rw [List.getLast?_eq_getElem?] at hlast
      cases hq : toks[toks.length - 1]? with
      | none => rfl
      | some q =>
        rw [hq] at hlast
        cases q <;> first | rfl | (simp [isOpTok] at hlast)
    · rfl
  | tk :: r, i, hd, hi => by
    obtain ⟨htk, hdr⟩ := drop_cons_facts toks i tk r hd
    have hilt : i < toks.length := (List.getElem?_eq_some_iff.1 htk).1
    rw [allOK, Bool.and_eq_true]
    refine ⟨hS i tk htk, ?_⟩
    have := allOK_of_steps t toks hS hlast r (i + 1) hdr hilt
    rw [prevAt_succ, htk] at this
    exact this

theorem closes_of_balance : ∀ (l : List (Tok α)) (n : Nat), parenBalance l (n : Int) = some 0 →
    closes n l = true
  | [], n, h => by
    rw [parenBalance] at h
    have : (n : Int) = 0 := Option.some.inj h
    have hn : n = 0 := by omega
    subst hn
    rfl
  | tk :: r, n, h => by
    rw [parenBalance] at h
    split at h
    · cases h
    rename_i hneg
    cases tk with
    | popen =>
      rw [closes]
      apply closes_of_balance r (n + 1)
      simpa [parenDelta] using h
    | pclose =>
      cases n with
      | zero => simp [parenDelta] at hneg
      | succ m =>
        rw [closes]
        apply closes_of_balance r m
        have e : ((m + 1 : Nat) : Int) + parenDelta (Tok.pclose : Tok α) = (m : Int) := by
          simp [parenDelta]
          omega
        rw [e] at h
        exact h
    | num a =>
      rw [closes]
      apply closes_of_balance r n
      simpa [parenDelta] using h
    | var x =>
      rw [closes]
      apply closes_of_balance r n
      simpa [parenDelta] using h
    | op o =>
      rw [closes]
      apply closes_of_balance r n
      simpa [parenDelta] using h

/-- **accepted by both walkers, no two operands adjacent ⟹ the tokens of a chain** -/
theorem chain_of_accepted (I : Interp α) (t : Table) (hA : C01.FlaggedAssoc I t) (hP : TblPrio t)
    (text : Str) (toks : List (Tok α)) (vars : List Str) (V : List Str) (fuel : Nat)
    (f : FlatEx α) (d : DeepEx α) (k : Nat)
    (hpre : checkPre t toks = .ok ()) (hadj : noAdjacent toks = true)
    (hf : makeExpression t text toks vars = .ok f)
    (hd : deepMake I t V fuel toks [] = .ok (d, k)) :
    ∃ c : Chain α, c.toks I = toks ∧ c.WF t ∧ c.Roles t := by
  obtain ⟨hne, -, hbal⟩ := checkPre_spec t toks hpre
  obtain ⟨hlead, hbin⟩ := flat_facts t text toks vars f hpre hadj hf
  have hrole := deep_roles I t hA hP toks V fuel d k hpre hd
  have hS := stepOK_of_facts t toks (stepW_of_pre t toks hpre hadj) hlead hbin hrole
  have hok := allOK_of_steps t toks hS (checkPre_last t toks hpre) toks 0 rfl (Nat.zero_le _)
  exact chain_of_allOK I t hP toks hne hok (closes_of_balance toks 0 hbal)

end Exmex.AnyText
