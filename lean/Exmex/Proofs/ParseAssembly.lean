/-
  Assembly of the parser-level statements of C01/C02: the canonical token stream of a well-formed
  expression passes `check_parsed_token_preconditions`, `find_parsed_vars` returns the documented
  variable list, and the flat expression built by `make_expression` satisfies the structural
  invariant and the index bound that `FlatEx::compile` needs.
-/
import Exmex.Props.C01
import Exmex.Props.C02
import Exmex.Props.C04
import Exmex.Proofs.MakeFlat
namespace Exmex.ParseAssembly

variable {α : Type}

/-! ### the pre-condition check on canonical token streams -/

/-- tokens an operand may start with: a number, a variable, `(`, or an operator in unary role -/
def firstOK (t : Table) : Tok α → Bool
  | .num _ => true
  | .var _ => true
  | .popen => true
  | .op u => tblHasUnary t u
  | .pclose => false

/-- tokens an operand may end with: a number, a variable, or `)` -/
def lastOK : Tok α → Bool
  | .num _ => true
  | .var _ => true
  | .pclose => true
  | _ => false

theorem pv_open_first (t : Table) (f : Tok α) (h : firstOK t f = true) :
    pairViolated t .popen f = false := by
  cases f <;> simp_all [pairViolated, firstOK]

theorem pv_last_close (t : Table) (z : Tok α) (h : lastOK z = true) :
    pairViolated t z .pclose = false := by
  cases z <;> simp_all [pairViolated, lastOK]

theorem pv_last_bin (t : Table) (z : Tok α) (o : Nat) (h : lastOK z = true)
    (ho : tblHasBin t o = true) : pairViolated t z (.op o) = false := by
  cases z <;> simp_all [pairViolated, lastOK]

theorem pv_op_first (t : Table) (o : Nat) (f : Tok α) (h : firstOK t f = true) :
    pairViolated t (.op o) f = false := by
  cases f <;> simp_all [pairViolated, firstOK]

/-- no violated pair in either part and none at the seam: none in the concatenation -/
theorem apv_append (t : Table) : ∀ (xs ys : List (Tok α)),
    anyPairViolated t xs = false → anyPairViolated t ys = false →
    (∀ a b, xs.getLast? = some a → ys.head? = some b → pairViolated t a b = false) →
    anyPairViolated t (xs ++ ys) = false
  | [], ys, _, h, _ => by simpa using h
  | [a], [], _, _, _ => by simp [anyPairViolated]
  | [a], b :: ys, _, h, hb => by
    have := hb a b rfl rfl
    simp [anyPairViolated, h, this]
  | a :: a' :: xs, ys, h1, h2, hb => by
    simp only [anyPairViolated, Bool.or_eq_false_iff] at h1
    have ih := apv_append t (a' :: xs) ys h1.2 h2 (by
      intro x y hx hy
      exact hb x y (by rw [List.getLast?_cons_cons]; exact hx) hy)
    rw [List.cons_append] at ih
    simp only [List.cons_append, anyPairViolated, h1.1, ih, Bool.or_self]

/-- a token list that can stand in an operand position -/
structure Good (t : Table) (l : List (Tok α)) : Prop where
  first : ∃ f, l.head? = some f ∧ firstOK t f = true
  last : ∃ z, l.getLast? = some z ∧ lastOK z = true
  pairs : anyPairViolated t l = false
  bal : ∀ rest n, 0 ≤ n → parenBalance (l ++ rest) n = parenBalance rest n

theorem parenBalance_cons (tk : Tok α) (ts : List (Tok α)) (n m : Int)
    (hm : n + parenDelta tk = m) (h : 0 ≤ m) :
    parenBalance (tk :: ts) n = parenBalance ts m := by
  subst hm
  rw [parenBalance]
  exact if_neg (by omega)

theorem good_num (t : Table) (v : α) : Good t [Tok.num v] :=
  ⟨⟨_, rfl, rfl⟩, ⟨_, rfl, rfl⟩, rfl, fun rest n hn => by
    exact parenBalance_cons _ _ n n (by simp [parenDelta]) hn⟩

theorem good_var (t : Table) (x : Str) : Good (α := α) t [Tok.var x] :=
  ⟨⟨_, rfl, rfl⟩, ⟨_, rfl, rfl⟩, rfl, fun rest n hn => by
    exact parenBalance_cons _ _ n n (by simp [parenDelta]) hn⟩

theorem apv_single (t : Table) (a : Tok α) : anyPairViolated t [a] = false := rfl

theorem good_par {t : Table} {l : List (Tok α)} (h : Good t l) :
    Good t (Tok.popen :: (l ++ [Tok.pclose])) := by
  obtain ⟨⟨f, hf, hfo⟩, ⟨z, hz, hzo⟩, hp, hb⟩ := h
  refine ⟨⟨_, rfl, rfl⟩, ⟨.pclose, ?_, rfl⟩, ?_, ?_⟩
  · rw [← List.cons_append, List.getLast?_concat]
  · have h1 : anyPairViolated t (l ++ [Tok.pclose]) = false :=
      apv_append t l [.pclose] hp rfl (by
        intro a b ha hb'
        rw [hz] at ha
        cases ha
        cases hb'
        exact pv_last_close t _ hzo)
    exact apv_append t [.popen] (l ++ [.pclose]) rfl h1 (by
      intro a b ha hb'
      cases ha
      rw [List.head?_append, hf] at hb'
      cases hb'
      exact pv_open_first t _ hfo)
  · intro rest n hn
    have e : Tok.popen :: (l ++ [Tok.pclose]) ++ rest = Tok.popen :: (l ++ (Tok.pclose :: rest)) := by
      simp
    rw [e, parenBalance_cons _ _ n (n + 1) rfl (by omega), hb _ _ (by omega),
      parenBalance_cons _ _ (n + 1) n (by simp only [parenDelta]; omega) hn]

theorem good_un {t : Table} {l : List (Tok α)} (u : Nat) (hu : tblHasUnary t u = true)
    (h : Good t l) : Good t (Tok.op u :: l) := by
  obtain ⟨⟨f, hf, hfo⟩, ⟨z, hz, hzo⟩, hp, hb⟩ := h
  refine ⟨⟨_, rfl, hu⟩, ⟨z, ?_, hzo⟩, ?_, ?_⟩
  · rw [List.getLast?_cons, hz]; rfl
  · exact apv_append t [.op u] l rfl hp (by
      intro a b ha hb'
      cases ha
      rw [hf] at hb'
      cases hb'
      exact pv_op_first t _ _ hfo)
  · intro rest n hn
    rw [List.cons_append, parenBalance_cons _ _ n n (by simp [parenDelta]) hn]
    exact hb rest n hn

theorem good_bin {t : Table} {l1 l2 : List (Tok α)} (o : Nat) (ho : tblHasBin t o = true)
    (h1 : Good t l1) (h2 : Good t l2) : Good t (l1 ++ Tok.op o :: l2) := by
  obtain ⟨⟨f1, hf1, hfo1⟩, ⟨z1, hz1, hzo1⟩, hp1, hb1⟩ := h1
  obtain ⟨⟨f2, hf2, hfo2⟩, ⟨z2, hz2, hzo2⟩, hp2, hb2⟩ := h2
  refine ⟨⟨f1, ?_, hfo1⟩, ⟨z2, ?_, hzo2⟩, ?_, ?_⟩
  · rw [List.head?_append, hf1]; rfl
  · rw [List.getLast?_append, List.getLast?_cons, hz2]; rfl
  · have h3 : anyPairViolated t (Tok.op o :: l2) = false :=
      apv_append t [.op o] l2 rfl hp2 (by
        intro a b ha hb'
        cases ha
        rw [hf2] at hb'
        cases hb'
        exact pv_op_first t _ _ hfo2)
    exact apv_append t l1 _ hp1 h3 (by
      intro a b ha hb'
      rw [hz1] at ha
      cases ha
      cases hb'
      exact pv_last_bin t _ _ hzo1 ho)
  · intro rest n hn
    rw [List.append_assoc, hb1 _ _ hn, List.cons_append,
      parenBalance_cons _ _ n n (by simp [parenDelta]) hn]
    exact hb2 rest n hn

mutual
theorem atom_good (I : Interp α) (t : Table) : ∀ a : Atom α, a.Roles t → Good t (a.toks I)
  | .lit _ v, _ => by rw [Atom.toks]; exact good_num t v
  | .var x _, _ => by rw [Atom.toks]; exact good_var t x
  | .const k, _ => by rw [Atom.toks]; exact good_num t _
  | .par c, hr => by
    rw [Atom.Roles] at hr
    rw [Atom.toks]
    exact good_par (chain_good I t c hr)
  | .call o a b, hr => by
    rw [Atom.Roles] at hr
    obtain ⟨ho, ha, hb⟩ := hr
    have e : Atom.toks I (.call o a b) =
        Tok.popen :: ((Tok.popen :: (a.toks I ++ [Tok.pclose]) ++
          Tok.op o :: (Tok.popen :: (b.toks I ++ [Tok.pclose]))) ++ [Tok.pclose]) := by
      rw [Atom.toks]; simp
    rw [e]
    exact good_par (good_bin o ho (good_par (chain_good I t a ha)) (good_par (chain_good I t b hb)))
  | .un u a, hr => by
    rw [Atom.Roles] at hr
    rw [Atom.toks]
    exact good_un u hr.1 (atom_good I t a hr.2)
theorem chain_good (I : Interp α) (t : Table) : ∀ c : Chain α, c.Roles t → Good t (c.toks I)
  | .single a, hr => by
    rw [Chain.Roles] at hr
    rw [Chain.toks]
    exact atom_good I t a hr
  | .cons a o rest, hr => by
    rw [Chain.Roles] at hr
    obtain ⟨ho, ha, hrr⟩ := hr
    have e : Chain.toks I (.cons a o rest) = a.toks I ++ Tok.op o :: rest.toks I := by
      rw [Chain.toks]; simp
    rw [e]
    exact good_bin o ho (atom_good I t a ha) (chain_good I t rest hrr)
end

theorem checkPre_of_good {t : Table} {l : List (Tok α)} (h : Good t l) :
    checkPre t l = .ok () := by
  obtain ⟨⟨f, hf, -⟩, ⟨z, hz, hzl⟩, hp, hb⟩ := h
  have hne : l.isEmpty = false := by
    cases l with
    | nil => simp at hf
    | cons => rfl
  have hb0 := hb [] 0 (Int.le_refl _)
  simp only [List.append_nil, parenBalance] at hb0
  have hlast : (l.getLast?.map isOpTok).getD false = false := by
    rw [hz]
    cases z <;> simp_all [lastOK, isOpTok]
  unfold checkPre
  simp [hne, hp, hb0, hlast]

/-! ### the variable list -/

theorem strLt_of_lt_of_le (x y z : Str) (h1 : strLt x y = true) (h2 : strLe y z = true) :
    strLt x z = true := by
  unfold strLe at h2
  rcases strLt_total' x z with h | h | h
  · exact h
  · subst h
    simp [h1] at h2
  · have := strLt_trans' z x y h h1
    simp [this] at h2

/-- removing adjacent duplicates from an ascending list gives a strictly ascending list -/
theorem dedupAdj_strict : ∀ l : List Str, l.Pairwise (fun a b => strLe a b = true) →
    (dedupAdj l).Pairwise (fun a b => strLt a b = true)
  | [], _ => by simp [dedupAdj]
  | [x], _ => by simp [dedupAdj]
  | x :: y :: rest, h => by
    rw [List.pairwise_cons] at h
    have ih := dedupAdj_strict (y :: rest) h.2
    simp only [dedupAdj]
    split
    · exact ih
    · next hne =>
      refine List.pairwise_cons.2 ⟨?_, ih⟩
      intro z hz
      rw [C01Assembly.mem_dedupAdj] at hz
      have hxy : strLt x y = true :=
        strLt_of_strLe_of_ne x y (h.1 y List.mem_cons_self) hne
      rcases List.mem_cons.1 hz with rfl | hz
      · exact hxy
      · exact strLt_of_lt_of_le x y z hxy ((List.pairwise_cons.1 h.2).1 z hz)

theorem sortDedup_strict (l : List Str) :
    (sortDedup l).Pairwise (fun a b => strLt a b = true) :=
  dedupAdj_strict _ (sortBy_pairwise strLe strLe_total strLe_trans l)

/-- strictly ascending lists with the same members are equal -/
theorem strict_ext : ∀ l1 l2 : List Str, l1.Pairwise (fun a b => strLt a b = true) →
    l2.Pairwise (fun a b => strLt a b = true) → (∀ x, x ∈ l1 ↔ x ∈ l2) → l1 = l2
  | [], [], _, _, _ => rfl
  | [], b :: l2, _, _, h => by
    have := (h b).2 List.mem_cons_self
    simp at this
  | a :: l1, [], _, _, h => by
    have := (h a).1 List.mem_cons_self
    simp at this
  | a :: l1, b :: l2, h1, h2, h => by
    rw [List.pairwise_cons] at h1 h2
    have hab : a = b := by
      rcases List.mem_cons.1 ((h a).1 List.mem_cons_self) with e | ha
      · exact e
      · rcases List.mem_cons.1 ((h b).2 List.mem_cons_self) with e | hb
        · exact e.symm
        · have x1 := h2.1 a ha
          have x2 := h1.1 b hb
          rw [strLt_asymm' _ _ x1] at x2
          cases x2
    subst hab
    congr 1
    refine strict_ext l1 l2 h1.2 h2.2 ?_
    intro x
    constructor
    · intro hx
      rcases List.mem_cons.1 ((h x).1 (List.mem_cons_of_mem _ hx)) with e | hx'
      · subst e
        have := h1.1 x hx
        rw [strLt_irrefl'] at this
        cases this
      · exact hx'
    · intro hx
      rcases List.mem_cons.1 ((h x).2 (List.mem_cons_of_mem _ hx)) with e | hx'
      · subst e
        have := h2.1 x hx
        rw [strLt_irrefl'] at this
        cases this
      · exact hx'

mutual
theorem atom_var_mem (I : Interp α) (x : Str) :
    ∀ a : Atom α, Tok.var x ∈ a.toks I ↔ x ∈ a.varOcc
  | .lit _ _ => by simp [Atom.toks, Atom.varOcc]
  | .var y _ => by simp [Atom.toks, Atom.varOcc]
  | .const _ => by simp [Atom.toks, Atom.varOcc]
  | .par c => by
    have := chain_var_mem I x c
    simp [Atom.toks, Atom.varOcc, this]
  | .call o a b => by
    have h1 := chain_var_mem I x a
    have h2 := chain_var_mem I x b
    simp [Atom.toks, Atom.varOcc, h1, h2]
  | .un u a => by
    have := atom_var_mem I x a
    simp [Atom.toks, Atom.varOcc, this]
theorem chain_var_mem (I : Interp α) (x : Str) :
    ∀ c : Chain α, Tok.var x ∈ c.toks I ↔ x ∈ c.varOcc
  | .single a => by
    have := atom_var_mem I x a
    simp [Chain.toks, Chain.varOcc, this]
  | .cons a o rest => by
    have h1 := atom_var_mem I x a
    have h2 := chain_var_mem I x rest
    simp [Chain.toks, Chain.varOcc, h1, h2]
end

theorem findVars_toks (I : Interp α) (c : Chain α) : findVars (c.toks I) = c.vars := by
  refine strict_ext _ _ (C04.findVars_sorted _) (sortDedup_strict _) ?_
  intro x
  rw [C04.mem_findVars, chain_var_mem, Chain.vars, C01Assembly.mem_sortDedup]

/-! ### variable indices of the flattening are in range -/

/-- every variable node refers to a slot of `vars` -/
def KindsOK (vars : List Str) (nodes : List (FlatNode α)) : Prop :=
  ∀ nd ∈ nodes, ∀ i, nd.kind = .var i → i < vars.length

theorem varIndex_lt (vars : List Str) (x : Str) (hx : x ∈ vars) :
    varIndex vars x < vars.length := by
  unfold varIndex
  cases h : vars.idxOf? x with
  | none => exact absurd hx (List.idxOf?_eq_none_iff.1 h)
  | some i =>
    obtain ⟨hi, -⟩ := List.idxOf?_eq_some_iff.1 h
    exact hi

theorem kindsOK_append {vars : List Str} {A B : List (FlatNode α)} (hA : KindsOK vars A)
    (hB : KindsOK vars B) : KindsOK vars (A ++ B) := by
  intro nd hnd
  rcases List.mem_append.1 hnd with h | h
  · exact hA nd h
  · exact hB nd h

theorem attachUnary_kinds (vars : List Str) (us : List Nat)
    (g : List (FlatNode α) × List FlatOp) (h : KindsOK vars g.1) :
    KindsOK vars (attachUnary us g).1 := by
  unfold attachUnary
  split
  · exact h
  · split
    · exact h
    · split
      · next last restRev hrev =>
        intro nd hnd i hi
        rw [List.mem_reverse] at hnd
        have hmem : ∀ y, y ∈ last :: restRev → y ∈ g.1 := by
          intro y hy
          rw [← hrev] at hy
          exact List.mem_reverse.1 hy
        rcases List.mem_cons.1 hnd with rfl | hnd
        · exact h last (hmem _ List.mem_cons_self) i hi
        · exact h nd (hmem _ (List.mem_cons_of_mem _ hnd)) i hi
      · exact h

mutual
theorem atom_kinds (I : Interp α) (t : Table) (vars : List Str) :
    ∀ (a : Atom α) (us : List Nat) (d : Int), (∀ x ∈ a.varOcc, x ∈ vars) →
      KindsOK vars (a.flat I t vars us d).1
  | .lit _ _, us, d, _ => by
    intro nd hnd i hi
    simp [Atom.flat] at hnd
    subst hnd
    cases hi
  | .var x _, us, d, hv => by
    intro nd hnd i hi
    simp [Atom.flat] at hnd
    subst hnd
    cases hi
    exact varIndex_lt vars x (hv x (by simp [Atom.varOcc]))
  | .const _, us, d, _ => by
    intro nd hnd i hi
    simp [Atom.flat] at hnd
    subst hnd
    cases hi
  | .par c, us, d, hv => by
    rw [Atom.varOcc] at hv
    rw [Atom.flat]
    exact attachUnary_kinds vars us _ (chain_kinds I t vars c (d + 1) hv)
  | .call o a b, us, d, hv => by
    rw [Atom.varOcc] at hv
    rw [Atom.flat]
    exact attachUnary_kinds vars us _
      (kindsOK_append (chain_kinds I t vars a (d + 2) (fun x hx => hv x (List.mem_append_left _ hx)))
        (chain_kinds I t vars b (d + 2) (fun x hx => hv x (List.mem_append_right _ hx))))
  | .un u a, us, d, hv => by
    rw [Atom.varOcc] at hv
    rw [Atom.flat]
    exact atom_kinds I t vars a (us ++ [u]) d hv
theorem chain_kinds (I : Interp α) (t : Table) (vars : List Str) :
    ∀ (c : Chain α) (d : Int), (∀ x ∈ c.varOcc, x ∈ vars) → KindsOK vars (c.flat I t vars d).1
  | .single a, d, hv => by
    rw [Chain.varOcc] at hv
    rw [Chain.flat]
    exact atom_kinds I t vars a [] d hv
  | .cons a o rest, d, hv => by
    rw [Chain.varOcc] at hv
    rw [Chain.flat]
    exact kindsOK_append (atom_kinds I t vars a [] d (fun x hx => hv x (List.mem_append_left _ hx)))
      (chain_kinds I t vars rest d (fun x hx => hv x (List.mem_append_right _ hx)))
end

/-! ### the parser on a text that lexes to the canonical token stream -/

/-- the flat expression `parse_wo_compile` builds: the structural flattening, with the text -/
def parsedFlat (I : Interp α) (t : Table) (c : Chain α) (text : Str) : FlatEx α :=
  { nodes := (c.flat I t c.vars 0).1, ops := (c.flat I t c.vars 0).2,
    prioIdx := prioIdxFlat (c.flat I t c.vars 0).2 (c.flat I t c.vars 0).1,
    vars := c.vars, text := text }

theorem parseWoCompile_eq (I : Interp α) (t : Table) (lm : Str → Option Nat) (c : Chain α)
    (hc : c.WF t) (hr : c.Roles t) (text : Str) (hlex : tokenize I t lm text = .ok (c.toks I)) :
    Flat.parseWoCompile I t lm text = .ok (parsedFlat I t c text) := by
  unfold Flat.parseWoCompile
  rw [hlex]
  simp only [checkPre_of_good (chain_good I t c hr), findVars_toks]
  exact makeExpression_toks I t c hc hr c.vars
    (fun x hx => (C01Assembly.mem_sortDedup x c.varOcc).2 hx) text

theorem parsedFlat_eval (I : Interp α) (t : Table) (hA : C01.FlaggedAssoc I t) (c : Chain α)
    (hc : c.WF t) (text : Str) (vals : List α) (hlen : vals.length = c.vars.length) :
    ∃ v, c.denote I t (envOf c.vars vals I.dflt) = some v ∧
      (parsedFlat I t c text).eval I vals = .ok v :=
  C01Assembly.eval_flat I t hA c hc vals hlen (parsedFlat I t c text) rfl rfl rfl rfl

theorem parsedFlat_inv (I : Interp α) (t : Table) (hA : C01.FlaggedAssoc I t) (c : Chain α)
    (hc : c.WF t) (text : Str) (vals : List α) (hlen : vals.length = c.vars.length) :
    C02.FlatInv I (parsedFlat I t c text) := by
  obtain ⟨hl, hU, -, -⟩ := flat_denote I t c hc c.vars vals
    (envOf c.vars vals I.dflt) (C01Assembly.chain_env c vals I.dflt hlen) 0
  have hflag := C01Assembly.chain_flagOK I t c.vars c 0
  exact ⟨hl, rfl, ⟨fun o ho hcomm => by
    obtain ⟨b, hb, hbc⟩ := hflag o ho hcomm
    exact hA o.idx b hb hbc, hU⟩⟩

theorem parsedFlat_idx (I : Interp α) (t : Table) (c : Chain α) (text : Str) (vals : List α)
    (hlen : vals.length = c.vars.length) : C02.IdxOK (parsedFlat I t c text) vals.length := by
  rw [hlen]
  exact chain_kinds I t c.vars c 0 (fun x hx => (C01Assembly.mem_sortDedup x c.varOcc).2 hx)

theorem eval_eq_evalCloning (I : Interp α) (f : FlatEx α) (vals : List α)
    (h : f.vars.length = vals.length) : f.eval I vals = evalCloning I f vals := by
  unfold FlatEx.eval
  rw [h]
  simp

end Exmex.ParseAssembly
