/-
  L5: the structural flattening of a well-formed expression (priorities + 1000 per paren depth,
  group unary chains on the right-most lowest operator), evaluated by "split at the right-most
  operator of minimal priority", yields the documented value.
-/
import Exmex.Model.Flat
import Exmex.Spec.Surface
import Exmex.Spec.Split
import Exmex.Proofs.FlattenDefs
import Exmex.Proofs.FlatDenoteBlocks
namespace Exmex

namespace FlatDenoteAux
open SplitLemmas

variable {α : Type}

/-! ### `mkFlatOp` -/

theorem mkFlatOp_prio (t : Table) (o : Nat) (d : Int) :
    (mkFlatOp t o d).prio = tblPrio t o + d * 1000 := by
  unfold mkFlatOp tblPrio
  cases (t[o]?).bind (·.bin) <;> simp [DEPTH_PRIO_STEP]

theorem mkFlatOp_un (t : Table) (o : Nat) (d : Int) : (mkFlatOp t o d).un = [] := by
  unfold mkFlatOp
  cases (t[o]?).bind (·.bin) <;> rfl

theorem mkFlatOp_idx (t : Table) (o : Nat) (d : Int) : (mkFlatOp t o d).idx = o := by
  unfold mkFlatOp
  cases (t[o]?).bind (·.bin) <;> rfl

theorem mkFlatOp_act (I : Interp α) (t : Table) (o : Nat) (d : Int) (a b : α) :
    FlatOp.act I (mkFlatOp t o d) a b = I.bin o a b := by
  simp [FlatOp.act, mkFlatOp_un, mkFlatOp_idx, applyUn]

theorem tblPrio_of_wf {t : Table} {o : Nat}
    (h : ∃ b', (t[o]?).bind (·.bin) = some b' ∧ 0 ≤ b'.prio ∧ b'.prio ≤ 99) :
    0 ≤ tblPrio t o ∧ tblPrio t o ≤ 99 := by
  obtain ⟨b', hb, h0, h1⟩ := h
  unfold tblPrio
  rw [hb]
  exact ⟨h0, h1⟩

/-! ### the invariants of the mutual induction -/

/-- flattening of an operand with pending unary chain `us` at depth `d` -/
def AtomOK (I : Interp α) (t : Table) (vars : List Str) (vals : List α) (ρ : Env α)
    (a : Atom α) (us : List Nat) (d : Int) : Prop :=
  UnaryOK' (a.flat I t vars us d).2 ∧
  ∃ ns v, nodeValues I (a.flat I t vars us d).1 vals = some ns ∧ a.denoteS I t ρ = some v ∧
    GroupOK I ns (a.flat I t vars us d).2 ((d + 1) * 1000) (applyUn I us v)

/-- flattening of a chain at depth `d`: groups joined by the chain's operators -/
def ChainOK (I : Interp α) (t : Table) (vars : List Str) (vals : List α) (ρ : Env α)
    (c : Chain α) (d : Int) : Prop :=
  UnaryOK' (c.flat I t vars d).2 ∧
  ∃ ns vs os, nodeValues I (c.flat I t vars d).1 vals = some ns ∧
    c.operandsS I t ρ = some (vs, os) ∧
    Blocks I ((d + 1) * 1000) (fun o => mkFlatOp t o d) ns (c.flat I t vars d).2 vs os ∧
    ∀ o ∈ os, 0 ≤ tblPrio t o ∧ tblPrio t o ≤ 99

/-- what a chain invariant yields for the chain as a whole -/
theorem chain_final {I : Interp α} {t : Table} {vars : List Str} {vals : List α} {ρ : Env α}
    {c : Chain α} {d : Int} (h : ChainOK I t vars vals ρ c d) :
    UnaryOK' (c.flat I t vars d).2 ∧
    ∃ ns v, nodeValues I (c.flat I t vars d).1 vals = some ns ∧ c.denoteS I t ρ = some v ∧
      GroupOK I ns (c.flat I t vars d).2 (d * 1000) v := by
  obtain ⟨hU, ns, vs, os, hn, hops, hB, hpr⟩ := h
  have hlen := hB.len
  obtain ⟨v, hv⟩ := splitEval_isSome I.bin (tblPrio t) os.length vs os (Nat.le_refl _) hlen.2
  have hev := Blocks.eval (I := I) I.bin (tblPrio t)
    (fun o a b => mkFlatOp_act I t o d a b)
    (fun o o' => by simp only [mkFlatOp_prio]; constructor <;> intro h <;> omega)
    os.length (Nat.le_refl _) hB
    (fun o ho => by
      have := hpr o ho
      simp only [mkFlatOp_prio]; omega)
  refine ⟨hU, ns, v, hn, ?_, hlen.1, ?_, ?_⟩
  · rw [Chain.denoteS, hops]; exact hv
  · intro x hx
    rcases hB.mem x hx with ⟨o, ho, rfl⟩ | hx
    · have := hpr o ho
      simp only [mkFlatOp_prio]; omega
    · omega
  · rw [hev, hv]

theorem groupOK_leaf (I : Interp α) (lo : Int) (x : α) : GroupOK I [x] [] lo x :=
  ⟨rfl, by simp, splitEval_single _ _ _ _⟩

variable (I : Interp α) (t : Table) (vars : List Str) (vals : List α) (ρ : Env α)

mutual
theorem atom_ok : ∀ (a : Atom α) (us : List Nat) (d : Int), a.WF t →
    (∀ x ∈ a.varOcc, vals[varIndex vars x]? = some (ρ x)) → AtomOK I t vars vals ρ a us d
  | .lit s v, us, d, _, _ => by
    refine ⟨unaryOK'_nil, [applyUn I us v], v, ?_, by rw [Atom.denoteS], groupOK_leaf I _ _⟩
    simp [Atom.flat, nodeValues_single, nodeVal]
  | .var x b, us, d, _, hρ => by
    refine ⟨unaryOK'_nil, [applyUn I us (ρ x)], ρ x, ?_, by rw [Atom.denoteS], groupOK_leaf I _ _⟩
    have := hρ x (by simp [Atom.varOcc])
    simp [Atom.flat, nodeValues_single, nodeVal, this]
  | .const k, us, d, _, _ => by
    refine ⟨unaryOK'_nil, [applyUn I us (I.const k)], I.const k, ?_, by rw [Atom.denoteS], groupOK_leaf I _ _⟩
    simp [Atom.flat, nodeValues_single, nodeVal]
  | .par c, us, d, hwf, hρ => by
    have hc := chain_ok c (d + 1) (by simpa [Atom.WF] using hwf) (by simpa [Atom.varOcc] using hρ)
    obtain ⟨hU, ns, v, hn, hv, hg⟩ := chain_final hc
    obtain ⟨hU', ns', hn', hg'⟩ := attachUnary_spec I vals us _ _ hn hg hU
    unfold AtomOK
    rw [Atom.flat, Atom.denoteS]
    exact ⟨hU', ns', v, hn', hv, hg'⟩
  | .call o a b, us, d, hwf, hρ => by
    rw [Atom.WF] at hwf
    obtain ⟨ho, hwa, hwb⟩ := hwf
    rw [Atom.varOcc] at hρ
    have ha := chain_ok a (d + 2) hwa (fun x hx => hρ x (List.mem_append_left _ hx))
    have hb := chain_ok b (d + 2) hwb (fun x hx => hρ x (List.mem_append_right _ hx))
    obtain ⟨hUa, nsa, va, hna, hva, hga⟩ := chain_final ha
    obtain ⟨hUb, nsb, vb, hnb, hvb, hgb⟩ := chain_final hb
    have hp := tblPrio_of_wf ho
    have hmp := mkFlatOp_prio t o (d + 1)
    have hj := (GroupOK.join hga hgb (mkFlatOp t o (d + 1)) (mkFlatOp_un ..) (by omega)).mono
      (lo' := (d + 1) * 1000) (by omega)
    rw [mkFlatOp_idx] at hj
    have hU : UnaryOK' ((a.flat I t vars (d + 2)).2 ++ mkFlatOp t o (d + 1) ::
        (b.flat I t vars (d + 2)).2) :=
      unaryOK'_append_cons hUa hUb (mkFlatOp_un ..)
        (fun x hx => by have := hga.lo x hx; omega)
    obtain ⟨hU', ns', hn', hg'⟩ :=
      attachUnary_spec I vals us _ _ (nodeValues_append I vals hna hnb) hj hU
    unfold AtomOK
    have e : (a.flat I t vars (d + 2)).2 ++ [mkFlatOp t o (d + 1)] ++ (b.flat I t vars (d + 2)).2
        = (a.flat I t vars (d + 2)).2 ++ mkFlatOp t o (d + 1) :: (b.flat I t vars (d + 2)).2 := by
      simp
    rw [Atom.flat, Atom.denoteS, hva, hvb]
    simp only [e]
    exact ⟨hU', ns', _, hn', rfl, hg'⟩
  | .un u a, us, d, hwf, hρ => by
    have ha := atom_ok a (us ++ [u]) d (by simpa [Atom.WF] using hwf)
      (by simpa [Atom.varOcc] using hρ)
    obtain ⟨hU, ns, v, hn, hv, hg⟩ := ha
    unfold AtomOK
    rw [Atom.flat, Atom.denoteS, hv]
    refine ⟨hU, ns, I.un u v, hn, rfl, ?_⟩
    rw [applyUn_append] at hg
    exact hg
theorem chain_ok : ∀ (c : Chain α) (d : Int), c.WF t →
    (∀ x ∈ c.varOcc, vals[varIndex vars x]? = some (ρ x)) → ChainOK I t vars vals ρ c d
  | .single a, d, hwf, hρ => by
    have ha := atom_ok a [] d (by simpa [Chain.WF] using hwf) (by simpa [Chain.varOcc] using hρ)
    obtain ⟨hU, ns, v, hn, hv, hg⟩ := ha
    unfold ChainOK
    rw [Chain.flat, Chain.operandsS, hv]
    exact ⟨hU, ns, [v], [], hn, rfl, Blocks.single hg, by simp⟩
  | .cons a o rest, d, hwf, hρ => by
    rw [Chain.WF] at hwf
    obtain ⟨ho, hwa, hwr⟩ := hwf
    rw [Chain.varOcc] at hρ
    have ha := atom_ok a [] d hwa (fun x hx => hρ x (List.mem_append_left _ hx))
    have hr := chain_ok rest d hwr (fun x hx => hρ x (List.mem_append_right _ hx))
    obtain ⟨hUa, nsa, va, hna, hva, hga⟩ := ha
    obtain ⟨hUr, nsr, vsr, osr, hnr, hopr, hBr, hprr⟩ := hr
    have hp := tblPrio_of_wf ho
    have hmp := mkFlatOp_prio t o d
    have hU : UnaryOK' ((a.flat I t vars [] d).2 ++ mkFlatOp t o d :: (rest.flat I t vars d).2) :=
      unaryOK'_append_cons hUa hUr (mkFlatOp_un ..)
        (fun x hx => by have := hga.lo x hx; omega)
    have hB : Blocks I ((d + 1) * 1000) (fun o => mkFlatOp t o d) (nsa ++ nsr)
        ((a.flat I t vars [] d).2 ++ mkFlatOp t o d :: (rest.flat I t vars d).2)
        (va :: vsr) (o :: osr) := Blocks.cons hga hBr
    have e : (a.flat I t vars [] d).2 ++ [mkFlatOp t o d] ++ (rest.flat I t vars d).2
        = (a.flat I t vars [] d).2 ++ mkFlatOp t o d :: (rest.flat I t vars d).2 := by
      simp
    unfold ChainOK
    rw [Chain.flat, Chain.operandsS, hva, hopr]
    simp only [e]
    refine ⟨hU, _, _, _, nodeValues_append I vals hna hnr, rfl, hB, ?_⟩
    intro x hx
    rcases List.mem_cons.1 hx with rfl | hx
    · exact hp
    · exact hprr x hx
end

end FlatDenoteAux

open FlatDenoteAux in
/-- **L5.** -/
theorem flat_denote {α : Type} (I : Interp α) (t : Table) (c : Chain α) (hc : c.WF t)
    (vars : List Str) (vals : List α) (ρ : Env α)
    (hρ : ∀ x ∈ c.varOcc, vals[varIndex vars x]? = some (ρ x)) (d : Int) :
    (c.flat I t vars d).1.length = (c.flat I t vars d).2.length + 1 ∧
    UnaryOK (c.flat I t vars d).2 ∧
    (∀ o ∈ (c.flat I t vars d).2, d * 1000 ≤ o.prio) ∧
    ∃ numbers v, nodeValues I (c.flat I t vars d).1 vals = some numbers ∧
      c.denoteS I t ρ = some v ∧
      splitEval (FlatOp.act I) (fun o => o.prio) (c.flat I t vars d).2.length numbers
        (c.flat I t vars d).2 = some v := by
  obtain ⟨hU, ns, v, hn, hv, hg⟩ := chain_final (chain_ok I t vars vals ρ c d hc hρ)
  refine ⟨?_, (unaryOK_iff _).2 hU, hg.lo, ns, v, hn, hv, hg.ev⟩
  rw [← nodeValues_length I vals hn, hg.len]

end Exmex
