/-
  C06 (no panic): vocabulary (`Post`) and the tokenizer.
-/
import Exmex.Proofs.Reject
namespace Exmex.Total

/-- a failure that is not a panic -/
def NPF : Fail → Prop
  | .err _ => True
  | .panic _ => False

/-- the outcome is not a panic, and a successful outcome satisfies `P` -/
def Post {β} (r : Res β) (P : β → Prop) : Prop :=
  match r with
  | .ok b => P b
  | .error e => NPF e

/-- the outcome is not a panic -/
abbrev NP {β} (r : Res β) : Prop := Post r (fun _ => True)

@[simp] theorem post_ok {β} (b : β) (P : β → Prop) : Post (.ok b : Res β) P = P b := rfl
@[simp] theorem post_error {β} (e : Fail) (P : β → Prop) : Post (.error e : Res β) P = NPF e := rfl
@[simp] theorem npf_err (s : String) : NPF (.err s) = True := rfl
@[simp] theorem npf_panic (s : String) : NPF (.panic s) = False := rfl

theorem Post.mono {β} {r : Res β} {P Q : β → Prop} (h : Post r P) (hpq : ∀ b, r = .ok b → P b → Q b) :
    Post r Q := by
  cases r with
  | ok b => exact hpq b rfl h
  | error e => exact h

theorem Post.np {β} {r : Res β} {P : β → Prop} (h : Post r P) : NP r := h.mono (fun _ _ _ => trivial)

theorem Post.of_ok {β} {r : Res β} {P : β → Prop} {b : β} (h : Post r P) (hr : r = .ok b) : P b := by
  subst hr; exact h

theorem Post.of_error {β} {r : Res β} {P : β → Prop} {e : Fail} (h : Post r P) (hr : r = .error e) :
    NPF e := by
  subst hr; exact h

theorem post_of_ok {β} {r : Res β} {P : β → Prop} (hnp : NP r) (h : ∀ b, r = .ok b → P b) : Post r P := by
  cases r with
  | ok b => exact h b rfl
  | error e => exact hnp

theorem np_isPanic {β} (r : Res β) (h : NP r) : Res.isPanic r = false := by
  cases r with
  | ok b => rfl
  | error e =>
    cases e with
    | err s => rfl
    | panic s => exact h.elim

/-! ### the tokenizer -/

theorem lexStep_np {α} (I : Interp α) (t : Table) (lm : Str → Option Nat) (rest : Str) (st : LexSt α) :
    NP (lexStep I t lm rest st) := by
  unfold lexStep
  split
  · trivial
  · split
    · trivial
    · split
      · dsimp only
        split <;> trivial
      · split
        · split
          · trivial
          · split
            · trivial
            · rename_i i hi
              obtain ⟨o, ho⟩ := findOpOfComma_isOp _ _ hi
              rw [ho]
              dsimp only
              split <;> trivial
        · split
          · trivial
          · split
            · split <;> trivial
            · split
              · trivial
              · split <;> trivial

theorem lexLoop_np {α} (I : Interp α) (t : Table) (lm : Str → Option Nat) :
    ∀ (text : Str) (skip : Nat) (st : LexSt α), NP (lexLoop I t lm text skip st)
  | [], _, _ => by rw [lexLoop]; trivial
  | _ :: cs, skip + 1, st => by rw [lexLoop]; exact lexLoop_np I t lm cs skip st
  | c :: cs, 0, st => by
    rw [lexLoop]
    split
    · exact lexLoop_np I t lm cs 0 st
    · have := lexStep_np I t lm (c :: cs) st
      split
      · rename_i e he
        rw [he] at this
        exact this
      · split
        · trivial
        · exact lexLoop_np I t lm cs _ _

theorem tokenize_np {α} (I : Interp α) (t : Table) (lm : Str → Option Nat) (text : Str) :
    NP (tokenize I t lm text) := by
  unfold tokenize
  have := lexLoop_np I t lm text 0 ({} : LexSt α)
  split
  · trivial
  · rename_i e he
    rw [he] at this
    exact this

theorem checkPre_np {α} (t : Table) (toks : List (Tok α)) : NP (checkPre t toks) := by
  unfold checkPre
  split
  · trivial
  · split
    · trivial
    · split
      · trivial
      · split
        · trivial
        · split <;> trivial

theorem isOperatorBinary_np {α} (t : Table) (o : Nat) (left : Option (Tok α)) :
    NP (isOperatorBinary t o left) := by
  unfold isOperatorBinary
  split
  · split <;> trivial
  · split <;> trivial

end Exmex.Total
