/-
  C02: the invariant of the folding loop of `FlatEx::compile`.
-/
import Exmex.Proofs.CompileSound
namespace Exmex
namespace CompileSound
open ReduceSplitAux

theorem getD_set_true_of {dc : List Bool} {i q : Nat} (h : dc.getD q false = true) :
    (dc.set i true).getD q false = true := by
  simp only [List.getD_eq_getElem?_getD, List.getElem?_set] at h ⊢
  split
  · rename_i e
    subst e
    split
    · rfl
    · rename_i h'
      rw [List.getElem?_eq_none (by omega)] at h
      simp at h
  · exact h

theorem getD_set_true_self {dc : List Bool} {i : Nat} (h : i < dc.length) :
    (dc.set i true).getD i false = true := by
  simp [List.getD_eq_getElem?_getD, h]

theorem getD_eraseIdx_bool (dc : List Bool) (i q : Nat) :
    (dc.eraseIdx i).getD q false = if q < i then dc.getD q false else dc.getD (q + 1) false := by
  simp only [List.getD_eq_getElem?_getD, List.getElem?_eraseIdx]
  split <;> rfl

/-- invariant of the folding loop: `bs` are the operators still to be visited, `ns` their
    (adjusted) node indices -/
structure CInv {α : Type} (I : Interp α) (ops : List FlatOp) (key : Nat → Int) (vals : List α)
    (target : Option α) (bs ns : List Nat) (st : CompileSt α) : Prop where
  hlen : st.nodes.length = (remOf ops.length st.used).length + 1
  dlen : st.declined.length = st.nodes.length
  pend : ∀ b ∈ bs, b ∈ remOf ops.length st.used
  nodup : bs.Nodup
  sorted : bs.Pairwise (SortSplitAux.R key)
  ninds : ns = bs.map (fun b => (remOf ops.length st.used).idxOf b)
  decl : ∀ q (h : q < (remOf ops.length st.used).length), (remOf ops.length st.used)[q] ∉ bs →
    st.declined.getD q false = true ∧ st.declined.getD (q + 1) false = true
  litun : ∀ nd ∈ st.nodes, ∀ a, nd.kind = .num a → nd.un = []
  vidx : ∀ nd ∈ st.nodes, ∀ i, nd.kind = .var i → i < vals.length
  value : splitEval (flatApplyT I ops) key (remOf ops.length st.used).length
    (st.nodes.map (nodeVal I vals)) (remOf ops.length st.used) = target
  folded : FoldRec key ops.length (remOf ops.length st.used)

section
variable {α : Type} {I : Interp α} {ops : List FlatOp} {key : Nat → Int} {vals : List α}
  {target : Option α} {b nidx : Nat} {bs ns : List Nat} {st : CompileSt α}

/-- position facts shared by both kinds of step -/
theorem CInv.pos (h : CInv I ops key vals target (b :: bs) (nidx :: ns) st) :
    nidx = (remOf ops.length st.used).idxOf b ∧ ns = bs.map (fun b => (remOf ops.length st.used).idxOf b) ∧
    ∃ hp : nidx < (remOf ops.length st.used).length, (remOf ops.length st.used)[nidx] = b := by
  have := h.ninds
  simp only [List.map_cons, List.cons.injEq] at this
  obtain ⟨e1, e2⟩ := this
  have hb := h.pend b List.mem_cons_self
  have hp : (remOf ops.length st.used).idxOf b < (remOf ops.length st.used).length :=
    List.idxOf_lt_length_iff.2 hb
  refine ⟨e1, e2, ?_⟩
  subst e1
  exact ⟨hp, List.getElem_idxOf hp⟩

/-- the operator is not folded: both slots are marked -/
theorem CInv.skip (h : CInv I ops key vals target (b :: bs) (nidx :: ns) st) :
    CInv I ops key vals target bs ns
      { st with declined := (st.declined.set nidx true).set (nidx + 1) true } := by
  obtain ⟨e1, e2, hp, hb⟩ := h.pos
  have hn := List.nodup_cons.1 h.nodup
  refine { hlen := h.hlen, dlen := by simp [h.dlen], pend := fun x hx => h.pend x (List.mem_cons_of_mem _ hx),
           nodup := hn.2, sorted := (List.pairwise_cons.1 h.sorted).2, ninds := e2, decl := ?_,
           litun := h.litun, vidx := h.vidx, value := h.value, folded := h.folded }
  intro q hq hnot
  show ((st.declined.set nidx true).set (nidx + 1) true).getD q false = true ∧
    ((st.declined.set nidx true).set (nidx + 1) true).getD (q + 1) false = true
  have hl := h.hlen
  have hd := h.dlen
  by_cases hqp : q = nidx
  · subst hqp
    constructor
    · exact getD_set_true_of (getD_set_true_self (by omega))
    · exact getD_set_true_self (by simp; omega)
  · have hne : (remOf ops.length st.used)[q] ≠ b := by
      intro e
      rw [← hb] at e
      exact hqp (sorted_getElem_inj (remOf_sorted ops.length st.used) hq hp e)
    have := h.decl q hq (by
      intro hm
      rcases List.mem_cons.1 hm with e | e
      · exact hne e
      · exact hnot e)
    exact ⟨getD_set_true_of (getD_set_true_of this.1), getD_set_true_of (getD_set_true_of this.2)⟩

theorem getD_map_key (rem : List Nat) (key : Nat → Int) (q : Nat) (hq : q < rem.length) :
    (rem.map key).getD q 0 = key rem[q] := by
  simp [List.getD_eq_getElem?_getD, hq]

/-- the operator is folded -/
theorem CInv.fold (h : CInv I ops key vals target (b :: bs) (nidx :: ns) st)
    {n1 n2 : FlatNode α} {a a' : α}
    (h1 : st.nodes[nidx]? = some n1) (h2 : st.nodes[nidx + 1]? = some n2)
    (k1 : n1.kind = .num a) (k2 : n2.kind = .num a')
    (hd1 : st.declined.getD nidx false = false) (hd2 : st.declined.getD (nidx + 1) false = false) :
    CInv I ops key vals target bs (ns.map (fun j => if j > nidx then j - 1 else j))
      { nodes := (st.nodes.set nidx { kind := .num (flatApplyT I ops b a a') }).eraseIdx (nidx + 1),
        declined := st.declined.eraseIdx (nidx + 1),
        used := st.used ++ [b] } := by
  obtain ⟨-, e2, hp, hb⟩ := h.pos
  have hn := List.nodup_cons.1 h.nodup
  have hsort := List.pairwise_cons.1 h.sorted
  have hl := h.hlen
  have hdl := h.dlen
  have hs := remOf_sorted ops.length st.used
  have hrem' : remOf ops.length (st.used ++ [b]) = (remOf ops.length st.used).eraseIdx nidx :=
    remOf_append (by rw [List.getElem?_eq_getElem hp, hb])
  have hmem' : ∀ x, x ∈ remOf ops.length (st.used ++ [b]) ↔ x ∈ remOf ops.length st.used ∧ x ≠ b := by
    intro x
    simp only [mem_remOf, List.mem_append, List.mem_singleton]
    constructor
    · rintro ⟨x1, x2⟩; exact ⟨⟨x1, fun hx => x2 (Or.inl hx)⟩, fun hx => x2 (Or.inr hx)⟩
    · rintro ⟨⟨x1, x2⟩, x3⟩; exact ⟨x1, fun hx => hx.elim x2 x3⟩
  have hdecl := h.decl
  have hpend := h.pend
  have hval := h.value
  have hfold := h.folded
  obtain ⟨rem, hrem⟩ : ∃ rem, remOf ops.length st.used = rem := ⟨_, rfl⟩
  simp only [hrem] at e2 hp hb hl hs hrem' hmem' hdecl hpend hval hfold
  have hlen' : (rem.eraseIdx nidx).length = rem.length - 1 := List.length_eraseIdx_of_lt hp
  -- the neighbours have not been visited yet
  have hL : ∀ (h0 : 0 < nidx), rem[nidx - 1] ∈ bs := by
    intro h0
    apply Classical.byContradiction
    intro hnot
    have hne : rem[nidx - 1] ≠ b := by
      intro e
      have := sorted_getElem_inj hs (by omega) hp (e.trans hb.symm)
      omega
    have := (hdecl (nidx - 1) (by omega) (by
      intro hm
      rcases List.mem_cons.1 hm with e | e
      · exact hne e
      · exact hnot e)).2
    rw [show nidx - 1 + 1 = nidx by omega, hd1] at this
    cases this
  have hR : ∀ (h0 : nidx + 1 < rem.length), rem[nidx + 1] ∈ bs := by
    intro h0
    apply Classical.byContradiction
    intro hnot
    have hne : rem[nidx + 1] ≠ b := by
      intro e
      have := sorted_getElem_inj hs h0 hp (e.trans hb.symm)
      omega
    have := (hdecl (nidx + 1) h0 (by
      intro hm
      rcases List.mem_cons.1 hm with e | e
      · exact hne e
      · exact hnot e)).1
    rw [hd2] at this
    cases this
  have hLkey : ∀ (h0 : 0 < nidx), key rem[nidx - 1] < key b := by
    intro h0
    have hR' := hsort.1 _ (hL h0)
    have : rem[nidx - 1] < rem[nidx] := sorted_getElem_lt hs hp (by omega)
    rw [hb] at this
    have h2 := hR'.2
    have h1 := hR'.1
    rcases Int.lt_or_eq_of_le h1 with h3 | h3
    · exact h3
    · have := h2 h3.symm; omega
  have hn1 : nidx < st.nodes.length := by omega
  have hn2 : nidx + 1 < st.nodes.length := by omega
  have en1 : st.nodes[nidx] = n1 := by
    rw [List.getElem?_eq_getElem hn1] at h1; exact Option.some.inj h1
  have en2 : st.nodes[nidx + 1] = n2 := by
    rw [List.getElem?_eq_getElem hn2] at h2; exact Option.some.inj h2
  have hnew : ∀ nd, nd ∈ (st.nodes.set nidx { kind := .num (flatApplyT I ops b a a') }).eraseIdx (nidx + 1) →
      nd ∈ st.nodes ∨ nd = { kind := .num (flatApplyT I ops b a a') } :=
    fun nd hnd => List.mem_or_eq_of_mem_set (List.mem_of_mem_eraseIdx hnd)
  refine { hlen := ?_, dlen := ?_, pend := ?_, nodup := hn.2, sorted := hsort.2, ninds := ?_,
           decl := ?_, litun := ?_, vidx := ?_, value := ?_, folded := ?_ }
  · show ((st.nodes.set nidx _).eraseIdx (nidx + 1)).length = (remOf ops.length (st.used ++ [b])).length + 1
    rw [hrem', hlen', List.length_eraseIdx_of_lt (by simpa using hn2), List.length_set]
    omega
  · show (st.declined.eraseIdx (nidx + 1)).length = ((st.nodes.set nidx _).eraseIdx (nidx + 1)).length
    rw [List.length_eraseIdx_of_lt (by omega), List.length_eraseIdx_of_lt (by simpa using hn2),
      List.length_set, hdl]
  · intro x hx
    show x ∈ remOf ops.length (st.used ++ [b])
    rw [hmem']
    exact ⟨hpend x (List.mem_cons_of_mem _ hx), fun e => hn.1 (e ▸ hx)⟩
  · show _ = bs.map (fun x => (remOf ops.length (st.used ++ [b])).idxOf x)
    rw [hrem', e2, List.map_map]
    apply List.map_congr_left
    intro x hx
    have hxr : x ∈ rem := hpend x (List.mem_cons_of_mem _ hx)
    have hxb : x ≠ rem[nidx] := by rw [hb]; exact fun e => hn.1 (e ▸ hx)
    simp only [Function.comp]
    rw [idxOf_eraseIdx (sorted_nodup hs) hp hxr hxb]
  · show ∀ q (hq : q < (remOf ops.length (st.used ++ [b])).length),
      (remOf ops.length (st.used ++ [b]))[q] ∉ bs →
      (st.declined.eraseIdx (nidx + 1)).getD q false = true ∧
        (st.declined.eraseIdx (nidx + 1)).getD (q + 1) false = true
    rw [hrem']
    intro q hq hnot
    rw [hlen'] at hq
    rw [List.getElem_eraseIdx] at hnot
    rw [getD_eraseIdx_bool, getD_eraseIdx_bool]
    by_cases hqp : q < nidx
    · rw [dif_pos hqp] at hnot
      have hne : rem[q] ≠ b := by
        intro e
        rw [← hb] at e
        have := sorted_getElem_inj hs (by omega) hp e
        omega
      have := hdecl q (by omega) (by
        intro hm
        rcases List.mem_cons.1 hm with e | e
        · exact hne e
        · exact hnot e)
      rw [if_pos (by omega), if_pos (by omega)]
      exact this
    · rw [dif_neg hqp] at hnot
      have hq1 : nidx + 1 ≤ q := by
        rcases Nat.lt_or_ge nidx q with h' | h'
        · exact h'
        · have : q = nidx := by omega
          subst this
          exact absurd (hR (by omega)) hnot
      have hne : rem[q + 1] ≠ b := by
        intro e
        rw [← hb] at e
        have := sorted_getElem_inj hs (by omega) hp e
        omega
      have := hdecl (q + 1) (by omega) (by
        intro hm
        rcases List.mem_cons.1 hm with e | e
        · exact hne e
        · exact hnot e)
      rw [if_neg (by omega), if_neg (by omega)]
      exact this
  · intro nd hnd x hx
    rcases hnew nd hnd with h' | h'
    · exact h.litun nd h' x hx
    · subst h'; rfl
  · intro nd hnd i hi
    rcases hnew nd hnd with h' | h'
    · exact h.vidx nd h' i hi
    · subst h'; cases hi
  · show splitEval (flatApplyT I ops) key (remOf ops.length (st.used ++ [b])).length
      (((st.nodes.set nidx { kind := .num (flatApplyT I ops b a a') }).eraseIdx (nidx + 1)).map
        (nodeVal I vals)) (remOf ops.length (st.used ++ [b])) = target
    rw [hrem', hlen', List.eraseIdx_set_gt (by omega), List.map_set, map_eraseIdx', ← hval]
    have hv1 : nodeVal I vals n1 = a := by
      rw [nodeVal_num I vals k1, h.litun n1 (en1 ▸ List.getElem_mem hn1) a k1]; rfl
    have hv2 : nodeVal I vals n2 = a' := by
      rw [nodeVal_num I vals k2, h.litun n2 (en2 ▸ List.getElem_mem hn2) a' k2]; rfl
    have hvn : nodeVal I vals ({ kind := .num (flatApplyT I ops b a a') } : FlatNode α) =
        flatApplyT I ops b a a' := rfl
    rw [hvn]
    have := splitEval_merge (flatApplyT I ops) key (rem.length - 1) (st.nodes.map (nodeVal I vals))
      rem nidx b a a' (by rw [List.length_map]; omega) (by omega)
      (by rw [List.getElem?_eq_getElem hp, hb])
      (by rw [List.getElem?_map, h1, Option.map_some, hv1])
      (by rw [List.getElem?_map, h2, Option.map_some, hv2])
      (by
        constructor
        · intro j hj
          rw [getD_map_key rem key j (by omega), getD_map_key rem key nidx hp, hb]
          have := hLkey (by omega)
          have e : nidx - 1 = j := by omega
          subst e
          exact this
        · intro h0
          rw [List.length_map] at h0
          rw [getD_map_key rem key _ h0, getD_map_key rem key nidx hp, hb]
          exact (hsort.1 _ (hR h0)).1)
    rw [this, show rem.length - 1 + 1 = rem.length by omega]
  · show FoldRec key ops.length (remOf ops.length (st.used ++ [b]))
    intro m hmn hm x hx hxm
    rw [hmem'] at hm hx
    by_cases hmr : m ∈ rem
    · have hmb : m = b := Classical.byContradiction fun hne => hm ⟨hmr, hne⟩
      subst hmb
      obtain ⟨q, hq, rfl⟩ := List.getElem_of_mem hx.1
      have hqp : q < nidx := sorted_idx_lt hs hq hp (by rw [hb]; exact hxm)
      refine ⟨rem[nidx - 1], sorted_getElem_le hs (by omega) (by omega), ?_, hLkey (by omega)⟩
      have := sorted_getElem_lt hs hp (show nidx - 1 < nidx by omega)
      rw [hb] at this
      exact this
    · exact hfold m hmn hmr x hx.1 hxm

/-- one iteration of the folding loop -/
theorem CInv.step (h : CInv I ops key vals target (b :: bs) (nidx :: ns) st) :
    ∃ st' ns', compileStep I ops st b nidx ns = .ok (st', ns') ∧
      CInv I ops key vals target bs ns' st' := by
  obtain ⟨-, -, hp, hb⟩ := h.pos
  have hl := h.hlen
  have hbn : b < ops.length := (mem_remOf.1 (h.pend b List.mem_cons_self)).1
  have hn1 : nidx < st.nodes.length := by omega
  have hn2 : nidx + 1 < st.nodes.length := by omega
  have h1 : st.nodes[nidx]? = some st.nodes[nidx] := List.getElem?_eq_getElem hn1
  have h2 : st.nodes[nidx + 1]? = some st.nodes[nidx + 1] := List.getElem?_eq_getElem hn2
  unfold compileStep
  rw [h1, h2]
  dsimp only
  cases k1 : st.nodes[nidx].kind with
  | var i =>
    cases k2 : st.nodes[nidx + 1].kind with
    | var j => exact ⟨_, _, rfl, h.skip⟩
    | num a' => exact ⟨_, _, rfl, h.skip⟩
  | num a =>
    cases k2 : st.nodes[nidx + 1].kind with
    | var j => exact ⟨_, _, rfl, h.skip⟩
    | num a' =>
      dsimp only
      cases hd1 : st.declined.getD nidx false with
      | true => exact ⟨_, _, rfl, h.skip⟩
      | false =>
        cases hd2 : st.declined.getD (nidx + 1) false with
        | true => exact ⟨_, _, rfl, h.skip⟩
        | false =>
          have hfa : flatApply I ops b a a' = some (flatApplyT I ops b a a') := by
            simp [flatApply, flatApplyT, List.getElem?_eq_getElem hbn]
          simp only [Bool.or_self, Bool.not_false, if_true, hfa]
          exact ⟨_, _, rfl, h.fold h1 h2 k1 k2 hd1 hd2⟩

/-- the whole folding loop -/
theorem CInv.loop : ∀ (bs ns : List Nat) (st : CompileSt α),
    CInv I ops key vals target bs ns st →
    ∃ st', compileLoop I ops bs ns st = .ok st' ∧ CInv I ops key vals target [] [] st' := by
  intro bs
  induction bs with
  | nil =>
    intro ns st h
    have : ns = [] := by simpa using h.ninds
    subst this
    exact ⟨st, rfl, h⟩
  | cons b bs ih =>
    intro ns st h
    cases ns with
    | nil => have := h.ninds; simp at this
    | cons nidx ns =>
      obtain ⟨st', ns', hs, h'⟩ := h.step
      obtain ⟨st'', hl, h''⟩ := ih ns' st' h'
      refine ⟨st'', ?_, h''⟩
      rw [compileLoop, hs]
      exact hl

end

/-! ### assembly -/

/-- the nodes after the unary chains of literals have been applied -/
def litNodes {α : Type} (I : Interp α) (nodes : List (FlatNode α)) : List (FlatNode α) :=
  nodes.map (fun n => match n.kind with
    | .num a => { kind := .num (applyUn I n.un a), un := [] }
    | .var _ => n)

theorem idxOf_range {n b : Nat} (hb : b < n) : (List.range n).idxOf b = b := by
  have := (List.nodup_range (n := n)).idxOf_getElem b (by simpa using hb)
  simpa using this

theorem init_inv {α : Type} (I : Interp α) (f : FlatEx α)
    (hlen : f.nodes.length = f.ops.length + 1) (vals : List α)
    (hidx : ∀ nd ∈ f.nodes, ∀ i, nd.kind = .var i → i < vals.length) :
    CInv I f.ops (sortKey f.ops f.nodes) vals
      (splitEval (flatApplyT I f.ops) (sortKey f.ops f.nodes) f.ops.length
        (f.nodes.map (nodeVal I vals)) (List.range f.ops.length))
      (prioIdxFlat f.ops f.nodes) (prioIdxFlat f.ops f.nodes)
      { nodes := litNodes I f.nodes,
        declined := List.replicate (litNodes I f.nodes).length false } := by
  have hv := orderByKey_valid (sortKey f.ops f.nodes) f.ops.length
  have hmemlit : ∀ nd ∈ litNodes I f.nodes, ∃ n ∈ f.nodes,
      nd = (match n.kind with
        | .num a => { kind := .num (applyUn I n.un a), un := [] }
        | .var _ => n) := by
    intro nd hnd
    obtain ⟨n, hn, rfl⟩ := List.mem_map.1 hnd
    exact ⟨n, hn, rfl⟩
  refine { hlen := ?_, dlen := ?_, pend := ?_, nodup := hv.nodup,
           sorted := SortSplitAux.orderByKey_sorted _ _, ninds := ?_, decl := ?_, litun := ?_,
           vidx := ?_, value := ?_, folded := ?_ }
  · show (litNodes I f.nodes).length = (remOf f.ops.length []).length + 1
    rw [remOf_nil, List.length_range, litNodes, List.length_map, hlen]
  · show (List.replicate (litNodes I f.nodes).length false).length = (litNodes I f.nodes).length
    rw [List.length_replicate]
  · intro b hb
    show b ∈ remOf f.ops.length []
    rw [remOf_nil]
    exact List.mem_range.2 (hv.lt b hb)
  · show prioIdxFlat f.ops f.nodes =
      (prioIdxFlat f.ops f.nodes).map (fun b => (remOf f.ops.length []).idxOf b)
    rw [remOf_nil]
    conv => lhs; rw [← List.map_id (prioIdxFlat f.ops f.nodes)]
    apply List.map_congr_left
    intro b hb
    exact (idxOf_range (hv.lt b hb)).symm
  · show ∀ q (hq : q < (remOf f.ops.length []).length), (remOf f.ops.length [])[q] ∉ _ → _
    rw [remOf_nil]
    intro q hq hnot
    exfalso
    apply hnot
    rw [List.getElem_range]
    exact orderByKey_complete _ _ q (by simpa using hq)
  · intro nd hnd a ha
    obtain ⟨n, hn, rfl⟩ := hmemlit nd hnd
    cases hk : n.kind with
    | num c => rfl
    | var i => rw [hk] at ha; dsimp only at ha; rw [hk] at ha; cases ha
  · intro nd hnd i hi
    obtain ⟨n, hn, rfl⟩ := hmemlit nd hnd
    cases hk : n.kind with
    | num c => rw [hk] at hi; cases hi
    | var j => rw [hk] at hi; dsimp only at hi; exact hidx n hn i hi
  · show splitEval (flatApplyT I f.ops) (sortKey f.ops f.nodes) (remOf f.ops.length []).length
      ((litNodes I f.nodes).map (nodeVal I vals)) (remOf f.ops.length []) = _
    rw [remOf_nil, List.length_range, litNodes, List.map_map]
    congr 1
    apply List.map_congr_left
    intro n _
    simp only [Function.comp]
    cases hk : n.kind with
    | num c =>
      rw [nodeVal_num I vals hk]
      rfl
    | var j => rfl
  · intro m hm hnot
    exfalso
    apply hnot
    show m ∈ remOf f.ops.length []
    rw [remOf_nil]
    exact List.mem_range.2 hm

/-- **`FlatEx::compile` is sound** (the invariant split into its three fields) -/
theorem compile_core {α : Type} (I : Interp α) (f : FlatEx α)
    (hlen : f.nodes.length = f.ops.length + 1) (hprio : f.prioIdx = prioIdxFlat f.ops f.nodes)
    (hB : BumpOK I f.ops) (vals : List α)
    (hidx : ∀ nd ∈ f.nodes, ∀ i, nd.kind = .var i → i < vals.length) :
    ∃ f', f.compile I = .ok f' ∧ f'.nodes.length = f'.ops.length + 1 ∧
      f'.prioIdx = prioIdxFlat f'.ops f'.nodes ∧ BumpOK I f'.ops ∧
      (∀ nd ∈ f'.nodes, ∀ i, nd.kind = .var i → i < vals.length) ∧ f'.vars = f.vars ∧
      evalCloning I f' vals = evalCloning I f vals := by
  obtain ⟨st, hloop, hinv⟩ := (init_inv I f hlen vals hidx).loop
  have hs := remOf_sorted f.ops.length st.used
  have hlt : ∀ k ∈ remOf f.ops.length st.used, k < f.ops.length := fun k hk => (mem_remOf.1 hk).1
  have hcomp : f.compile I = .ok { f with
      nodes := st.nodes, ops := (remOf f.ops.length st.used).map (opAt f.ops),
      prioIdx := prioIdxFlat ((remOf f.ops.length st.used).map (opAt f.ops)) st.nodes } := by
    have : f.compile I = match compileLoop I f.ops f.prioIdx f.prioIdx
        { nodes := litNodes I f.nodes,
          declined := List.replicate (litNodes I f.nodes).length false } with
      | .error e => .error e
      | .ok st =>
        .ok { f with nodes := st.nodes,
                     ops := (f.ops.zipIdx.filter (fun p => !st.used.contains p.2)).map (·.1),
                     prioIdx := prioIdxFlat
                       ((f.ops.zipIdx.filter (fun p => !st.used.contains p.2)).map (·.1))
                       st.nodes } := rfl
    rw [this, hprio, hloop]
    dsimp only
    rw [ops_filter_eq]
  obtain ⟨rem, hrem⟩ : ∃ rem, remOf f.ops.length st.used = rem := ⟨_, rfl⟩
  have hl' := hinv.hlen
  have hval := hinv.value
  have hfold := hinv.folded
  simp only [hrem] at hs hlt hcomp hl' hval hfold
  have hB' : BumpOK I (rem.map (opAt f.ops)) := by
    constructor
    · intro o ho
      obtain ⟨k, hk, rfl⟩ := List.mem_map.1 ho
      have hkn := hlt k hk
      have : opAt f.ops k = f.ops[k] := getD_eq_getElem' f.ops k hkn
      rw [this]
      exact hB.assoc _ (List.getElem_mem hkn)
    · exact unaryOK_rem f.ops f.nodes rem hs hlt hB.unaryOK hfold
  refine ⟨_, hcomp, ?_, rfl, hB', hinv.vidx, rfl, ?_⟩
  · show st.nodes.length = (rem.map (opAt f.ops)).length + 1
    rw [List.length_map]; exact hl'
  · obtain ⟨v, -, hv2, hv3⟩ := evalCloning_eq_splitKey I f hlen hprio vals hidx
    obtain ⟨v', -, hv2', hv3'⟩ := evalCloning_eq_splitKey I
      { f with nodes := st.nodes, ops := rem.map (opAt f.ops),
               prioIdx := prioIdxFlat (rem.map (opAt f.ops)) st.nodes }
      (by show st.nodes.length = (rem.map (opAt f.ops)).length + 1
          rw [List.length_map]; exact hl') rfl vals hinv.vidx
    rw [hv3, hv3']
    have hnl : (st.nodes.map (nodeVal I vals)).length = rem.length + 1 := by
      rw [List.length_map]; exact hl'
    have hnl0 : (f.nodes.map (nodeVal I vals)).length = f.ops.length + 1 := by
      rw [List.length_map]; exact hlen
    dsimp only at hv2'
    rw [splitKey_eq_splitPrio I _ st.nodes _ (by rw [List.length_map, List.length_map]; exact hl') hB',
      ← splitEval_rem_ops I f.ops rem hlt, List.length_map,
      SplitLemmas.splitEval_fuel _ _ rem.length (st.nodes.map (nodeVal I vals)).length _ _
        (Nat.le_refl _) (by omega),
      ← splitEval_rem_bump I f.ops f.nodes hB rem hs hlt hfold _ hnl,
      SplitLemmas.splitEval_fuel _ _ (st.nodes.map (nodeVal I vals)).length rem.length _ _
        (by omega) (Nat.le_refl _),
      hval,
      SplitLemmas.splitEval_fuel _ _ f.ops.length (f.ops.length + 1) _ _
        (by simp) (by simp), hv2] at hv2'
    cases hv2'
    rfl

end CompileSound
end Exmex
