/-
  C06 (no panic): `DeepEx::compile` / `DeepEx::new` never panic on groups with one more node than
  operators (no assumption on the interpretation), and keep the generic structural invariant.
-/
import Exmex.Proofs.TotalFlat
namespace Exmex.Total
open Exmex.ReachLemmas Exmex.CalcLemmas Exmex.DeepCompile Exmex.CompileSound

section
variable {K : Type}

theorem nodup_map_on {β γ} (f : β → γ) : ∀ l : List β,
    (∀ a ∈ l, ∀ b ∈ l, f a = f b → a = b) → l.Nodup → (l.map f).Nodup
  | [], _, _ => by simp
  | x :: xs, hinj, hnd => by
    rw [List.nodup_cons] at hnd
    rw [List.map_cons, List.nodup_cons]
    refine ⟨?_, nodup_map_on f xs
      (fun a ha b hb => hinj a (List.mem_cons_of_mem _ ha) b (List.mem_cons_of_mem _ hb)) hnd.2⟩
    intro hm
    obtain ⟨y, hy, hxy⟩ := List.mem_map.1 hm
    have := hinj y (List.mem_cons_of_mem _ hy) x List.mem_cons_self hxy
    subst this
    exact hnd.1 hy

/-- what keeps the folding loop of `DeepEx::compile` from panicking: `bs` are the operators still
    to be visited, `ns` their (adjusted) node indices -/
structure FInv (ops : List DBin) (bs ns : List Nat) (st : DCompileSt K) : Prop where
  hlen : st.nodes.length = (remOf ops.length st.used).length + 1
  pend : ∀ b ∈ bs, b ∈ remOf ops.length st.used
  nodup : bs.Nodup
  nsl : ns.length = bs.length
  nsnd : ns.Nodup
  nsb : ∀ j ∈ ns, j + 1 < st.nodes.length

theorem FInv.skip {ops : List DBin} {b n : Nat} {bs ns : List Nat} {st : DCompileSt K}
    (h : FInv ops (b :: bs) (n :: ns) st) (dc : List Bool) :
    FInv ops bs ns { st with declined := dc } := by
  have hn := List.nodup_cons.1 h.nodup
  have hm := List.nodup_cons.1 h.nsnd
  exact ⟨h.hlen, fun x hx => h.pend x (List.mem_cons_of_mem _ hx), hn.2,
    by have := h.nsl; simpa using this, hm.2, fun j hj => h.nsb j (List.mem_cons_of_mem _ hj)⟩

theorem FInv.fold {ops : List DBin} {b n : Nat} {bs ns : List Nat} {st : DCompileSt K}
    (h : FInv ops (b :: bs) (n :: ns) st) (nd : DeepNode K) (dc : List Bool) :
    FInv ops bs (ns.map (fun j => if j > n then j - 1 else j))
      { nodes := (st.nodes.set n nd).eraseIdx (n + 1), declined := dc, used := st.used ++ [b] } := by
  have hn := List.nodup_cons.1 h.nodup
  have hm := List.nodup_cons.1 h.nsnd
  have hb := h.pend b List.mem_cons_self
  obtain ⟨p, hp⟩ := List.mem_iff_getElem?.1 hb
  have hpl : p < (remOf ops.length st.used).length := (List.getElem?_eq_some_iff.1 hp).1
  have hn1 : n + 1 < st.nodes.length := h.nsb n List.mem_cons_self
  have hrem := remOf_append hp
  refine ⟨?_, ?_, hn.2, ?_, ?_, ?_⟩
  · show ((st.nodes.set n nd).eraseIdx (n + 1)).length = (remOf ops.length (st.used ++ [b])).length + 1
    rw [hrem, List.length_eraseIdx, List.length_eraseIdx, List.length_set, if_pos hn1, if_pos hpl]
    have := h.hlen
    omega
  · intro x hx
    have hx' := mem_remOf.1 (h.pend x (List.mem_cons_of_mem _ hx))
    apply mem_remOf.2
    refine ⟨hx'.1, ?_⟩
    intro hmem
    rcases List.mem_append.1 hmem with hmem | hmem
    · exact hx'.2 hmem
    · rw [List.mem_singleton] at hmem
      subst hmem
      exact hn.1 hx
  · rw [List.length_map]
    have := h.nsl
    simpa using this
  · apply nodup_map_on _ _ _ hm.2
    intro a ha c hc hac
    have ha' : a ≠ n := fun e => hm.1 (e ▸ ha)
    have hc' : c ≠ n := fun e => hm.1 (e ▸ hc)
    split at hac <;> split at hac <;> omega
  · intro j hj
    obtain ⟨a, ha, rfl⟩ := List.mem_map.1 hj
    have ha' : a ≠ n := fun e => hm.1 (e ▸ ha)
    have hab := h.nsb a (List.mem_cons_of_mem _ ha)
    show _ < ((st.nodes.set n nd).eraseIdx (n + 1)).length
    rw [List.length_eraseIdx, List.length_set, if_pos hn1]
    split <;> omega

theorem FInv.step (I : Interp K) {ops : List DBin} {b n : Nat} {bs ns : List Nat} {st : DCompileSt K}
    (h : FInv ops (b :: bs) (n :: ns) st) :
    ∃ st' ns', dcompileStep I ops st b n ns = .ok (st', ns') ∧ FInv ops bs ns' st' := by
  have hn2 : n + 1 < st.nodes.length := h.nsb n List.mem_cons_self
  have hbn : b < ops.length := (mem_remOf.1 (h.pend b List.mem_cons_self)).1
  obtain ⟨n1, h1⟩ : ∃ n1, st.nodes[n]? = some n1 := ⟨_, List.getElem?_eq_getElem (by omega)⟩
  obtain ⟨n2, h2⟩ : ∃ n2, st.nodes[n + 1]? = some n2 := ⟨_, List.getElem?_eq_getElem hn2⟩
  unfold dcompileStep
  rw [h1, h2]
  dsimp only
  cases n1 with
  | var i nm => cases n2 <;> exact ⟨_, _, rfl, h.skip _⟩
  | expr e => cases n2 <;> exact ⟨_, _, rfl, h.skip _⟩
  | num a =>
    cases n2 with
    | var i nm => exact ⟨_, _, rfl, h.skip _⟩
    | expr e => exact ⟨_, _, rfl, h.skip _⟩
    | num a' =>
      dsimp only
      cases hd1 : st.declined.getD n false with
      | true => exact ⟨_, _, rfl, h.skip _⟩
      | false =>
        cases hd2 : st.declined.getD (n + 1) false with
        | true => exact ⟨_, _, rfl, h.skip _⟩
        | false =>
          have hfa : deepApply I ops b a a' = some (dApplyT I ops b a a') := by
            simp [deepApply, dApplyT, List.getElem?_eq_getElem hbn, List.getD_eq_getElem?_getD]
          simp only [Bool.or_self, Bool.not_false, if_true, hfa]
          exact ⟨_, _, rfl, h.fold _ _⟩

theorem FInv.loop (I : Interp K) {ops : List DBin} : ∀ (bs ns : List Nat) (st : DCompileSt K),
    FInv ops bs ns st → ∃ st', dcompileLoop I ops bs ns st = .ok st' ∧ FInv ops [] [] st' := by
  intro bs
  induction bs with
  | nil =>
    intro ns st h
    have : ns = [] := List.eq_nil_of_length_eq_zero (by have := h.nsl; simpa using this)
    subst this
    exact ⟨st, rfl, h⟩
  | cons b bs ih =>
    intro ns st h
    cases ns with
    | nil => have := h.nsl; simp at this
    | cons n ns =>
      obtain ⟨st', ns', hs, h'⟩ := h.step I
      obtain ⟨st'', hl, h''⟩ := ih ns' st' h'
      refine ⟨st'', ?_, h''⟩
      rw [dcompileLoop, hs]
      exact hl

/-- the folding of a group with one more node than operators never panics and keeps the count -/
theorem foldGroup_total (I : Interp K) (e1 : DeepEx K) (hlen : e1.nodes.length = e1.ops.length + 1) :
    ∃ e', foldGroup I e1 = .ok e' ∧ e'.nodes.length = e'.ops.length + 1 := by
  have hv := orderByKey_valid (deepSortKey e1.ops e1.nodes) e1.ops.length
  have h0 : FInv e1.ops (prioIdxDeep e1.ops e1.nodes) (prioIdxDeep e1.ops e1.nodes)
      ({ nodes := e1.nodes, declined := List.replicate e1.nodes.length false } : DCompileSt K) := by
    refine ⟨?_, ?_, hv.nodup, rfl, hv.nodup, ?_⟩
    · show e1.nodes.length = (remOf e1.ops.length []).length + 1
      rw [remOf_nil, List.length_range, hlen]
    · intro b hb
      show b ∈ remOf e1.ops.length []
      rw [remOf_nil]
      exact List.mem_range.2 (hv.lt b hb)
    · intro j hj
      show j + 1 < e1.nodes.length
      have := hv.lt j hj
      omega
  obtain ⟨st, hloop, hinv⟩ := FInv.loop I _ _ _ h0
  have hl := hinv.hlen
  unfold foldGroup
  simp only [hloop]
  rw [dops_filter_eq]
  split
  · rename_i a ha
    refine ⟨_, rfl, ?_⟩
    rw [ha] at hl
    simp only [DeepEx.nodes, DeepEx.ops, List.length_map, List.length_cons, List.length_nil] at hl ⊢
    omega
  · refine ⟨_, rfl, ?_⟩
    simp only [DeepEx.nodes, DeepEx.ops, List.length_map]
    exact hl

/-- `compile` never panics on an expression satisfying the generic invariant, and keeps it -/
theorem compile_total (I : Interp K) (Q : List Str → Prop) (V : Nat → Str → Prop) (e : DeepEx K)
    (hg : GenEx Q V e) :
    ∃ e', e.compile I = .ok e' ∧ GenEx Q V e' ∧ e'.vars = e.liftNodes.vars := by
  have hg1 := (lift_gen Q V).1 e hg
  have hl1 : e.liftNodes.nodes.length = e.liftNodes.ops.length + 1 := by
    generalize e.liftNodes = e1 at hg1
    obtain ⟨nodes, ops, un, vars⟩ := e1
    rw [GenEx] at hg1
    exact hg1.1
  obtain ⟨e', h1, h2⟩ := foldGroup_total I e.liftNodes hl1
  rw [← compile_eq] at h1
  obtain ⟨h3, h4⟩ := compile_gen I Q V e e' h1 hg h2
  exact ⟨e', h1, h3, h4⟩

/-- `lift_nodes` keeps the variable list of a group whose single wrapped node lists the same
    variables -/
theorem liftNodes_vars (nodes : List (DeepNode K)) (ops : List DBin) (un : List Nat) (vars : List Str)
    (h : ∀ g, nodes = [.expr g] → g.vars = vars) :
    (DeepEx.mk nodes ops un vars).liftNodes.vars = vars := by
  rw [DeepEx.liftNodes.eq_def]
  dsimp only
  split
  · split
    · rename_i e _
      exact h e rfl
    · rfl
  · rfl

end
end Exmex.Total
