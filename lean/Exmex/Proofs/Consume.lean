/-
  Helper lemmas for C15: loop invariant of the node loop of the consuming evaluation.
-/
import Exmex.Model.Flat
namespace Exmex.Consume

/-! ### `varOccurrences` of a cons -/

theorem varOccurrences_num {α} (nd : FlatNode α) (ns : List (FlatNode α)) (a : α)
    (h : nd.kind = .num a) : varOccurrences (nd :: ns) = varOccurrences ns := by
  simp [varOccurrences, h]

theorem varOccurrences_var {α} (nd : FlatNode α) (ns : List (FlatNode α)) (i : Nat)
    (h : nd.kind = .var i) : varOccurrences (nd :: ns) = some i :: varOccurrences ns := by
  simp [varOccurrences, h]

/-! ### `lastIdxOf` -/

/-- if `some i` occurs, `lastIdxOf` finds a position holding `some i` -/
theorem lastIdxOf_of_count_pos (l : List (Option Nat)) (i : Nat) (h : 0 < l.count (some i)) :
    ∃ j, lastIdxOf l i = some j ∧ l[j]? = some (some i) := by
  unfold lastIdxOf
  cases hl : (l.zipIdx.filter (fun p => p.1 == some i)).getLast? with
  | none =>
    exfalso
    rw [List.getLast?_eq_none_iff] at hl
    have hm : some i ∈ l := List.count_pos_iff.mp h
    obtain ⟨j, hj, hje⟩ := List.getElem_of_mem hm
    have : (some i, j) ∈ l.zipIdx.filter (fun p => p.1 == some i) := by
      rw [List.mem_filter]
      refine ⟨?_, by simp⟩
      rw [List.mem_zipIdx_iff_getElem?]
      simp [hje, hj]
    rw [hl] at this
    exact absurd this List.not_mem_nil
  | some p =>
    have hm := List.mem_of_getLast? hl
    rw [List.mem_filter, List.mem_zipIdx_iff_getElem?] at hm
    obtain ⟨h1, h2⟩ := hm
    have h3 : p.1 = some i := by simpa using h2
    exact ⟨p.2, rfl, by rw [h1, h3]⟩

/-- overwriting an entry `some i` by the sentinel removes one occurrence of `some i` and
    leaves the other counts unchanged -/
theorem count_set_none (l : List (Option Nat)) (i j : Nat) (hj : l[j]? = some (some i))
    (k : Nat) :
    (l.set j none).count (some k) = if k = i then l.count (some i) - 1 else l.count (some k) := by
  obtain ⟨hlt, hje⟩ := List.getElem?_eq_some_iff.mp hj
  rw [List.count_set hlt, hje]
  by_cases hk : k = i
  · subst hk; simp
  · have : ¬ i = k := fun e => hk e.symm
    simp [hk, this]

/-! ### sums over `List.range` -/

theorem sum_range_congr (f g : Nat → Nat) (n : Nat) (h : ∀ k, k < n → g k = f k) :
    ((List.range n).map g).sum = ((List.range n).map f).sum := by
  congr 1
  apply List.map_congr_left
  intro k hk
  exact h k (List.mem_range.mp hk)

theorem sum_range_zero (n : Nat) : ((List.range n).map (fun _ => 0)).sum = 0 := by
  induction n with
  | zero => rfl
  | succ n ih => rw [List.range_succ, List.map_append, List.sum_append, ih]; rfl

theorem sum_range_bump (f g : Nat → Nat) (i : Nat) (hne : ∀ k, k ≠ i → g k = f k)
    (hi : g i = f i + 1) :
    ∀ n, i < n → ((List.range n).map g).sum = ((List.range n).map f).sum + 1 := by
  intro n
  induction n with
  | zero => intro h; omega
  | succ n ih =>
    intro h
    rw [List.range_succ, List.map_append, List.map_append, List.sum_append, List.sum_append]
    by_cases hin : i = n
    · subst hin
      rw [sum_range_congr f g i (fun k hk => hne k (by omega))]
      simp [hi]; omega
    · have := ih (by omega)
      simp [this, hne n (fun e => hin e.symm)]; omega

/-! ### the loop invariant -/

/-- Loop invariant of `consumeNodes` over a suffix `nodes` of the node list: for every variable
    that still occurs among the remaining nodes, `varIdx` holds as many live entries as there
    are remaining occurrences and the value slot is still intact. Then the loop succeeds,
    appends the values the borrowing evaluation would compute, and clones `occ - 1` times for
    every variable that still occurs. -/
theorem consumeNodes_inv {α} (I : Interp α) (vs : List α) :
    ∀ (nodes : List (FlatNode α)) (st : ConsumeSt α),
      (∀ nd ∈ nodes, ∀ i, nd.kind = .var i → i < vs.length) →
      (∀ i, 0 < (varOccurrences nodes).count (some i) →
        st.varIdx.count (some i) = (varOccurrences nodes).count (some i) ∧
        st.vars[i]? = vs[i]?) →
      ∃ st' vals, consumeNodes I nodes st = .ok st' ∧
        nodeValues I nodes vs = some vals ∧ st'.numbers = st.numbers ++ vals ∧
        st'.clones = st.clones +
          ((List.range vs.length).map
            (fun i => (varOccurrences nodes).count (some i) - 1)).sum := by
  intro nodes
  induction nodes with
  | nil =>
    intro st _ _
    refine ⟨st, [], rfl, rfl, by simp, ?_⟩
    have : ((List.range vs.length).map
        (fun i => (varOccurrences ([] : List (FlatNode α))).count (some i) - 1)).sum
        = ((List.range vs.length).map (fun _ => 0)).sum :=
      sum_range_congr _ _ _ (fun k _ => by simp [varOccurrences])
    rw [this, sum_range_zero]; rfl
  | cons nd ns ih =>
    intro st hidx hinv
    have hidx' : ∀ nd' ∈ ns, ∀ i, nd'.kind = .var i → i < vs.length :=
      fun nd' hm => hidx nd' (List.mem_cons_of_mem _ hm)
    cases hk : nd.kind with
    | num a =>
      have hocc := varOccurrences_num nd ns a hk
      obtain ⟨st', vals, h1, h2, h3, h4⟩ :=
        ih { st with numbers := st.numbers ++ [applyUn I nd.un a] } hidx'
          (by intro i hi; rw [hocc] at hinv; exact hinv i hi)
      refine ⟨st', applyUn I nd.un a :: vals, ?_, ?_, ?_, ?_⟩
      · simp only [consumeNodes, consumeNode, hk]; exact h1
      · simp only [nodeValues] at h2 ⊢
        simp [List.mapM_cons, hk, h2]
      · simpa using h3
      · rw [hocc]; exact h4
    | var i =>
      have hocc := varOccurrences_var nd ns i hk
      have hi : i < vs.length := hidx nd List.mem_cons_self i hk
      have hcnt : (varOccurrences (nd :: ns)).count (some i)
          = (varOccurrences ns).count (some i) + 1 := by
        rw [hocc]; simp
      have hcntne : ∀ k, k ≠ i → (varOccurrences (nd :: ns)).count (some k)
          = (varOccurrences ns).count (some k) := by
        intro k hk'
        rw [hocc, List.count_cons]
        have : ¬ i = k := fun e => hk' e.symm
        simp [this]
      obtain ⟨hc, hv⟩ := hinv i (by omega)
      have hvi : st.vars[i]? = some vs[i] := by rw [hv]; exact List.getElem?_eq_getElem hi
      have hfl : (st.varIdx.filter (· == some i)).length = st.varIdx.count (some i) :=
        List.count_eq_length_filter.symm
      by_cases hgt : 0 < (varOccurrences ns).count (some i)
      · -- cloning branch
        obtain ⟨j, hj1, hj2⟩ := lastIdxOf_of_count_pos st.varIdx i (by omega)
        obtain ⟨st', vals, h1, h2, h3, h4⟩ :=
          ih { st with varIdx := st.varIdx.set j none,
                       numbers := st.numbers ++ [applyUn I nd.un vs[i]],
                       clones := st.clones + 1 } hidx'
            (by
              intro k hk'
              simp only
              rw [count_set_none st.varIdx i j hj2 k]
              by_cases hki : k = i
              · subst hki
                simp only [if_true]
                exact ⟨by omega, hv⟩
              · simp only [hki, if_false]
                have := hinv k (by rw [hcntne k hki]; exact hk')
                rw [hcntne k hki] at this
                exact this)
        refine ⟨st', applyUn I nd.un vs[i] :: vals, ?_, ?_, ?_, ?_⟩
        · simp only [consumeNodes, consumeNode, hk, hvi, hfl, hj1]
          rw [if_pos (by omega)]
          exact h1
        · simp only [nodeValues] at h2 ⊢
          simp [List.mapM_cons, hk, h2, hi]
        · simpa using h3
        · rw [h4]
          have := sum_range_bump
            (fun k => (varOccurrences ns).count (some k) - 1)
            (fun k => (varOccurrences (nd :: ns)).count (some k) - 1) i
            (fun k hk' => by show _ - 1 = _ - 1; rw [hcntne k hk'])
            (by show _ - 1 = _ - 1 + 1; omega) vs.length hi
          rw [this]; show st.clones + 1 + _ = _; omega
      · -- moving branch
        have hzero : (varOccurrences ns).count (some i) = 0 := by omega
        obtain ⟨st', vals, h1, h2, h3, h4⟩ :=
          ih { st with vars := st.vars.set i I.dflt,
                       numbers := st.numbers ++ [applyUn I nd.un vs[i]] } hidx'
            (by
              intro k hk'
              simp only
              have hki : k ≠ i := by
                intro e; subst e; omega
              have := hinv k (by rw [hcntne k hki]; exact hk')
              rw [hcntne k hki] at this
              refine ⟨this.1, ?_⟩
              rw [List.getElem?_set_ne (fun e => hki e.symm)]
              exact this.2)
        refine ⟨st', applyUn I nd.un vs[i] :: vals, ?_, ?_, ?_, ?_⟩
        · simp only [consumeNodes, consumeNode, hk, hvi, hfl]
          rw [if_neg (by omega)]
          exact h1
        · simp only [nodeValues] at h2 ⊢
          simp [List.mapM_cons, hk, h2, hi]
        · simpa using h3
        · rw [h4]
          congr 1
          apply sum_range_congr
          intro k _
          by_cases hki : k = i
          · subst hki; omega
          · rw [hcntne k hki]

end Exmex.Consume
