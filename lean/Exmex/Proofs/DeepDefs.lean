/-
  Invariants of deep expressions used by the theorems about folding and conversion.
-/
import Exmex.Model.Deep
namespace Exmex

/-- flagged operators occurring in a group are associative -/
def DeepAssoc {α : Type} (I : Interp α) (ops : List DBin) : Prop :=
  ∀ o ∈ ops, o.comm = true → ∀ x y z, I.bin o.idx (I.bin o.idx x y) z = I.bin o.idx x (I.bin o.idx y z)

mutual
/-- shape invariant: every group has one more node than operators, variable indices are below `n`,
    every group's own variable list is no longer than `n` (so no arity error inside) -/
def DeepEx.Shape {α} (n : Nat) : DeepEx α → Prop
  | .mk nodes ops _ vars => nodes.length = ops.length + 1 ∧ vars.length ≤ n ∧ shapeList n nodes
def DeepNode.ShapeN {α} (n : Nat) : DeepNode α → Prop
  | .num _ => True
  | .var i _ => i < n
  | .expr e => e.Shape n
def shapeList {α} (n : Nat) : List (DeepNode α) → Prop
  | [] => True
  | nd :: rest => nd.ShapeN n ∧ shapeList n rest
end

mutual
/-- flagged operators anywhere in the expression are associative -/
def DeepEx.Assoc {α} (I : Interp α) : DeepEx α → Prop
  | .mk nodes ops _ _ => DeepAssoc I ops ∧ assocList I nodes
def assocList {α} (I : Interp α) : List (DeepNode α) → Prop
  | [] => True
  | .expr e :: rest => e.Assoc I ∧ assocList I rest
  | _ :: rest => assocList I rest
end

mutual
/-- every operator priority is a table priority, 0..=99 -/
def DeepEx.PrioOK {α} : DeepEx α → Prop
  | .mk nodes ops _ _ => (∀ o ∈ ops, 0 ≤ o.prio ∧ o.prio ≤ 99) ∧ prioOKList nodes
def prioOKList {α} : List (DeepNode α) → Prop
  | [] => True
  | .expr e :: rest => e.PrioOK ∧ prioOKList rest
  | _ :: rest => prioOKList rest
end

end Exmex
