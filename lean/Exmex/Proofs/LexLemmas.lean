/-
  Helper lemmas for C13 (operator lookup): order facts about `strLt`, sortedness and membership
  of `sortBy`, and the characterisation of `findOps` as "first matching entry of `sortedOps`".
-/
import Exmex.Model.Lex
namespace Exmex

/-! ### `strLt` is a strict weak order in which proper prefixes come first -/

theorem strLt_irrefl (a : Str) : strLt a a = false := by
  induction a with
  | nil => rfl
  | cons x xs ih => simp [strLt, ih]

theorem strLt_asymm : ∀ (a b : Str), strLt a b = true → strLt b a = false
  | [], [], h => by simp [strLt] at h
  | [], _ :: _, _ => by simp [strLt]
  | _ :: _, [], h => by simp [strLt] at h
  | x :: xs, y :: ys, h => by
    simp only [strLt, UInt32.lt_iff_toNat_lt] at h ⊢
    split at h
    · split
      · omega
      · rfl
    · split at h
      · simp at h
      · simp only [*, if_false]
        exact strLt_asymm xs ys h

/-- negative transitivity: `a < c → a < b ∨ b < c` -/
theorem strLt_cotrans : ∀ (a b c : Str), strLt a c = true → strLt a b = true ∨ strLt b c = true
  | [], [], _, h => Or.inr h
  | [], _ :: _, _, _ => Or.inl (by simp [strLt])
  | _ :: _, _, [], h => by simp [strLt] at h
  | _ :: _, [], _ :: _, _ => Or.inr (by simp [strLt])
  | x :: xs, y :: ys, z :: zs, h => by
    simp only [strLt, UInt32.lt_iff_toNat_lt] at h ⊢
    by_cases h1 : x.val.toNat < y.val.toNat
    · exact Or.inl (by rw [if_pos h1])
    · by_cases h2 : y.val.toNat < z.val.toNat
      · exact Or.inr (by rw [if_pos h2])
      · simp only [h1, h2, if_false]
        split at h
        · omega
        · split at h
          · simp at h
          · have e1 : ¬ y.val.toNat < x.val.toNat := by omega
            have e2 : ¬ z.val.toNat < y.val.toNat := by omega
            simp only [e1, e2, if_false]
            exact strLt_cotrans xs ys zs h

/-- a proper prefix is strictly smaller -/
theorem strLt_append (a : Str) (c : Char) (cs : Str) : strLt a (a ++ c :: cs) = true := by
  induction a with
  | nil => rfl
  | cons x xs ih => simp [strLt, ih]

theorem strLt_of_prefix_of_length_lt {a b : Str} (hp : a <+: b) (hl : a.length < b.length) :
    strLt a b = true := by
  obtain ⟨s, rfl⟩ := hp
  cases s with
  | nil => simp at hl
  | cons c cs => exact strLt_append a c cs

/-! ### `insertBy` / `sortBy` -/

theorem mem_insertBy {α} (le : α → α → Bool) (x a : α) (l : List α) :
    a ∈ insertBy le x l ↔ a = x ∨ a ∈ l := by
  induction l with
  | nil => simp [insertBy]
  | cons y ys ih =>
    simp only [insertBy]
    split
    · simp
    · simp only [List.mem_cons, ih]
      constructor
      · rintro (h | h | h) <;> simp [h]
      · rintro (h | h | h) <;> simp [h]

theorem mem_sortBy {α} (le : α → α → Bool) (a : α) (l : List α) :
    a ∈ sortBy le l ↔ a ∈ l := by
  induction l with
  | nil => simp [sortBy]
  | cons y ys ih =>
    have : sortBy le (y :: ys) = insertBy le y (sortBy le ys) := rfl
    rw [this, mem_insertBy, ih, List.mem_cons]

theorem pairwise_insertBy {α} (le : α → α → Bool)
    (htot : ∀ a b, le a b = false → le b a = true)
    (htrans : ∀ a b c, le a b = true → le b c = true → le a c = true)
    (x : α) (l : List α) (hl : l.Pairwise (fun a b => le a b = true)) :
    (insertBy le x l).Pairwise (fun a b => le a b = true) := by
  induction l with
  | nil => simp [insertBy]
  | cons y ys ih =>
    rw [List.pairwise_cons] at hl
    simp only [insertBy]
    split
    · rename_i hxy
      refine List.pairwise_cons.2 ⟨?_, List.pairwise_cons.2 hl⟩
      intro z hz
      rcases List.mem_cons.1 hz with rfl | hz
      · exact hxy
      · exact htrans _ _ _ hxy (hl.1 z hz)
    · rename_i hxy
      refine List.pairwise_cons.2 ⟨?_, ih hl.2⟩
      intro z hz
      rcases (mem_insertBy le x z ys).1 hz with rfl | hz
      · exact htot _ _ (by simpa using hxy)
      · exact hl.1 z hz

theorem pairwise_sortBy {α} (le : α → α → Bool)
    (htot : ∀ a b, le a b = false → le b a = true)
    (htrans : ∀ a b c, le a b = true → le b c = true → le a c = true)
    (l : List α) : (sortBy le l).Pairwise (fun a b => le a b = true) := by
  induction l with
  | nil => simp [sortBy]
  | cons y ys ih => exact pairwise_insertBy le htot htrans y _ ih

/-! ### `sortedOps` -/

theorem mem_sortedOps (t : Table) (i : Nat) (op : OpSpec) :
    (i, op) ∈ sortedOps t ↔ t[i]? = some op := by
  unfold sortedOps
  rw [mem_sortBy, List.mem_map]
  constructor
  · rintro ⟨⟨o, j⟩, hm, he⟩
    simp only [Prod.mk.injEq] at he
    obtain ⟨rfl, rfl⟩ := he
    simpa [List.mem_zipIdx_iff_getElem?] using hm
  · intro h
    exact ⟨(op, i), by simpa [List.mem_zipIdx_iff_getElem?] using h, rfl⟩

/-- `sortedOps` is sorted in descending name order: no entry is strictly smaller than a later one. -/
theorem sortedOps_sorted (t : Table) :
    (sortedOps t).Pairwise (fun a b => strLt a.2.repr b.2.repr = false) := by
  have h := pairwise_sortBy (fun (a b : Nat × OpSpec) => strLe b.2.repr a.2.repr)
    (by
      intro a b h
      simp only [strLe, Bool.not_eq_eq_eq_not, Bool.not_false, Bool.not_true] at h ⊢
      exact strLt_asymm _ _ h)
    (by
      intro a b c h1 h2
      simp only [strLe, Bool.not_eq_eq_eq_not, Bool.not_true] at h1 h2 ⊢
      cases h : strLt a.2.repr c.2.repr with
      | false => rfl
      | true =>
        rcases strLt_cotrans _ b.2.repr _ h with h' | h'
        · rw [h1] at h'; cases h'
        · rw [h2] at h'; cases h')
    (t.zipIdx.map (fun p => (p.2, p.1)))
  refine List.Pairwise.imp ?_ h
  intro a b hab
  simpa [strLe] using hab

/-! ### the predicate of `findOps` -/

/-- The test `findOps` applies to an entry: name is a prefix, and binary / end of text / not
    continued by an identifier character. -/
def opMatches (rest : Str) (p : Nat × OpSpec) : Bool :=
  let r := p.2.repr
  r.isPrefixOf rest &&
    (p.2.hasBin ||
      (match rest.drop r.length with
       | [] => true
       | c :: _ => !isIdentExact (r ++ [c])))

theorem findOps_eq (t : Table) (rest : Str) : findOps t rest = (sortedOps t).find? (opMatches rest) :=
  rfl

theorem opMatches_iff (rest : Str) (i : Nat) (op : OpSpec) :
    opMatches rest (i, op) = true ↔
      (op.repr.isPrefixOf rest = true ∧
        (op.hasBin = true ∨ rest.drop op.repr.length = [] ∨
          ∃ c cs, rest.drop op.repr.length = c :: cs ∧ isIdentExact (op.repr ++ [c]) = false)) := by
  simp only [opMatches, Bool.and_eq_true, Bool.or_eq_true]
  refine and_congr_right (fun _ => or_congr_right ?_)
  cases h : rest.drop op.repr.length with
  | nil => simp
  | cons c cs => simp

/-- `find?` returns the unique element satisfying the predicate. -/
theorem find?_eq_some_of_unique {α} (p : α → Bool) (l : List α) (x : α)
    (hx : x ∈ l) (hp : p x = true) (huniq : ∀ y ∈ l, p y = true → y = x) :
    l.find? p = some x := by
  cases h : l.find? p with
  | none => exact absurd hp (List.find?_eq_none.1 h x hx)
  | some y => rw [huniq y (List.mem_of_find?_eq_some h) (List.find?_some h)]

/-- Every matching entry of the table has a name that is not greater than the name found. -/
theorem findOps_first (t : Table) (rest : Str) (i : Nat) (op : OpSpec)
    (h : findOps t rest = some (i, op)) (j : Nat) (op' : OpSpec) (hj : t[j]? = some op')
    (hm : opMatches rest (j, op') = true) :
    strLt op.repr op'.repr = false := by
  rw [findOps_eq, List.find?_eq_some_iff_append] at h
  obtain ⟨_, as, bs, hl, has⟩ := h
  have hmem : (j, op') ∈ sortedOps t := (mem_sortedOps t j op').2 hj
  have hs := sortedOps_sorted t
  rw [hl] at hmem hs
  rcases List.mem_append.1 hmem with hin | hin
  · have := has _ hin
    rw [hm] at this
    cases this
  · rcases List.mem_cons.1 hin with he | hin
    · have : op' = op := congrArg Prod.snd he
      rw [this]
      exact strLt_irrefl _
    · exact (List.pairwise_cons.1 (List.pairwise_append.1 hs).2.1).1 _ hin

theorem takeWhile_ne_append {c : Char} (u rest : Str) (hu : c ∉ u) :
    (u ++ c :: rest).takeWhile (· != c) = u := by
  induction u with
  | nil => simp
  | cons x xs ih =>
    simp only [List.mem_cons, not_or] at hu
    have hx : (x != c) = true := by simpa using fun h => hu.1 h.symm
    simp [hx, ih hu.2]

end Exmex
