/-
  Helper lemmas for L5 (`flat_denote`): unary chains, operand vectors, the `UnaryOK` invariant
  under concatenation, `attachUnary`, and "block substitution" for `splitEval`.
-/
import Exmex.Proofs.FlattenDefs
import Exmex.Proofs.SplitLemmas
namespace Exmex
namespace FlatDenoteAux
open SplitLemmas

variable {α : Type}

/-! ### unary chains -/

theorem applyUn_append (I : Interp α) (us vs : List Nat) (x : α) :
    applyUn I (us ++ vs) x = applyUn I us (applyUn I vs x) := by
  simp [applyUn, List.foldr_append]

theorem applyUn_nil (I : Interp α) (x : α) : applyUn I [] x = x := rfl

/-! ### operand vectors -/

/-- value of one node -/
def nodeVal (I : Interp α) (vals : List α) (n : FlatNode α) : Option α :=
  match n.kind with
  | .num a => some (applyUn I n.un a)
  | .var i => (vals[i]?).map (applyUn I n.un)

theorem nodeValues_nil (I : Interp α) (vals : List α) : nodeValues I [] vals = some [] := by
  simp [nodeValues]

theorem nodeValues_cons (I : Interp α) (vals : List α) (n : FlatNode α) (ns : List (FlatNode α)) :
    nodeValues I (n :: ns) vals =
      (nodeVal I vals n).bind fun x => (nodeValues I ns vals).map (x :: ·) := by
  unfold nodeValues nodeVal
  rw [List.mapM_cons]
  cases n.kind <;> simp [Option.map_eq_bind] <;> rfl

theorem nodeValues_single (I : Interp α) (vals : List α) (n : FlatNode α) :
    nodeValues I [n] vals = (nodeVal I vals n).map fun x => [x] := by
  rw [nodeValues_cons, nodeValues_nil]
  cases nodeVal I vals n <;> rfl

theorem nodeValues_append (I : Interp α) (vals : List α) {A B : List (FlatNode α)} {x y : List α}
    (h1 : nodeValues I A vals = some x) (h2 : nodeValues I B vals = some y) :
    nodeValues I (A ++ B) vals = some (x ++ y) := by
  induction A generalizing x with
  | nil =>
    rw [nodeValues_nil] at h1
    cases h1
    simpa using h2
  | cons n A ih =>
    rw [nodeValues_cons] at h1
    rw [List.cons_append, nodeValues_cons]
    cases hn : nodeVal I vals n with
    | none => simp [hn] at h1
    | some a =>
      cases hA : nodeValues I A vals with
      | none => simp [hn, hA] at h1
      | some xs =>
        simp [hn, hA] at h1
        subst h1
        simp [ih hA]

theorem nodeValues_length (I : Interp α) (vals : List α) {A : List (FlatNode α)} {x : List α}
    (h : nodeValues I A vals = some x) : x.length = A.length := by
  induction A generalizing x with
  | nil =>
    rw [nodeValues_nil] at h
    cases h; rfl
  | cons n A ih =>
    rw [nodeValues_cons] at h
    cases hn : nodeVal I vals n with
    | none => simp [hn] at h
    | some a =>
      cases hA : nodeValues I A vals with
      | none => simp [hn, hA] at h
      | some xs =>
        simp [hn, hA] at h
        subst h
        simp [ih hA]

/-! ### `UnaryOK` with `getElem?` -/

def UnaryOK' (ops : List FlatOp) : Prop :=
  ∀ (j k : Nat) (x y : FlatOp), j < k → ops[j]? = some x → ops[k]? = some y → x.un ≠ [] →
    y.prio = x.prio → ∃ (m : Nat) (z : FlatOp), j < m ∧ m < k ∧ ops[m]? = some z ∧ z.prio < x.prio

theorem unaryOK_iff (ops : List FlatOp) : UnaryOK ops ↔ UnaryOK' ops := by
  constructor
  · intro h j k x y hjk hx hy hun hp
    obtain ⟨hk, rfl⟩ := List.getElem?_eq_some_iff.1 hy
    obtain ⟨hj, rfl⟩ := List.getElem?_eq_some_iff.1 hx
    obtain ⟨m, hjm, hmk, hlt⟩ := h j k hjk hk hun hp
    exact ⟨m, ops[m]'(by omega), hjm, hmk, List.getElem?_eq_getElem _, hlt⟩
  · intro h j k hjk hk hun hp
    obtain ⟨m, z, hjm, hmk, hz, hlt⟩ :=
      h j k (ops[j]'(by omega)) ops[k] hjk (List.getElem?_eq_getElem _)
        (List.getElem?_eq_getElem _) hun hp
    obtain ⟨hm, rfl⟩ := List.getElem?_eq_some_iff.1 hz
    exact ⟨m, hjm, hmk, hlt⟩

theorem unaryOK'_nil : UnaryOK' [] := by
  intro j k x y _ hx; simp at hx

theorem getElem?_mid {β : Type} (A : List β) (o : β) (B : List β) (i : Nat) :
    (A ++ o :: B)[i]? =
      if i < A.length then A[i]? else if i = A.length then some o else B[i - A.length - 1]? := by
  by_cases h1 : i < A.length
  · rw [if_pos h1, List.getElem?_append_left h1]
  · rw [if_neg h1, List.getElem?_append_right (by omega)]
    by_cases h2 : i = A.length
    · rw [if_pos h2]; subst h2; simp
    · rw [if_neg h2]
      obtain ⟨k, hk⟩ : ∃ k, i - A.length = k + 1 := ⟨i - A.length - 1, by omega⟩
      rw [hk, List.getElem?_cons_succ]
      congr 1

/-- concatenation of two good sequences around a strictly lower operator without unary chain -/
theorem unaryOK'_append_cons {A B : List FlatOp} {o : FlatOp} (hA : UnaryOK' A) (hB : UnaryOK' B)
    (ho : o.un = []) (hlt : ∀ x ∈ A, o.prio < x.prio) : UnaryOK' (A ++ o :: B) := by
  intro j k x y hjk hx hy hun hp
  rw [getElem?_mid] at hx hy
  by_cases hk1 : k < A.length
  · rw [if_pos hk1] at hy
    rw [if_pos (by omega)] at hx
    obtain ⟨m, z, hjm, hmk, hz, hzlt⟩ := hA j k x y hjk hx hy hun hp
    refine ⟨m, z, hjm, hmk, ?_, hzlt⟩
    rw [getElem?_mid, if_pos (by omega)]; exact hz
  · rw [if_neg hk1] at hy
    by_cases hj1 : j < A.length
    · rw [if_pos hj1] at hx
      have hxA : x ∈ A := List.mem_of_getElem? hx
      have hox := hlt x hxA
      by_cases hk2 : k = A.length
      · rw [if_pos hk2] at hy
        cases hy; omega
      · refine ⟨A.length, o, hj1, by omega, ?_, hox⟩
        rw [getElem?_mid, if_neg (by omega), if_pos rfl]
    · rw [if_neg hj1] at hx
      by_cases hj2 : j = A.length
      · rw [if_pos hj2] at hx
        cases hx; exact absurd ho hun
      · rw [if_neg hj2] at hx
        rw [if_neg (by omega)] at hy
        obtain ⟨m, z, hjm, hmk, hz, hzlt⟩ :=
          hB (j - A.length - 1) (k - A.length - 1) x y (by omega) hx hy hun hp
        refine ⟨m + A.length + 1, z, by omega, by omega, ?_, hzlt⟩
        rw [getElem?_mid, if_neg (by omega), if_neg (by omega)]
        rw [← hz]; congr 1; omega

/-- putting a unary chain on a right-most minimal operator keeps the invariant -/
theorem unaryOK'_modify {L R : List FlatOp} {o o' : FlatOp} (h : UnaryOK' (L ++ o :: R))
    (hp : o'.prio = o.prio) (hR : ∀ x ∈ R, o.prio < x.prio) : UnaryOK' (L ++ o' :: R) := by
  -- relation between the entries of the two lists
  have key : ∀ i x, (L ++ o' :: R)[i]? = some x →
      ∃ x0, (L ++ o :: R)[i]? = some x0 ∧ x0.prio = x.prio ∧ (i ≠ L.length → x0 = x) := by
    intro i x hx
    rw [getElem?_mid] at hx
    rw [getElem?_mid]
    by_cases h1 : i < L.length
    · rw [if_pos h1] at hx ⊢; exact ⟨x, hx, rfl, fun _ => rfl⟩
    · rw [if_neg h1] at hx ⊢
      by_cases h2 : i = L.length
      · rw [if_pos h2] at hx ⊢
        cases hx
        exact ⟨o, rfl, hp.symm, fun h => absurd h2 h⟩
      · rw [if_neg h2] at hx ⊢; exact ⟨x, hx, rfl, fun _ => rfl⟩
  have key' : ∀ (i : Nat) (z : FlatOp), (L ++ o :: R)[i]? = some z →
      ∃ z' : FlatOp, (L ++ o' :: R)[i]? = some z' ∧ z'.prio = z.prio := by
    intro i x hx
    rw [getElem?_mid] at hx
    rw [getElem?_mid]
    by_cases h1 : i < L.length
    · rw [if_pos h1] at hx ⊢; exact ⟨x, hx, rfl⟩
    · rw [if_neg h1] at hx ⊢
      by_cases h2 : i = L.length
      · rw [if_pos h2] at hx ⊢
        cases hx
        exact ⟨o', rfl, hp⟩
      · rw [if_neg h2] at hx ⊢; exact ⟨x, hx, rfl⟩
  intro j k x y hjk hx hy hun hpe
  by_cases hj : j = L.length
  · -- the modified operator: every later operator has strictly higher priority
    exfalso
    have hx' := hx
    rw [getElem?_mid, if_neg (by omega), if_pos hj] at hx'
    cases hx'
    rw [getElem?_mid, if_neg (by omega), if_neg (by omega)] at hy
    have := hR y (List.mem_of_getElem? hy)
    omega
  · obtain ⟨x0, hx0, _, hx0e⟩ := key j x hx
    have := hx0e hj
    subst this
    obtain ⟨y0, hy0, hy0p, _⟩ := key k y hy
    obtain ⟨m, z, hjm, hmk, hz, hzlt⟩ := h j k x0 y0 hjk hx0 hy0 hun (by omega)
    obtain ⟨z', hz', hz'p⟩ := key' m z hz
    exact ⟨m, z', hjm, hmk, hz', by omega⟩

/-! ### `lowestTrailing` and `attachUnary` -/

theorem takeWhile_all {β : Type} (p : β → Bool) (l : List β) (h : ∀ x ∈ l, p x = true) :
    l.takeWhile p = l := by
  induction l with
  | nil => rfl
  | cons a l ih =>
    rw [List.takeWhile_cons, h a (List.mem_cons_self ..), if_pos rfl,
      ih (fun x hx => h x (List.mem_cons_of_mem _ hx))]

theorem foldl_min_le (l : List FlatOp) (init : Int) :
    l.foldl (fun m o => min m o.prio) init ≤ init ∧
      ∀ o ∈ l, l.foldl (fun m o => min m o.prio) init ≤ o.prio := by
  induction l generalizing init with
  | nil => simp
  | cons a l ih =>
    obtain ⟨h1, h2⟩ := ih (min init a.prio)
    rw [List.foldl_cons]
    refine ⟨by omega, ?_⟩
    intro o ho
    rcases List.mem_cons.1 ho with rfl | ho
    · omega
    · exact h2 o ho

/-- the scanning fold of `lowestTrailing` finds the first strict minimum -/
theorem scan_spec (l : List FlatOp) (n : Nat) (acc : Nat × Int) :
    ((l.zipIdx n).foldl (fun (acc : Nat × Int) p =>
        if p.1.prio < acc.2 then (p.2 + 1, p.1.prio) else acc) acc = acc ∧
      ∀ x ∈ l, acc.2 ≤ x.prio) ∨
    ∃ A y B, l = A ++ y :: B ∧
      (l.zipIdx n).foldl (fun (acc : Nat × Int) p =>
        if p.1.prio < acc.2 then (p.2 + 1, p.1.prio) else acc) acc = (n + A.length + 1, y.prio) ∧
      y.prio < acc.2 ∧ (∀ x ∈ A, y.prio < x.prio) ∧ (∀ x ∈ B, y.prio ≤ x.prio) := by
  induction l generalizing n acc with
  | nil => left; simp
  | cons a l ih =>
    rw [List.zipIdx_cons, List.foldl_cons]
    by_cases h : a.prio < acc.2
    · simp only [h, if_true]
      rcases ih (n + 1) (n + 1, a.prio) with ⟨he, hall⟩ | ⟨A, y, B, hl, he, hlt, hA, hB⟩
      · right
        exact ⟨[], a, l, rfl, by rw [he]; simp, h, by simp, hall⟩
      · right
        refine ⟨a :: A, y, B, by rw [hl]; rfl, by rw [he]; simp; omega, ?_, ?_, hB⟩
        · simp only at hlt; omega
        · intro x hx
          rcases List.mem_cons.1 hx with rfl | hx
          · exact hlt
          · exact hA x hx
    · simp only [h, if_false]
      rcases ih (n + 1) acc with ⟨he, hall⟩ | ⟨A, y, B, hl, he, hlt, hA, hB⟩
      · left
        refine ⟨he, ?_⟩
        intro x hx
        rcases List.mem_cons.1 hx with rfl | hx
        · omega
        · exact hall x hx
      · right
        refine ⟨a :: A, y, B, by rw [hl]; rfl, by rw [he]; simp; omega, hlt, ?_, hB⟩
        intro x hx
        rcases List.mem_cons.1 hx with rfl | hx
        · omega
        · exact hA x hx

theorem lowestTrailing_nil (b : Int) : lowestTrailing [] b = none := by
  simp [lowestTrailing]

theorem lowestTrailing_spec (ops : List FlatOp) (b : Int) (hne : ops ≠ [])
    (hb : ∀ o ∈ ops, b ≤ o.prio) :
    ∃ L o R, ops = L ++ o :: R ∧ lowestTrailing ops b = some L.length ∧
      (∀ x ∈ L, o.prio ≤ x.prio) ∧ (∀ x ∈ R, o.prio < x.prio) := by
  have hrun : ops.reverse.takeWhile (fun o => decide (b ≤ o.prio)) = ops.reverse :=
    takeWhile_all _ _ (by intro x hx; simpa using hb x (List.mem_reverse.1 hx))
  unfold lowestTrailing
  simp only [hrun]
  cases hrev : ops.reverse with
  | nil => simp at hrev; exact absurd hrev hne
  | cons o rest =>
    have hops : ops = rest.reverse ++ [o] := by
      have := congrArg List.reverse hrev
      simpa using this
    simp only
    rcases scan_spec rest 0 (0, o.prio) with ⟨he, hall⟩ | ⟨A, y, B, hl, he, hlt, hA, hB⟩
    · refine ⟨rest.reverse, o, [], hops, ?_, ?_, by simp⟩
      · rw [he, hops]; simp
      · intro x hx; exact hall x (List.mem_reverse.1 hx)
    · refine ⟨B.reverse, y, A.reverse ++ [o], ?_, ?_, ?_, ?_⟩
      · rw [hops, hl]; simp
      · rw [he, hops, hl]; simp
      · intro x hx; exact hB x (List.mem_reverse.1 hx)
      · intro x hx
        rcases List.mem_append.1 hx with hx | hx
        · exact hA x (List.mem_reverse.1 hx)
        · simp at hx; subst hx; exact hlt

theorem modify_mid {β : Type} (L : List β) (o : β) (R : List β) (f : β → β) :
    (L ++ o :: R).modify L.length f = L ++ f o :: R := by
  induction L with
  | nil => simp
  | cons a L ih => simp [ih]

/-- a flattened group: operand vector, operators, lower bound on priorities, value -/
structure GroupOK (I : Interp α) (ns : List α) (os : List FlatOp) (lo : Int) (v : α) : Prop where
  len : ns.length = os.length + 1
  lo : ∀ o ∈ os, lo ≤ o.prio
  ev : splitEval (FlatOp.act I) (fun o => o.prio) os.length ns os = some v

theorem GroupOK.mono {I : Interp α} {ns os lo v} (h : GroupOK I ns os lo v) {lo' : Int}
    (hle : lo' ≤ lo) : GroupOK I ns os lo' v :=
  ⟨h.len, fun o ho => by have := h.lo o ho; omega, h.ev⟩

/-- two groups joined by a strictly lower operator without unary chain -/
theorem GroupOK.join {I : Interp α} {nsa nsb : List α} {osa osb : List FlatOp} {lo' : Int}
    {va vb : α} (ha : GroupOK I nsa osa lo' va) (hb : GroupOK I nsb osb lo' vb) (o : FlatOp)
    (ho : o.un = []) (hlt : o.prio < lo') :
    GroupOK I (nsa ++ nsb) (osa ++ o :: osb) o.prio (I.bin o.idx va vb) := by
  refine ⟨?_, ?_, ?_⟩
  · have := ha.len; have := hb.len; simp; omega
  · intro x hx
    rcases List.mem_append.1 hx with hx | hx
    · have := ha.lo x hx; omega
    · rcases List.mem_cons.1 hx with rfl | hx
      · omega
      · have := hb.lo x hx; omega
  · rw [splitEval_append' _ _ _ _ _ _ _ ha.len
      (fun x hx => by have := ha.lo x hx; omega) (fun x hx => by have := hb.lo x hx; omega),
      ha.ev, hb.ev]
    simp [FlatOp.act, ho, applyUn]

theorem attachUnary_spec (I : Interp α) (vals : List α) (us : List Nat)
    (nodes : List (FlatNode α)) (ops : List FlatOp) {ns : List α} {lo : Int} {v : α}
    (hn : nodeValues I nodes vals = some ns) (hg : GroupOK I ns ops lo v) (hU : UnaryOK' ops) :
    UnaryOK' (attachUnary us (nodes, ops)).2 ∧
    ∃ ns', nodeValues I (attachUnary us (nodes, ops)).1 vals = some ns' ∧
      GroupOK I ns' (attachUnary us (nodes, ops)).2 lo (applyUn I us v) := by
  by_cases hus : us = []
  · subst hus
    simp only [attachUnary, List.isEmpty_nil, if_true]
    exact ⟨hU, ns, hn, hg⟩
  · have hemp : us.isEmpty = false := by cases us <;> simp at hus ⊢
    by_cases hops : ops = []
    · subst hops
      simp only [attachUnary, hemp, lowestTrailing_nil, Bool.false_eq_true, if_false]
      have hlen := nodeValues_length I vals hn
      have hl := hg.len
      simp at hl
      match nodes, hn, hlen with
      | [n], hn, _ =>
        simp only [List.reverse_cons, List.reverse_nil, List.nil_append]
        refine ⟨unaryOK'_nil, ?_⟩
        rw [nodeValues_single] at hn
        cases hv : nodeVal I vals n with
        | none => simp [hv] at hn
        | some x =>
          simp [hv] at hn
          subst hn
          have hev := hg.ev
          rw [splitEval_single] at hev
          cases hev
          refine ⟨[applyUn I us v], ?_, ⟨rfl, by simp, by simp [splitEval_single]⟩⟩
          rw [nodeValues_single]
          have : nodeVal I vals { n with un := us ++ n.un } = some (applyUn I us v) := by
            unfold nodeVal at hv ⊢
            cases hk : n.kind with
            | num a => simp [hk] at hv ⊢; rw [applyUn_append, hv]
            | var i =>
              simp [hk] at hv ⊢
              obtain ⟨a, ha, hax⟩ := hv
              exact ⟨a, ha, by rw [applyUn_append, hax]⟩
          simp [this]
      | [], _, hlen => simp [hl] at hlen
      | _ :: _ :: _, _, hlen => simp [hl] at hlen
    · have hne : ops ≠ [] := hops
      have hbound : ∀ o ∈ ops, ops.foldl (fun m o => min m o.prio) 0 - 1 ≤ o.prio := by
        intro o ho
        have := (foldl_min_le ops 0).2 o ho
        omega
      obtain ⟨L, o, R, hdec, hlow, hL, hR⟩ := lowestTrailing_spec ops _ hne hbound
      simp only [attachUnary, hemp, hlow]
      have hmod : ops.modify L.length (fun o => { o with un := us ++ o.un }) =
          L ++ { o with un := us ++ o.un } :: R := by
        rw [hdec, modify_mid]
      simp only [Bool.false_eq_true, if_false, hmod]
      refine ⟨?_, ns, hn, ?_, ?_, ?_⟩
      · rw [hdec] at hU; exact unaryOK'_modify hU rfl hR
      · rw [hg.len, hdec]; simp
      · intro x hx
        rcases List.mem_append.1 hx with hx | hx
        · exact hg.lo x (by rw [hdec]; exact List.mem_append_left _ hx)
        · rcases List.mem_cons.1 hx with rfl | hx
          · exact hg.lo o (by rw [hdec]; simp)
          · exact hg.lo x (by rw [hdec]; simp [hx])
      · have hev := hg.ev
        have hlen := hg.len
        rw [hdec] at hev hlen
        have hsplit : ns = ns.take (L.length + 1) ++ ns.drop (L.length + 1) :=
          (List.take_append_drop _ _).symm
        have htl : (ns.take (L.length + 1)).length = L.length + 1 := by
          rw [List.length_take]; simp at hlen; omega
        rw [hsplit, splitEval_append' _ _ _ _ _ _ _ htl hL hR] at hev
        rw [hsplit, splitEval_append' (FlatOp.act I) (fun o => o.prio) _ _ L
          { o with un := us ++ o.un } R htl hL hR]
        cases h1 : splitEval (FlatOp.act I) (fun o => o.prio) L.length
            (ns.take (L.length + 1)) L with
        | none => simp [h1] at hev
        | some l =>
          cases h2 : splitEval (FlatOp.act I) (fun o => o.prio) R.length
              (ns.drop (L.length + 1)) R with
          | none => simp [h1, h2] at hev
          | some r =>
            simp [h1, h2] at hev
            simp [FlatOp.act, applyUn_append] at hev ⊢
            rw [hev]

end FlatDenoteAux
end Exmex
