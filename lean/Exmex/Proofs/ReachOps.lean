/-
  `Reach.reach_inv`: the operand invariant `OI` is preserved by the calculation API
  (`var_names_union`, `operate_bin`, `operate_unary`, `+ - * / pow neg`), and the results of the
  binary operations list the sorted union of the operands' variables and are indexed against it.
-/
import Exmex.Proofs.ReachDefs
namespace Exmex.ReachLemmas
open Exmex.C10 Exmex.C05 Exmex.Shortcut Exmex.CalcLemmas Exmex.DeepCompile Exmex.Diff

section
variable {K : Type}

/-! ### the table -/

theorem findBinOp_tbl (t : Table) (repr : Str) (op : DBin) (h : findBinOp t repr = .ok op) :
    tblBin t op.idx = some op := by
  unfold findBinOp at h
  cases hf : findOp t repr with
  | none => rw [hf] at h; cases h
  | some i =>
    rw [hf] at h
    simp only [] at h
    cases hb : tblBin t i with
    | none => rw [hb] at h; cases h
    | some b =>
      rw [hb] at h
      cases h
      have hi : op.idx = i := by
        unfold tblBin at hb
        cases hbb : (t[i]?).bind (·.bin) with
        | none => rw [hbb] at hb; cases hb
        | some bb =>
          rw [hbb] at hb
          simp only [Option.map] at hb
          have := Option.some.inj hb
          rw [← this]
      rw [hi]; exact hb

theorem findBinOp_pot (t : Table) (hP : TblPrio t) (repr : Str) (op : DBin)
    (h : findBinOp t repr = .ok op) : POt t op :=
  ⟨findBinOp_tbl t repr op h, prioB_of_find t hP repr op h⟩

/-! ### shapes -/

theorem shape_of_full (all : List Str) (vals : List K) (hl : vals.length = all.length) (e : DeepEx K)
    (h : GenEx (FQ all) (NV all) e) : e.Shape vals.length := by
  rw [hl]
  exact genEx_shape (fun vs (hv : vs = all) => by rw [hv]; exact Nat.le_refl _)
    (fun i nm (hv : all[i]? = some nm) => (List.getElem?_eq_some_iff.1 hv).1) e h

theorem shape_of_named (L : List Str) (vals : List K) (hl : vals.length = L.length) (e : DeepEx K)
    (h : Named L e) : e.Shape vals.length := by
  rw [hl]
  exact genEx_shape (Q := NQ L) (V := NV L) (fun _ hv => hv)
    (fun i nm (hv : L[i]? = some nm) => (List.getElem?_eq_some_iff.1 hv).1) e
    ((named_iff_gen L e).1 h)

mutual
theorem ss_of_gen (all : List Str) (V : Nat → Str → Prop) :
    ∀ e : DeepEx K, GenEx (FQ all) V e → SS e
  | .mk nodes ops un vars, h => by
    rw [GenEx] at h
    rw [SS]
    refine ⟨?_, ss_of_gen_list all V nodes h.2.2⟩
    intro g hg
    subst hg
    have := h.2.2
    rw [genList, GenNode] at this
    have hv : vars = all := h.2.1
    rw [hv]
    exact genEx_vars g this.1
theorem ss_of_gen_list (all : List Str) (V : Nat → Str → Prop) :
    ∀ l : List (DeepNode K), genList (FQ all) V l → ssList l
  | [], _ => by rw [ssList]; trivial
  | nd :: rest, h => by
    rw [genList] at h
    rw [ssList_cons]
    refine ⟨?_, ss_of_gen_list all V rest h.2⟩
    cases nd with
    | num a => trivial
    | var j nm => trivial
    | expr e =>
      have := h.1
      rw [GenNode] at this
      exact ss_of_gen all V e this
end

end

section
variable {K : Type} (I : Interp K) (C : CalcOps K) (t : Table)

/-! ### `compile`, keeping the shape -/

/-- `compile` of a `Named` expression: the result is `Named` again (whatever `Q`, `V` say about the
    variable lists and the variable nodes) -/
theorem compile_gen' (hA : C01.FlaggedAssoc I t) (T : List Str) (L : List Str)
    (Q : List Str → Prop) (V : Nat → Str → Prop) (e r : DeepEx K)
    (hn : Named L e) (hs : SO t T e) (hg : GenEx Q V e) (h : e.compile I = .ok r) :
    GenEx Q V r ∧ r.vars = e.liftNodes.vars := by
  obtain ⟨vals, hvl⟩ : ∃ vals : List K, vals.length = L.length :=
    ⟨List.replicate L.length I.dflt, List.length_replicate⟩
  obtain ⟨r', c1, c2, -, -⟩ := C02.deep_compile_sound I e vals (shape_of_named L vals hvl e hn)
    (so_assoc I t hA T e hs)
  rw [h] at c1
  cases c1
  exact compile_gen I Q V e r h hg (shape_len r c2)

/-! ### `var_names_union` -/

variable (T : List Str)

theorem union_so (a b a' b' : DeepEx K) (ha : SO t T a) (hb : SO t T b)
    (hu : varNamesUnion a b = .ok (a', b')) :
    SO t T a' ∧ SO t T b' ∧ a'.vars = unionVars a.vars b.vars ∧ b'.vars = unionVars a.vars b.vars ∧
      (unionVars a.vars b.vars).Pairwise (fun x y => strLt x y = true) ∧
      QV T (unionVars a.vars b.vars) := by
  obtain ⟨hnd, hstrict, -, -⟩ := union_facts a.vars b.vars ha.nodup
  change (unionVars a.vars b.vars).Nodup at hnd
  change (unionVars a.vars b.vars).Pairwise _ at hstrict
  have hq : QV T (unionVars a.vars b.vars) := by
    refine ⟨hnd, ?_⟩
    intro x hx
    rw [mem_unionVars] at hx
    rcases hx with hx | hx
    · exact ha.sub x hx
    · exact hb.sub x hx
  unfold varNamesUnion at hu
  simp only [] at hu
  change (match a.resetVars (unionVars a.vars b.vars), b.resetVars (unionVars a.vars b.vars) with
    | some a', some b' => Except.ok (a', b')
    | _, _ => Except.error (Fail.panic "deep.rs:reset_vars unwrap")) = _ at hu
  cases h1 : a.resetVars (unionVars a.vars b.vars) with
  | none => rw [h1] at hu; cases hu
  | some a1 =>
    cases h2 : b.resetVars (unionVars a.vars b.vars) with
    | none => rw [h1, h2] at hu; cases hu
    | some b1 =>
      rw [h1, h2] at hu
      cases hu
      exact ⟨reset_op _ _ _ _ _ _ hq a a' ha h1, reset_op _ _ _ _ _ _ hq b b' hb h2,
        resetVars_vars _ a a' h1, resetVars_vars _ b b' h2, hstrict, hq⟩

include I in
theorem union_gen (a b a' b' : DeepEx K) (La Lb : List Str) (ha : Named La a) (hb : Named Lb b)
    (hu : varNamesUnion a b = .ok (a', b')) :
    GenEx (FQ (unionVars a.vars b.vars)) (NV (unionVars a.vars b.vars)) a' ∧
      GenEx (FQ (unionVars a.vars b.vars)) (NV (unionVars a.vars b.vars)) b' := by
  unfold varNamesUnion at hu
  simp only [] at hu
  change (match a.resetVars (unionVars a.vars b.vars), b.resetVars (unionVars a.vars b.vars) with
    | some a', some b' => Except.ok (a', b')
    | _, _ => Except.error (Fail.panic "deep.rs:reset_vars unwrap")) = _ at hu
  cases h1 : a.resetVars (unionVars a.vars b.vars) with
  | none => rw [h1] at hu; cases hu
  | some a1 =>
    cases h2 : b.resetVars (unionVars a.vars b.vars) with
    | none => rw [h1, h2] at hu; cases hu
    | some b1 =>
      rw [h1, h2] at hu
      cases hu
      exact ⟨(reset_ok I La _ (fun _ => I.dflt) a a' ((named_iff_gen La a).1 ha) h1).1,
        (reset_ok I Lb _ (fun _ => I.dflt) b b' ((named_iff_gen Lb b).1 hb) h2).1⟩

/-- the result of a binary operation of the API (`T`: the names the operands may mention) -/
structure Res2 (a b r : DeepEx K) : Prop where
  oi : OI t T r
  vars : r.vars = unionVars a.vars b.vars
  gen : GenEx (FQ (unionVars a.vars b.vars)) (NV (unionVars a.vars b.vars)) r
  strict : (unionVars a.vars b.vars).Pairwise (fun x y => strLt x y = true)

theorem Res2.named {a b r : DeepEx K} (h : Res2 t T a b r) : Named r.vars r := by
  rw [h.vars]; exact named_of_full _ r h.gen

theorem Res2.ss {a b r : DeepEx K} (h : Res2 t T a b r) : SS r := ss_of_gen _ _ r h.gen

theorem Res2.sorted {a b r : DeepEx K} (h : Res2 t T a b r) : sortBy strLe r.vars = r.vars := by
  rw [h.vars]; exact sortBy_strLe_of_strict _ h.strict

include I in
theorem union_res (a b a' b' : DeepEx K) (ha : OI t T a) (hb : OI t T b)
    (hu : varNamesUnion a b = .ok (a', b')) : Res2 t T a b a' ∧ Res2 t T a b b' := by
  obtain ⟨sa, sb, av, bv, hstrict, -⟩ := union_so t T a b a' b' ha.so hb.so hu
  obtain ⟨La, hLa⟩ := ha.named
  obtain ⟨Lb, hLb⟩ := hb.named
  obtain ⟨ga, gb⟩ := union_gen I a b a' b' La Lb hLa hLb hu
  obtain ⟨fa, fb⟩ := union_folded a b a' b' hu ha.folded hb.folded
  exact ⟨⟨⟨⟨_, named_of_full _ a' ga⟩, sa, fa⟩, av, ga, hstrict⟩,
    ⟨⟨⟨_, named_of_full _ b' gb⟩, sb, fb⟩, bv, gb, hstrict⟩⟩

theorem lit_gen (x : K) (all : List Str) : GenEx (FQ all) (NV all) (DeepEx.mk [.num x] [] [] all) := by
  rw [GenEx, genList, genList, GenNode]
  exact ⟨rfl, rfl, trivial, trivial⟩

theorem lit_so (x : K) (all : List Str) (hq : QV T all) : SO t T (DeepEx.mk [.num x] [] [] all) := by
  unfold SO
  rw [OpE, opList, opList, OpN]
  exact ⟨(fun _ h => by cases h), (fun _ h => by cases h), hq, trivial, trivial⟩

theorem lit_oi (x : K) (all : List Str) (hq : QV T all) : OI t T (DeepEx.mk [.num x] [] [] all) :=
  ⟨⟨all, named_of_full _ _ (lit_gen x all)⟩, lit_so t T x all hq, folded_lit_group x [] all⟩

/-! ### `operate_bin` -/

variable (hA : C01.FlaggedAssoc I t) (hP : TblPrio t)
include hA hP

theorem operateBin_res (a b r : DeepEx K) (repr : Str) (ha : OI t T a) (hb : OI t T b)
    (h : a.operateBin I t b repr = .ok r) : Res2 t T a b r := by
  have hfold := operateBin_folded I t a b r repr h ha.folded hb.folded
  unfold DeepEx.operateBin at h
  split at h
  · cases h
  rename_i op hop
  have hpo : POt t op := findBinOp_pot t hP repr op hop
  unfold operateBinOp at h
  split at h
  · cases h
  rename_i a' b' hu
  obtain ⟨ra, rb⟩ := union_res I t T a b a' b' ha hb hu
  obtain ⟨sa, sb, av, bv, hstrict, hq⟩ := union_so t T a b a' b' ha.so hb.so hu
  split at h
  · cases h
  rename_i r0 h0
  have h0' := h0
  rw [new_eq_compile I _ _ _ rfl] at h0
  have hfound := foundVars_two a' b' _ av bv hstrict
  obtain ⟨all, hall⟩ : ∃ all, all = unionVars a.vars b.vars := ⟨_, rfl⟩
  rw [← hall] at hfound hq hstrict av bv
  have ga := ra.gen
  have gb := rb.gen
  rw [← hall] at ga gb
  have s0 : SO t T (DeepEx.mk [.expr a', .expr b'] [op] [] (foundVars [.expr a', .expr b'])) := by
    rw [hfound]
    unfold SO
    rw [OpE, opList, opList, opList, OpN, OpN]
    refine ⟨?_, (fun _ h => by cases h), hq, sa, sb, trivial⟩
    intro o ho
    rw [List.mem_singleton] at ho
    subst ho
    exact hpo
  have g0 : GenEx (FQ all) (NV all)
      (DeepEx.mk [.expr a', .expr b'] [op] [] (foundVars [.expr a', .expr b'])) := by
    rw [GenEx, genList, genList, genList, GenNode, GenNode]
    exact ⟨rfl, hfound, ga, gb, trivial⟩
  have n0 : Named all (DeepEx.mk [.expr a', .expr b'] [op] [] (foundVars [.expr a', .expr b'])) :=
    named_of_full all _ g0
  obtain ⟨s1, -⟩ := compile_op _ _ _ _ I _ r0 h0 s0
  obtain ⟨g1, -⟩ := compile_gen' I t hA T all _ _ _ r0 n0 s0 g0 h0
  obtain ⟨s2, -⟩ := compile_op _ _ _ _ I r0 r h s1
  obtain ⟨g2, -⟩ := compile_gen' I t hA T all _ _ r0 r (named_of_full all _ g1) s1 g1 h
  have hrv : r.vars = all := genEx_vars r g2
  refine ⟨⟨⟨all, named_of_full all r g2⟩, s2, hfold⟩, hrv.trans hall, ?_, ?_⟩
  · rw [← hall]; exact g2
  · rw [← hall]; exact hstrict

/-- `operate_bin` on operands that are already re-indexed against the same list -/
theorem operateBin_res_same (a b s1 s2 r : DeepEx K) (repr : Str) (r1 : Res2 t T a b s1)
    (r2 : Res2 t T a b s2) (h : s1.operateBin I t s2 repr = .ok r) : Res2 t T a b r := by
  have hr := operateBin_res I t T hA hP s1 s2 r repr r1.oi r2.oi h
  have huu : unionVars s1.vars s2.vars = unionVars a.vars b.vars := by
    rw [r1.vars, r2.vars, unionVars_self _ r1.strict]
  refine ⟨hr.oi, hr.vars.trans huu, ?_, r1.strict⟩
  rw [← huu]; exact hr.gen

theorem lit_res (a b : DeepEx K) (x : K) (hnd : a.vars.Nodup) (ha : ∀ y ∈ a.vars, y ∈ T)
    (hb : ∀ y ∈ b.vars, y ∈ T) :
    Res2 t T a b (DeepEx.mk [.num x] [] [] (unionVars a.vars b.vars)) := by
  have _ := hA
  have _ := hP
  obtain ⟨hnd', hstrict, -, -⟩ := union_facts a.vars b.vars hnd
  change (unionVars a.vars b.vars).Nodup at hnd'
  change (unionVars a.vars b.vars).Pairwise _ at hstrict
  have hq : QV T (unionVars a.vars b.vars) := by
    refine ⟨hnd', ?_⟩
    intro y hy
    rw [mem_unionVars] at hy
    rcases hy with hy | hy
    · exact ha y hy
    · exact hb y hy
  exact ⟨lit_oi t T x _ hq, rfl, lit_gen x _, hstrict⟩

/-! ### the overloaded arithmetic -/

theorem sub_res (a b r : DeepEx K) (ha : OI t T a) (hb : OI t T b) (h : a.sub I t b = .ok r) :
    Res2 t T a b r := operateBin_res I t T hA hP a b r _ ha hb h

theorem add_res (a b r : DeepEx K) (ha : OI t T a) (hb : OI t T b) (h : a.add I C t b = .ok r) :
    Res2 t T a b r := by
  unfold DeepEx.add at h
  split at h
  · cases h
  rename_i s1 s2 hu
  obtain ⟨r1, r2⟩ := union_res I t T a b s1 s2 ha hb hu
  split at h
  · cases h; exact r2
  split at h
  · cases h; exact r1
  exact operateBin_res_same I t T hA hP a b s1 s2 r _ r1 r2 h

theorem mul_res (a b r : DeepEx K) (ha : OI t T a) (hb : OI t T b) (h : a.mul I C t b = .ok r) :
    Res2 t T a b r := by
  unfold DeepEx.mul at h
  split at h
  · cases h
  rename_i s1 s2 hu
  obtain ⟨r1, r2⟩ := union_res I t T a b s1 s2 ha hb hu
  split at h
  · rw [zeroLike_eq, r1.vars] at h
    cases h
    exact lit_res I t T hA hP a b _ ha.so.nodup ha.so.sub hb.so.sub
  split at h
  · cases h; exact r2
  split at h
  · cases h; exact r1
  exact operateBin_res_same I t T hA hP a b s1 s2 r _ r1 r2 h

theorem div_res (a b r : DeepEx K) (ha : OI t T a) (hb : OI t T b) (h : a.div I C t b = .ok r) :
    Res2 t T a b r := by
  unfold DeepEx.div at h
  split at h
  · cases h
  rename_i s1 s2 hu
  obtain ⟨r1, r2⟩ := union_res I t T a b s1 s2 ha hb hu
  split at h
  · rw [zeroLike_eq, r1.vars] at h
    cases h
    exact lit_res I t T hA hP a b _ ha.so.nodup ha.so.sub hb.so.sub
  split at h
  · cases h; exact r1
  exact operateBin_res_same I t T hA hP a b s1 s2 r _ r1 r2 h

theorem pow_res (a b r : DeepEx K) (ha : OI t T a) (hb : OI t T b) (h : a.pow I C t b = .ok r) :
    Res2 t T a b r := by
  unfold DeepEx.pow at h
  split at h
  · cases h
  rename_i s1 s2 hu
  obtain ⟨r1, r2⟩ := union_res I t T a b s1 s2 ha hb hu
  split at h
  · cases h
  split at h
  · rw [zeroLike_eq, r1.vars] at h
    cases h
    exact lit_res I t T hA hP a b _ ha.so.nodup ha.so.sub hb.so.sub
  split at h
  · rw [oneLike_eq, r1.vars] at h
    cases h
    exact lit_res I t T hA hP a b _ ha.so.nodup ha.so.sub hb.so.sub
  split at h
  · cases h; exact r1
  exact operateBin_res_same I t T hA hP a b s1 s2 r _ r1 r2 h

/-! ### `operate_unary` -/

/-- the result of a unary operation -/
structure Res1 (a r : DeepEx K) : Prop where
  oi : OI t T r
  vars : r.vars = a.vars
  named : ∀ L, Named L a → Named L r
  full : ∀ vs, FullOf vs a → FullOf vs r

theorem operateUnary_res (a r : DeepEx K) (repr : Str) (ha : OI t T a)
    (h : a.operateUnary I t repr = .ok r) : Res1 t T a r := by
  have _ := hP
  have hfold := operateUnary_folded I t a r repr h ha.folded
  unfold DeepEx.operateUnary at h
  split at h
  · cases h
  rename_i u hu
  obtain ⟨-, htu⟩ := findUnaryOp_spec t repr u hu
  obtain ⟨nodes, ops, un, vars⟩ := a
  simp only [DeepEx.nodes, DeepEx.ops, DeepEx.un, DeepEx.vars] at h ⊢
  have s0 : SO t T (DeepEx.mk nodes ops (u :: un) vars) := by
    have := ha.so
    unfold SO at this ⊢
    rw [OpE] at this ⊢
    refine ⟨this.1, ?_, this.2.2⟩
    intro v hv
    rcases List.mem_cons.1 hv with rfl | hv
    · exact htu
    · exact this.2.1 v hv
  obtain ⟨s1, v1⟩ := compile_op _ _ _ _ I _ r h s0
  rw [liftNodes_vars_of_un] at v1
  have hnamed : ∀ L, Named L (DeepEx.mk nodes ops un vars) → Named L r := by
    intro L hL
    have hL' : Named L (DeepEx.mk nodes ops (u :: un) vars) := by
      rw [Named] at hL ⊢; exact hL
    exact (named_iff_gen L r).2
      (compile_gen' I t hA T L _ _ _ r hL' s0 ((named_iff_gen L _).1 hL') h).1
  obtain ⟨L, hL⟩ := ha.named
  refine ⟨⟨⟨L, hnamed L hL⟩, s1, hfold⟩, v1, hnamed, ?_⟩
  intro vs hf
  have hf' : FullOf vs (DeepEx.mk nodes ops (u :: un) vars) := by
    unfold FullOf at hf ⊢
    rw [OpE] at hf ⊢
    exact ⟨hf.1, fun _ _ => trivial, hf.2.2⟩
  exact (compile_op _ _ _ _ I _ r h hf').1

theorem neg_res (a r : DeepEx K) (ha : OI t T a) (h : a.neg I t = .ok r) : Res1 t T a r :=
  operateUnary_res I t T hA hP a r _ ha h

end
end Exmex.ReachLemmas
