/-
  The converse of `flat_facts`: for a token list accepted by the flat parser, "no parenthesis
  group starts with a binary operator" implies "no two operands adjacent"
  (`noAdjacent_of_noLead`). So for accepted texts the two conditions are the same, and
  `C03.flat_deep_agree_any` may be used with either.

  `noLeadingBinary t toks`: every binary-only operator directly follows a number, a variable or
  a `)`.
-/
import Exmex.Proofs.AnyTextFlat
namespace Exmex.AnyText
open Exmex.ReachLemmas

variable {α : Type}

def binOnly (t : Table) (o : Nat) : Bool := tblHasBin t o && !tblHasUnary t o

def noLeadFrom (t : Table) : Option (Tok α) → List (Tok α) → Bool
  | _, [] => true
  | p, .op o :: r => (isEnd p || !binOnly t o) && noLeadFrom t (some (.op o)) r
  | _, .num a :: r => noLeadFrom t (some (.num a)) r
  | _, .var x :: r => noLeadFrom t (some (.var x)) r
  | _, .popen :: r => noLeadFrom t (some .popen) r
  | _, .pclose :: r => noLeadFrom t (some .pclose) r

/-- every binary-only operator directly follows a number, a variable or a `)` -/
def noLeadingBinary (t : Table) (toks : List (Tok α)) : Bool := noLeadFrom t none toks

theorem noLeadFrom_spec (t : Table) (toks : List (Tok α)) :
    ∀ (rest : List (Tok α)) (i : Nat), toks.drop i = rest →
      noLeadFrom t (prevAt toks i) rest = true →
      ∀ j o, i ≤ j → toks[j]? = some (.op o) → isEnd (prevAt toks j) = true ∨ binOnly t o = false
  | [], i, hd, _, j, o, hj, ho => by
    have hlen : toks.length ≤ i := by
      have := congrArg List.length hd
      simp at this
      omega
    rw [List.getElem?_eq_none (by omega)] at ho
    cases ho
  | tk :: r, i, hd, h, j, o, hj, ho => by
    obtain ⟨htk, hdr⟩ := drop_cons_facts toks i tk r hd
    have hprev : prevAt toks (i + 1) = some tk := by rw [prevAt_succ, htk]
    have hrest : noLeadFrom t (prevAt toks (i + 1)) r = true := by
      rw [hprev]
      cases tk with
      | op o' => rw [noLeadFrom, Bool.and_eq_true] at h; exact h.2
      | num a => rw [noLeadFrom] at h; exact h
      | var x => rw [noLeadFrom] at h; exact h
      | popen => rw [noLeadFrom] at h; exact h
      | pclose => rw [noLeadFrom] at h; exact h
    rcases Nat.eq_or_lt_of_le hj with rfl | hlt
    · rw [htk] at ho
      cases ho
      rw [noLeadFrom, Bool.and_eq_true] at h
      have h1 := h.1
      cases hp : isEnd (prevAt toks i) with
      | true => exact .inl rfl
      | false =>
        rw [hp] at h1
        exact .inr (by simpa using h1)
    · exact noLeadFrom_spec t toks r (i + 1) hdr hrest j o hlt ho

/-- an operator read as binary where an operand is expected is binary-only -/
theorem lead_binOnly (t : Table) (o : Nat) (p : Option (Tok α)) (hp : isEnd p = false)
    (h : isOperatorBinary t o p = .ok true) : binOnly t o = true := by
  unfold binOnly
  unfold isOperatorBinary at h
  cases hb : tblHasBin t o with
  | false => simp [hb] at h
  | true =>
    cases hu : tblHasUnary t o with
    | false => rfl
    | true =>
      exfalso
      simp only [hb, hu, Bool.true_and, Bool.not_true, Bool.false_eq_true, if_false, if_true] at h
      cases p with
      | none => simp at h
      | some q =>
        cases q with
        | num a => cases hp
        | var x => cases hp
        | pclose => cases hp
        | popen => simp at h
        | op o' => simp at h

theorem noLead_of_noLeadingBinary (t : Table) (toks : List (Tok α))
    (h : noLeadingBinary t toks = true) : ∀ j, ¬ Lead t toks j := by
  rintro j ⟨o, ho, hb, hp⟩
  rcases noLeadFrom_spec t toks toks 0 rfl h j o (Nat.zero_le _) ho with h1 | h1
  · rw [hp] at h1; cases h1
  · rw [lead_binOnly t o _ hp hb] at h1; cases h1

/-! ### the count with adjacent operands -/

def isOperandO : Option (Tok α) → Bool
  | some (.num _) => true
  | some (.var _) => true
  | _ => false

def isCloseO : Option (Tok α) → Bool
  | some .pclose => true
  | _ => false

/-- what the pair conditions (and "the first token is no `)`") say -/
def stepP (t : Table) (p : Option (Tok α)) : Tok α → Bool
  | .num _ => !isEnd p || isOperandO p
  | .var _ => !isEnd p || isOperandO p
  | .popen => !isEnd p || isCloseO p
  | .pclose => isEnd p
  | .op o => !isEnd p || tblHasBin t o

theorem stepP_of_pre (t : Table) (toks : List (Tok α)) (hpre : checkPre t toks = .ok ())
    (i : Nat) (tk : Tok α) (hi : toks[i]? = some tk) : stepP t (prevAt toks i) tk = true := by
  obtain ⟨-, hpairs, -⟩ := checkPre_spec t toks hpre
  obtain ⟨-, ⟨tk0, h0, h0c⟩, -⟩ := checkPre_facts t toks hpre
  cases i with
  | zero =>
    have hp : prevAt toks 0 = none := rfl
    rw [hp]
    rw [h0] at hi
    cases hi
    cases tk <;> first | rfl | exact absurd rfl h0c
  | succ i =>
    rw [prevAt_succ]
    cases hq : toks[i]? with
    | none =>
      exfalso
      have hlen : toks.length ≤ i := by
        rcases Nat.lt_or_ge i toks.length with hl | hl
        · rw [List.getElem?_eq_getElem hl] at hq; cases hq
        · exact hl
      have : i + 1 < toks.length := (List.getElem?_eq_some_iff.1 hi).1
      omega
    | some q =>
      have h1 := pairs_ok t toks hpairs i q tk hq hi
      cases q <;> cases tk <;>
        simp [pairViolated, stepP, isEnd, isOperandO, isCloseO] at h1 ⊢ <;> simp [h1]

/-- an operand start directly after an operand end -/
def AdjAt (toks : List (Tok α)) (j : Nat) : Prop :=
  isEnd (prevAt toks j) = true ∧ ∃ tk, toks[j]? = some tk ∧ (isOperand tk = true ∨ tk = .popen)

theorem makeLoop_adj (t : Table) (toks : List (Tok α)) (vars : List Str)
    (hP : ∀ i tk, toks[i]? = some tk → stepP t (prevAt toks i) tk = true)
    (hlead : ∀ j, ¬ Lead t toks j) :
    ∀ (rest : List (Tok α)) (i : Nat) (st st' : MakeSt α) (k : Nat), toks.drop i = rest →
      i ≤ toks.length →
      makeLoop t toks vars rest i st = .ok st' →
      st.nodes.length = st.ops.length + (if isEnd (prevAt toks i) = true then 1 else 0) + k →
      (k = 0 → ∀ j, j < i → ¬ AdjAt toks j) →
      ∃ k', st'.nodes.length =
          st'.ops.length + (if isEnd (prevAt toks toks.length) = true then 1 else 0) + k' ∧
        (k' = 0 → ∀ j, ¬ AdjAt toks j)
  | [], i, st, st', k, hd, hi, h, hk, hl => by
    rw [makeLoop] at h
    cases h
    have hlen : toks.length ≤ i := by
      have := congrArg List.length hd
      simp at this
      omega
    have hi' : i = toks.length := by omega
    subst hi'
    refine ⟨k, hk, ?_⟩
    intro hk0 j hj
    rcases Nat.lt_or_ge j toks.length with hjl | hjl
    · exact hl hk0 j hjl hj
    · obtain ⟨-, tk, ho, -⟩ := hj
      rw [List.getElem?_eq_none hjl] at ho
      cases ho
  | tk :: r, i, st, st', k, hd, hi, h, hk, hl => by
    obtain ⟨htk, hdr⟩ := drop_cons_facts toks i tk r hd
    have hilt : i < toks.length := (List.getElem?_eq_some_iff.1 htk).1
    rw [makeLoop] at h
    split at h
    · cases h
    rename_i st1 hstep
    obtain ⟨l1, l2, l3⟩ := makeStep_len t toks vars i tk st st1 hstep
    have hw := hP i tk htk
    have hprev : prevAt toks (i + 1) = some tk := by rw [prevAt_succ, htk]
    -- positions before `i` stay non-adjacent; position `i` is decided per case
    have keep : ∀ k1 : Nat, (k1 = 0 → k = 0 ∧ ¬ AdjAt toks i) →
        (k1 = 0 → ∀ j, j < i + 1 → ¬ AdjAt toks j) := by
      intro k1 hk1 hk10 j hj
      obtain ⟨hk0, hni⟩ := hk1 hk10
      rcases Nat.lt_or_ge j i with hji | hji
      · exact hl hk0 j hji
      · have : j = i := by omega
        subst this
        exact hni
    have key : ∃ k1, st1.nodes.length =
          st1.ops.length + (if isEnd (prevAt toks (i + 1)) = true then 1 else 0) + k1 ∧
        (k1 = 0 → ∀ j, j < i + 1 → ¬ AdjAt toks j) := by
      rw [hprev]
      cases tk with
      | num a =>
        obtain ⟨e1, e2⟩ := l2 rfl
        cases hp : isEnd (prevAt toks i) with
        | false =>
          rw [hp] at hk
          refine ⟨k, by simp [isEnd] at hk ⊢; omega, keep k (fun h0 => ⟨h0, ?_⟩)⟩
          rintro ⟨h1, -⟩
          rw [hp] at h1; cases h1
        | true =>
          rw [hp] at hk
          exact ⟨k + 1, by simp [isEnd] at hk ⊢; omega, by intro h0; omega⟩
      | var x =>
        obtain ⟨e1, e2⟩ := l2 rfl
        cases hp : isEnd (prevAt toks i) with
        | false =>
          rw [hp] at hk
          refine ⟨k, by simp [isEnd] at hk ⊢; omega, keep k (fun h0 => ⟨h0, ?_⟩)⟩
          rintro ⟨h1, -⟩
          rw [hp] at h1; cases h1
        | true =>
          rw [hp] at hk
          exact ⟨k + 1, by simp [isEnd] at hk ⊢; omega, by intro h0; omega⟩
      | popen =>
        obtain ⟨e1, e2⟩ := l3 (.inl rfl)
        cases hp : isEnd (prevAt toks i) with
        | false =>
          rw [hp] at hk
          refine ⟨k, by simp [isEnd] at hk ⊢; omega, keep k (fun h0 => ⟨h0, ?_⟩)⟩
          rintro ⟨h1, -⟩
          rw [hp] at h1; cases h1
        | true =>
          rw [hp] at hk
          exact ⟨k + 1, by simp [isEnd] at hk ⊢; omega, by intro h0; omega⟩
      | pclose =>
        obtain ⟨e1, e2⟩ := l3 (.inr rfl)
        have hp : isEnd (prevAt toks i) = true := by simpa [stepP] using hw
        rw [hp] at hk
        refine ⟨k, by simp [isEnd] at hk ⊢; omega, keep k (fun h0 => ⟨h0, ?_⟩)⟩
        rintro ⟨-, tk', h1, h2⟩
        rw [htk] at h1
        cases h1
        rcases h2 with h2 | h2 <;> cases h2
      | op o =>
        obtain ⟨b, hb, e1, e2⟩ := l1 o rfl
        have hend : isEnd (some (Tok.op o : Tok α)) = false := rfl
        rw [hend]
        have hnadj : ¬ AdjAt toks i := by
          rintro ⟨-, tk', h1, h2⟩
          rw [htk] at h1
          cases h1
          rcases h2 with h2 | h2 <;> cases h2
        cases hp : isEnd (prevAt toks i) with
        | true =>
          rw [hp] at hk
          have hbin : tblHasBin t o = true := by simpa [stepP, hp] using hw
          have hbt : b = true := isOpBin_infix t o _ hp hbin b hb
          subst hbt
          exact ⟨k, by simp at hk e2 ⊢; omega, keep k (fun h0 => ⟨h0, hnadj⟩)⟩
        | false =>
          rw [hp] at hk
          cases b with
          | true => exact absurd ⟨o, htk, hb, hp⟩ (hlead i)
          | false => exact ⟨k, by simp at hk e2 ⊢; omega, keep k (fun h0 => ⟨h0, hnadj⟩)⟩
    obtain ⟨k1, hk1, hl1⟩ := key
    exact makeLoop_adj t toks vars hP hlead r (i + 1) st1 st' k1 hdr hilt h hk1 hl1

theorem last_isEnd (t : Table) (toks : List (Tok α)) (hpre : checkPre t toks = .ok ()) :
    isEnd (prevAt toks toks.length) = true := by
  obtain ⟨hne, -, -⟩ := checkPre_spec t toks hpre
  obtain ⟨hNE, -, -⟩ := checkPre_facts t toks hpre
  have hlast := checkPre_last t toks hpre
  have hpos : 0 < toks.length := List.length_pos_iff.2 hne
  unfold prevAt
  rw [if_pos hpos]
  rw [List.getLast?_eq_getElem?] at hlast
  cases hq : toks[toks.length - 1]? with
  | none =>
    rw [List.getElem?_eq_none_iff] at hq
    omega
  | some q =>
    rw [hq] at hlast
    cases q with
    | num a => rfl
    | var x => rfl
    | pclose => rfl
    | op o => simp [isOpTok] at hlast
    | popen =>
      obtain ⟨tk, h1, -⟩ := hNE _ hq
      have : toks.length - 1 + 1 = toks.length := by omega
      rw [this, List.getElem?_eq_none (Nat.le_refl _)] at h1
      cases h1

theorem noAdjacent_of_spec : ∀ toks : List (Tok α),
    (∀ i a b, toks[i]? = some a → toks[i + 1]? = some b → adjPair a b = false) →
    noAdjacent toks = true
  | [], _ => rfl
  | [_], _ => rfl
  | x :: y :: rest, h => by
    rw [noAdjacent, Bool.and_eq_true]
    refine ⟨?_, noAdjacent_of_spec (y :: rest) ?_⟩
    · have := h 0 x y rfl rfl
      simp [this]
    · intro i a b h1 h2
      exact h (i + 1) a b (by simpa using h1) (by simpa using h2)

/-- **accepted by the flat parser and no leading binary operator ⟹ no two operands adjacent** -/
theorem noAdjacent_of_noLead (t : Table) (text : Str) (toks : List (Tok α)) (vars : List Str)
    (f : FlatEx α) (hpre : checkPre t toks = .ok ()) (hnl : noLeadingBinary t toks = true)
    (h : makeExpression t text toks vars = .ok f) : noAdjacent toks = true := by
  unfold makeExpression at h
  split at h
  · cases h
  rename_i st hst
  split at h
  · cases h
  rename_i hcount
  have hcnt : st.ops.length + 1 = st.nodes.length := by simpa using hcount
  obtain ⟨k', r1, r2⟩ := makeLoop_adj t toks vars (stepP_of_pre t toks hpre)
    (noLead_of_noLeadingBinary t toks hnl) toks 0 {} st 0
    rfl (Nat.zero_le _) hst (by simp [prevAt, isEnd]) (fun _ j hj => absurd hj (Nat.not_lt_zero j))
  rw [last_isEnd t toks hpre] at r1
  have hk0 : k' = 0 := by simp at r1; omega
  apply noAdjacent_of_spec
  intro i a b ha hb
  cases hadj : adjPair a b with
  | false => rfl
  | true =>
    exfalso
    apply r2 hk0 (i + 1)
    refine ⟨?_, b, hb, ?_⟩
    · rw [prevAt_succ, ha]
      cases a <;> cases b <;> first | rfl | cases hadj
    · cases a <;> cases b <;> first | exact .inl rfl | exact .inr rfl | cases hadj

end Exmex.AnyText
