/-
  Deep parser, semantic side: what the nodes and groups built by the recursive-descent parser
  of `DeepEx` have to satisfy (`NodeOK`, `GroupRel`, `ExprOK`), and the fact that `DeepEx::new`
  applied to a group related to a chain yields an expression related to that chain.
-/
import Exmex.Model.Deep
import Exmex.Spec.Surface
import Exmex.Proofs.FlattenDefs
import Exmex.Proofs.DeepDefs
import Exmex.Proofs.DeepEval
import Exmex.Proofs.DeepCompile
import Exmex.Proofs.ToDeepVars
import Exmex.Proofs.ParseAssembly
import Exmex.Proofs.C01Assembly
import Exmex.Proofs.SortSplit
import Exmex.Props.C02Deep
namespace Exmex.DeepParse
open DeepCompile

/-- the operator record the deep parser builds for table index `o` -/
def mkDBin (t : Table) (o : Nat) : DBin :=
  { idx := o, prio := tblPrio t o, comm := (((t[o]?).bind (·.bin)).map (·.comm)).getD false }

theorem tblBin_of_bin {t : Table} {o : Nat} {b : BinSpec} (h : (t[o]?).bind (·.bin) = some b) :
    tblBin t o = some (mkDBin t o) := by
  unfold tblBin mkDBin tblPrio
  rw [h]
  rfl

/-- the binary operators of a chain, left to right -/
def chainOps {α} : Chain α → List Nat
  | .single _ => []
  | .cons _ o rest => o :: chainOps rest

/-- the names a node contributes to the variable list collected by `DeepEx::new` -/
def nodeVs {α} : DeepNode α → List Str
  | .num _ => []
  | .var _ n => [n]
  | .expr e => e.vars

/-! ### the variable list collected by `DeepEx::new` -/

theorem nameStep_eq {α} (acc : List Str) (nd : DeepNode α) :
    ToDeep.nameStep acc nd = (nodeVs nd).foldl pushNew acc := by
  cases nd <;> rfl

theorem mem_foldl_pushNew (vs : List Str) : ∀ (acc : List Str) (x : Str),
    x ∈ vs.foldl pushNew acc ↔ x ∈ acc ∨ x ∈ vs := by
  induction vs with
  | nil => intro acc x; simp
  | cons v vs ih =>
    intro acc x
    rw [List.foldl_cons, ih, mem_pushNew]
    simp only [List.mem_cons]
    constructor
    · rintro ((h | h) | h)
      · exact .inl h
      · exact .inr (.inl h)
      · exact .inr (.inr h)
    · rintro (h | h | h)
      · exact .inl (.inl h)
      · exact .inl (.inr h)
      · exact .inr h

theorem foldl_nameStep {α} (ns : List (DeepNode α)) : ∀ (acc : List Str), acc.Nodup →
    (ns.foldl ToDeep.nameStep acc).Nodup ∧
      ∀ x, x ∈ ns.foldl ToDeep.nameStep acc ↔ x ∈ acc ∨ ∃ nd ∈ ns, x ∈ nodeVs nd := by
  induction ns with
  | nil => intro acc h; exact ⟨h, fun x => by simp⟩
  | cons nd ns ih =>
    intro acc h
    rw [List.foldl_cons, nameStep_eq]
    obtain ⟨h1, h2⟩ := ih _ (ToDeep.foldl_pushNew (nodeVs nd) acc h).1
    refine ⟨h1, fun x => ?_⟩
    rw [h2, mem_foldl_pushNew]
    simp only [List.mem_cons, exists_eq_or_imp]
    constructor
    · rintro ((h | h) | h)
      · exact .inl h
      · exact .inr (.inl h)
      · exact .inr (.inr h)
    · rintro (h | h | h)
      · exact .inl (.inl h)
      · exact .inl (.inr h)
      · exact .inr h

theorem foundVars_nodup {α} (ns : List (DeepNode α)) : (foundVars ns).Nodup := by
  rw [ToDeep.foundVars_eq]
  exact ((sortBy_perm strLe _).nodup_iff).2 (foldl_nameStep ns [] List.nodup_nil).1

theorem mem_foundVars {α} (ns : List (DeepNode α)) (x : Str) :
    x ∈ foundVars ns ↔ ∃ nd ∈ ns, x ∈ nodeVs nd := by
  rw [ToDeep.foundVars_eq, (sortBy_perm strLe _).mem_iff, (foldl_nameStep ns [] List.nodup_nil).2]
  simp

theorem foundVars_strict {α} (ns : List (DeepNode α)) :
    (foundVars ns).Pairwise (fun a b => strLt a b = true) := by
  rw [ToDeep.foundVars_eq]
  exact sortBy_strLe_strict _ (foldl_nameStep ns [] List.nodup_nil).1

/-! ### the variable list of the result of `DeepEx::new` -/

theorem foldGroup_vars {α} (I : Interp α) (e1 e' : DeepEx α) (h : foldGroup I e1 = .ok e') :
    e'.vars = e1.vars := by
  unfold foldGroup at h
  simp only at h
  split at h
  · cases h
  · split at h
    · cases h; rfl
    · cases h; rfl

theorem liftNodes_vars {α} (ns : List (DeepNode α)) (ops : List DBin) (un : List Nat)
    (vs : List Str) (h1 : ∀ e, ns = [.expr e] → un = [] → e.vars = vs) :
    (DeepEx.mk ns ops un vs).liftNodes.vars = vs := by
  unfold DeepEx.liftNodes
  split
  · rename_i hc
    simp only [Bool.and_eq_true, List.isEmpty_iff] at hc
    split
    · rename_i e
      exact h1 e rfl hc.2
    · rfl
  · rfl

theorem new_vars {α} (I : Interp α) (ns : List (DeepNode α)) (ops : List DBin) (un : List Nat)
    (e' : DeepEx α) (hlen : ns.length = ops.length + 1) (h : DeepEx.new I ns ops un = .ok e')
    (h1 : ∀ e, ns = [.expr e] → un = [] → e.vars = foundVars ns) : e'.vars = foundVars ns := by
  have hnew : DeepEx.new I ns ops un = (DeepEx.mk ns ops un (foundVars ns)).compile I := by
    unfold DeepEx.new
    rw [if_neg (by rw [hlen]; simp), if_neg (by simp [hlen])]
  rw [hnew, compile_eq] at h
  rw [foldGroup_vars I _ _ h]
  exact liftNodes_vars ns ops un _ h1

/-! ### relations between surface syntax and deep expressions -/

section rel
variable {α : Type} (I : Interp α) (t : Table) (vals : List α) (ρ : Env α)

/-- node `nd` stands for the operand `a` with the unary chain `us` written in front of it -/
def NodeOK (a : Atom α) (us : List Nat) (nd : DeepNode α) : Prop :=
  nd.ShapeN vals.length ∧ nodeAssoc I nd ∧
    (∃ v, a.denoteS I t ρ = some v ∧ nd.evalNode I vals = .ok (applyUn I us v)) ∧
    nodeVs nd = sortDedup a.varOcc

/-- expression `d` stands for the chain `c` with the unary chain `un` applied to it -/
def ExprOK (c : Chain α) (un : List Nat) (d : DeepEx α) : Prop :=
  d.Shape vals.length ∧ d.Assoc I ∧
    (∃ v, c.denoteS I t ρ = some v ∧ d.evalRelaxed I vals = .ok (applyUn I un v)) ∧
    d.vars = sortDedup c.varOcc

/-- the nodes of a group stand for the operands of a chain -/
def GroupRel : Chain α → List (DeepNode α) → Prop
  | .single a, ns => ∃ nd, ns = [nd] ∧ NodeOK I t vals ρ a [] nd
  | .cons a _ rest, ns => ∃ nd ns', ns = nd :: ns' ∧ NodeOK I t vals ρ a [] nd ∧ GroupRel rest ns'

theorem nodeOK_par {c : Chain α} {us : List Nat} {d : DeepEx α} (h : ExprOK I t vals ρ c us d) :
    NodeOK I t vals ρ (.par c) us (.expr d) := by
  obtain ⟨h1, h2, h3, h4⟩ := h
  refine ⟨?_, ?_, ?_, ?_⟩
  · rw [DeepNode.ShapeN]; exact h1
  · exact h2
  · rw [Atom.denoteS, DeepNode.evalNode]; exact h3
  · rw [Atom.varOcc]; exact h4

theorem nodeOK_un {a : Atom α} {us : List Nat} {u : Nat} {nd : DeepNode α}
    (h : NodeOK I t vals ρ a (us ++ [u]) nd) : NodeOK I t vals ρ (.un u a) us nd := by
  obtain ⟨h1, h2, ⟨v, hv, he⟩, h4⟩ := h
  refine ⟨h1, h2, ⟨I.un u v, ?_, ?_⟩, ?_⟩
  · rw [Atom.denoteS, hv]; rfl
  · rw [he, FlatDenoteAux.applyUn_append]; rfl
  · rw [Atom.varOcc]; exact h4

/-- what a related group provides -/
theorem group_facts : ∀ (c : Chain α) (ns : List (DeepNode α)), GroupRel I t vals ρ c ns →
    (∃ vs, c.operandsS I t ρ = some (vs, chainOps c) ∧ evalNodeList I vals ns = .ok vs) ∧
    shapeList vals.length ns ∧ assocList I ns ∧ ns.length = (chainOps c).length + 1 ∧
    (∀ x, (∃ nd ∈ ns, x ∈ nodeVs nd) ↔ x ∈ c.varOcc) ∧
    (∀ nd, ns = [nd] → nodeVs nd = sortDedup c.varOcc)
  | .single a, ns, h => by
    rw [GroupRel] at h
    obtain ⟨nd, rfl, h1, h2, ⟨v, hv, he⟩, h4⟩ := h
    refine ⟨⟨[v], ?_, ?_⟩, ?_, ?_, ?_, ?_, ?_⟩
    · rw [Chain.operandsS, hv]; rfl
    · rw [evalNodeList, he, evalNodeList]; rfl
    · rw [shapeList, shapeList]; exact ⟨h1, trivial⟩
    · rw [assocList_cons]; exact ⟨h2, by rw [assocList]; trivial⟩
    · rfl
    · intro x
      rw [Chain.varOcc]
      simp only [List.mem_singleton, exists_eq_left, h4, C01Assembly.mem_sortDedup]
    · intro nd' h'
      cases h'
      rw [Chain.varOcc]; exact h4
  | .cons a o rest, ns, h => by
    rw [GroupRel] at h
    obtain ⟨nd, ns', rfl, ⟨h1, h2, ⟨v, hv, he⟩, h4⟩, hr⟩ := h
    obtain ⟨⟨vs, hvs, hes⟩, g2, g3, g4, g5, -⟩ := group_facts rest ns' hr
    refine ⟨⟨v :: vs, ?_, ?_⟩, ?_, ?_, ?_, ?_, ?_⟩
    · rw [Chain.operandsS, hv, hvs]; rfl
    · rw [evalNodeList, he]; simp only [applyUn, List.foldr_nil]; rw [hes]
    · rw [shapeList]; exact ⟨h1, g2⟩
    · rw [assocList_cons]; exact ⟨h2, g3⟩
    · simp only [chainOps, List.length_cons, g4]
    · intro x
      rw [Chain.varOcc, List.mem_append, ← g5 x]
      simp only [List.mem_cons, exists_eq_or_imp, h4, C01Assembly.mem_sortDedup]
    · intro nd' h'
      have : ns' = [] := by
        have := congrArg List.length h'
        simp only [List.length_cons, List.length_nil] at this
        exact List.eq_nil_of_length_eq_zero (by omega)
      rw [this] at g4
      simp at g4

end rel

/-! ### `DeepEx::new` on a related group -/

theorem deepAssoc_mk {α : Type} (I : Interp α) (t : Table) (hA : C01.FlaggedAssoc I t)
    (os : List Nat) : DeepAssoc I (os.map (mkDBin t)) := by
  intro o' ho' hc
  obtain ⟨o, -, rfl⟩ := List.mem_map.1 ho'
  show ∀ x y z, I.bin o (I.bin o x y) z = I.bin o x (I.bin o y z)
  cases hb : (t[o]?).bind (·.bin) with
  | none =>
    have : (mkDBin t o).comm = false := by unfold mkDBin; rw [hb]; rfl
    rw [this] at hc; cases hc
  | some b =>
    have : (mkDBin t o).comm = b.comm := by unfold mkDBin; rw [hb]; rfl
    rw [this] at hc
    exact hA o b hb hc

theorem make_ok {α : Type} (I : Interp α) (t : Table) (vals : List α) (ρ : Env α)
    (hA : C01.FlaggedAssoc I t) (vars : List Str) (hvl : vars.length ≤ vals.length)
    (c : Chain α) (ns : List (DeepNode α)) (un : List Nat)
    (hv : ∀ x ∈ c.varOcc, x ∈ vars) (hg : GroupRel I t vals ρ c ns) :
    ∃ d, DeepEx.new I ns ((chainOps c).map (mkDBin t)) un = .ok d ∧ ExprOK I t vals ρ c un d := by
  obtain ⟨⟨vs, hvs, hes⟩, g2, g3, g4, g5, g6⟩ := group_facts I t vals ρ c ns hg
  have hlen : ns.length = ((chainOps c).map (mkDBin t)).length + 1 := by
    rw [List.length_map]; exact g4
  have hfv : foundVars ns = sortDedup c.varOcc :=
    ParseAssembly.strict_ext _ _ (foundVars_strict ns) (ParseAssembly.sortDedup_strict _)
      (fun x => by rw [mem_foundVars, g5, C01Assembly.mem_sortDedup])
  have hfl : (foundVars ns).length ≤ vals.length := by
    refine Nat.le_trans (ToDeep.nodup_subset_length _ vars (foundVars_nodup ns) ?_) hvl
    intro x hx
    exact hv x ((g5 x).1 ((mem_foundVars ns x).1 hx))
  have hDA := deepAssoc_mk I t hA (chainOps c)
  obtain ⟨d, hnew, hsh, has, hev⟩ := C02.deep_new_sound I ns _ un vals hlen g2 hfl ⟨hDA, g3⟩
  have hnl : vs.length = ((chainOps c).map (mkDBin t)).length + 1 := by
    rw [evalNodeList_length I vals ns vs hes]; exact hlen
  obtain ⟨v, hsp, hev2⟩ := eval_mk I vals ns _ un (foundVars ns) vs hfl hes hnl hDA
  refine ⟨d, hnew, hsh, has, ⟨v, ?_, ?_⟩, ?_⟩
  · rw [Chain.denoteS, hvs]
    rw [splitEval_map, List.length_map] at hsp
    exact hsp
  · rw [hev, hev2]
  · rw [new_vars I ns _ un d hlen hnew, hfv]
    intro e he _
    rw [hfv]
    exact g6 _ he

end Exmex.DeepParse
