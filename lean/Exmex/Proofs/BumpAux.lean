/-
  Auxiliary facts for L4 (`splitEval_bump`): characterisation of `argminR`, a relational
  presentation `Ev` of `splitEval` on contiguous segments, and the abstract re-association argument.
-/
import Exmex.Spec.Split
namespace Exmex
namespace BumpAux

/-! ### `argminR` -/

theorem argminR_lt : ∀ l : List Int, l ≠ [] → argminR l < l.length := by
  intro l
  fun_induction argminR l with
  | case1 => intro h; exact absurd rfl h
  | case2 => intro _; simp
  | case3 k k' ks j hle ih => intro _; have := ih (by simp); simp at this ⊢; omega
  | case4 k k' ks j hle ih => intro _; simp

theorem argminR_le : ∀ (l : List Int) (q : Nat), q < l.length →
    l.getD (argminR l) 0 ≤ l.getD q 0 := by
  intro l
  fun_induction argminR l with
  | case1 => intro q h; simp at h
  | case2 => intro q h; simp at h; subst h; simp
  | case3 k k' ks j hle ih =>
    intro q h
    cases q with
    | zero => simpa using hle
    | succ q => 
      have := ih q (by simpa using h)
      simpa using this
  | case4 k k' ks j hle ih =>
    intro q h
    cases q with
    | zero => simp
    | succ q =>
      have := ih q (by simpa using h)
      have hj : j = argminR (k' :: ks) := rfl
      rw [hj] at hle
      simp only [List.getD_cons_zero, List.getD_cons_succ]
      omega

theorem argminR_lt_right : ∀ (l : List Int) (q : Nat), argminR l < q → q < l.length →
    l.getD (argminR l) 0 < l.getD q 0 := by
  intro l
  fun_induction argminR l with
  | case1 => intro q _ h; simp at h
  | case2 => intro q h1 h2; simp at h2; omega
  | case3 k k' ks j hle ih =>
    intro q h1 h2
    cases q with
    | zero => omega
    | succ q =>
      have := ih q (by omega) (by simpa using h2)
      simpa using this
  | case4 k k' ks j hle ih =>
    intro q h1 h2
    cases q with
    | zero => omega
    | succ q =>
      have := argminR_le (k' :: ks) q (by simpa using h2)
      have hj : j = argminR (k' :: ks) := rfl
      rw [hj] at hle
      simp only [List.getD_cons_zero, List.getD_cons_succ]
      omega

/-! ### split points of a contiguous segment `[lo, hi)` of positions -/

/-- `j` is the right-most minimum of `key` on `[lo, hi)` -/
def IsSplit (key : Nat → Int) (lo hi j : Nat) : Prop :=
  lo ≤ j ∧ j < hi ∧ (∀ q, lo ≤ q → q < hi → key j ≤ key q) ∧ (∀ q, j < q → q < hi → key j < key q)

theorem IsSplit.unique {key : Nat → Int} {lo hi j j' : Nat}
    (h : IsSplit key lo hi j) (h' : IsSplit key lo hi j') : j = j' := by
  obtain ⟨a1, a2, a3, a4⟩ := h
  obtain ⟨b1, b2, b3, b4⟩ := h'
  rcases Nat.lt_trichotomy j j' with hlt | heq | hgt
  · have := a4 j' hlt b2; have := b3 j a1 a2; omega
  · exact heq
  · have := b4 j hgt a2; have := a3 j' b1 b2; omega

theorem getD_map_range' (key : Nat → Int) (lo n q : Nat) (hq : q < n) :
    ((List.range' lo n).map key).getD q 0 = key (lo + q) := by
  simp [List.getD_eq_getElem?_getD, hq]

theorem isSplit_argminR (key : Nat → Int) (lo hi : Nat) (h : lo < hi) :
    IsSplit key lo hi (lo + argminR ((List.range' lo (hi - lo)).map key)) := by
  have hne : (List.range' lo (hi - lo)).map key ≠ [] := by
    intro h0
    have := congrArg List.length h0
    simp at this; omega
  have hlt := argminR_lt _ hne
  have hlen : ((List.range' lo (hi - lo)).map key).length = hi - lo := by simp
  rw [hlen] at hlt
  refine ⟨by omega, by omega, ?_, ?_⟩
  · intro q h1 h2
    have := argminR_le ((List.range' lo (hi - lo)).map key) (q - lo) (by rw [hlen]; omega)
    rw [getD_map_range' _ _ _ _ hlt, getD_map_range' _ _ _ _ (by omega)] at this
    have e : lo + (q - lo) = q := by omega
    rwa [e] at this
  · intro q h1 h2
    have := argminR_lt_right ((List.range' lo (hi - lo)).map key) (q - lo) (by omega)
      (by rw [hlen]; omega)
    rw [getD_map_range' _ _ _ _ hlt, getD_map_range' _ _ _ _ (by omega)] at this
    have e : lo + (q - lo) = q := by omega
    rwa [e] at this

theorem IsSplit.argminR_eq {key : Nat → Int} {lo hi j : Nat} (h : IsSplit key lo hi j) :
    argminR ((List.range' lo (hi - lo)).map key) = j - lo := by
  have h' := isSplit_argminR key lo hi (by have := h.1; have := h.2.1; omega)
  have := h.unique h'
  omega

/-! ### relational presentation of `splitEval` on segments -/

/-- `Ev apply vals key lo hi a`: the chain `vals[lo] o_lo vals[lo+1] … o_{hi-1} vals[hi]` has value
    `a` when split recursively at the right-most minimum of `key`. -/
inductive Ev {α : Type} (apply : Nat → α → α → α) (vals : List α) (key : Nat → Int) :
    Nat → Nat → α → Prop
  | leaf {lo : Nat} {v : α} : vals[lo]? = some v → Ev apply vals key lo lo v
  | node {lo hi j : Nat} {l r : α} : IsSplit key lo hi j → Ev apply vals key lo j l →
      Ev apply vals key (j + 1) hi r → Ev apply vals key lo hi (apply j l r)

section
variable {α : Type} {apply : Nat → α → α → α} {vals : List α} {key : Nat → Int}

theorem Ev.le {lo hi : Nat} {a : α} (h : Ev apply vals key lo hi a) : lo ≤ hi := by
  induction h with
  | leaf _ => exact Nat.le_refl _
  | node hs _ _ _ _ => have := hs.1; have := hs.2.1; omega

theorem Ev.lt_length {lo hi : Nat} {a : α} (h : Ev apply vals key lo hi a) :
    hi < vals.length := by
  induction h with
  | leaf hv =>
    rcases Nat.lt_or_ge _ vals.length with h | h
    · exact h
    · rw [List.getElem?_eq_none h] at hv; cases hv
  | node _ _ _ _ ih => exact ih

theorem Ev.inv {lo hi : Nat} {a : α} (h : Ev apply vals key lo hi a) (hlt : lo < hi) :
    ∃ j l r, IsSplit key lo hi j ∧ Ev apply vals key lo j l ∧ Ev apply vals key (j + 1) hi r ∧
      a = apply j l r := by
  cases h with
  | leaf _ => omega
  | node hs hl hr => exact ⟨_, _, _, hs, hl, hr, rfl⟩

theorem Ev.total (apply : Nat → α → α → α) (vals : List α) (key : Nat → Int) :
    ∀ (n lo hi : Nat), hi - lo = n → lo ≤ hi → hi < vals.length → ∃ a, Ev apply vals key lo hi a := by
  intro n
  induction n using Nat.strongRecOn with
  | _ n ih =>
    intro lo hi hn hle hlen
    rcases Nat.eq_or_lt_of_le hle with heq | hlt
    · subst heq
      exact ⟨vals[lo], Ev.leaf (List.getElem?_eq_getElem hlen)⟩
    · have hs := isSplit_argminR key lo hi hlt
      generalize lo + argminR ((List.range' lo (hi - lo)).map key) = j at hs
      obtain ⟨h1, h2, -, -⟩ := id hs
      obtain ⟨l, hl⟩ := ih (j - lo) (by omega) lo j rfl h1 (by omega)
      obtain ⟨r, hr⟩ := ih (hi - (j + 1)) (by omega) (j + 1) hi rfl (by omega) hlen
      exact ⟨_, Ev.node hs hl hr⟩

theorem take_range'_le (lo n k : Nat) (h : k ≤ n) :
    (List.range' lo n).take k = List.range' lo k := by
  apply List.ext_getElem?
  intro i
  rw [List.getElem?_take]
  by_cases hi : i < k
  · simp [hi, show i < n by omega]
  · simp [hi]

theorem drop_range'_1 (lo n k : Nat) :
    (List.range' lo n).drop k = List.range' (lo + k) (n - k) := by
  rw [List.drop_range']; simp

theorem splitEval_cons {ω : Type} (ap : ω → α → α → α) (k : ω → Int) (fuel : Nat) (vs : List α)
    (o : ω) (os : List ω) :
    splitEval ap k (fuel + 1) vs (o :: os) =
      match (o :: os)[argminR ((o :: os).map k)]? with
      | none => none
      | some o' =>
        match splitEval ap k fuel (vs.take (argminR ((o :: os).map k) + 1))
                ((o :: os).take (argminR ((o :: os).map k))),
              splitEval ap k fuel (vs.drop (argminR ((o :: os).map k) + 1))
                ((o :: os).drop (argminR ((o :: os).map k) + 1)) with
        | some l, some r => some (ap o' l r)
        | _, _ => none := by
  rw [splitEval]
  · rfl
  · intro v _ h2; cases h2

/-- soundness of `Ev` w.r.t. `splitEval` with any sufficient fuel -/
theorem Ev.splitEval_eq {lo hi : Nat} {a : α} (h : Ev apply vals key lo hi a) :
    ∀ fuel, hi - lo ≤ fuel →
      splitEval apply key fuel ((vals.drop lo).take (hi - lo + 1)) (List.range' lo (hi - lo)) =
        some a := by
  induction h with
  | @leaf lo v hv =>
    intro fuel _
    have hlt : lo < vals.length := by
      rcases Nat.lt_or_ge lo vals.length with h | h
      · exact h
      · rw [List.getElem?_eq_none h] at hv; cases hv
    have e : (vals.drop lo).take (lo - lo + 1) = [v] := by
      rw [List.getElem?_eq_getElem hlt] at hv
      cases hv
      simp [List.take_one, List.head?_drop, hlt]
    rw [e]; simp [splitEval]
  | @node lo hi j l r hs hl hr ihl ihr =>
    intro fuel hf
    obtain ⟨h1, h2, -, -⟩ := id hs
    have hhi := hr.lt_length
    obtain ⟨f, rfl⟩ : ∃ f, fuel = f + 1 := ⟨fuel - 1, by omega⟩
    have hp := hs.argminR_eq
    obtain ⟨n, hn⟩ : ∃ n, hi - lo = n + 1 := ⟨hi - lo - 1, by omega⟩
    rw [hn] at hp ⊢
    rw [List.range'_succ, splitEval_cons]
    rw [← List.range'_succ, hp]
    have e1 : (List.range' lo (n + 1))[j - lo]? = some j := by
      rw [List.getElem?_range' (by omega)]; congr 1; omega
    have e2 : ((vals.drop lo).take (n + 1 + 1)).take (j - lo + 1) = (vals.drop lo).take (j - lo + 1) := by
      rw [List.take_take]; congr 1; omega
    have e3 : (List.range' lo (n + 1)).take (j - lo) = List.range' lo (j - lo) := by
      rw [take_range'_le _ _ _ (by omega)]
    have e4 : ((vals.drop lo).take (n + 1 + 1)).drop (j - lo + 1) =
        (vals.drop (j + 1)).take (hi - (j + 1) + 1) := by
      rw [List.drop_take, List.drop_drop]; congr 1
      · omega
      · congr 1; omega
    have e5 : (List.range' lo (n + 1)).drop (j - lo + 1) = List.range' (j + 1) (hi - (j + 1)) := by
      rw [drop_range'_1]; congr 1 <;> omega
    rw [e1, e2, e3, e4, e5]
    simp only []
    rw [ihl f (by omega), ihr f (by omega)]

end

/-! ### abstract re-association -/

/-- what the re-association argument needs from the "bumped" flag -/
structure BumpAbs {α : Type} (apply : Nat → α → α → α) (N : Nat) (prio : Nat → Int)
    (bmp : Nat → Bool) (idx : Nat → Nat) (g : Nat → α → α → α) : Prop where
  act : ∀ k, k < N → bmp k = true → ∀ x y, apply k x y = g (idx k) x y
  assoc : ∀ k, k < N → bmp k = true →
    ∀ x y z, g (idx k) (g (idx k) x y) z = g (idx k) x (g (idx k) y z)
  left : ∀ j k, j < k → k < N → bmp k = true → prio j = prio k →
    (∀ m, j < m → m < k → prio k < prio m) →
    idx j = idx k ∧ ∀ x y, apply j x y = g (idx j) x y

section
variable {α : Type} {apply : Nat → α → α → α} {vals : List α}
  {N : Nat} {prio : Nat → Int} {bmp : Nat → Bool} {idx : Nat → Nat} {g : Nat → α → α → α}

/-- all operators of priority `p` from `j` to `k`, with nothing lower in between and all but `j`
    bumped, share one table index and `j` acts without unary chain -/
theorem BumpAbs.chain (H : BumpAbs apply N prio bmp idx g) :
    ∀ (d j k : Nat), k - j = d → j < k → k < N → prio j = prio k →
      (∀ m, j < m → m < k → prio k ≤ prio m) →
      (∀ m, j < m → m ≤ k → prio m = prio k → bmp m = true) →
      idx j = idx k ∧ ∀ x y, apply j x y = g (idx j) x y := by
  intro d
  induction d using Nat.strongRecOn with
  | _ d ih =>
    intro j k hd hjk hkN hp hge hb
    by_cases hex : ∃ m, j < m ∧ m < k ∧ prio m = prio k
    · obtain ⟨m, h1, h2, h3⟩ := hex
      have A := ih (m - j) (by omega) j m rfl h1 (by omega) (by omega)
        (fun q q1 q2 => by have := hge q q1 (by omega); omega)
        (fun q q1 q2 q3 => hb q q1 (by omega) (by omega))
      have B := ih (k - m) (by omega) m k rfl h2 hkN h3
        (fun q q1 q2 => hge q (by omega) q2)
        (fun q q1 q2 q3 => hb q (by omega) q2 q3)
      exact ⟨A.1.trans B.1, A.2⟩
    · refine H.left j k hjk hkN (hb k hjk (Nat.le_refl _) rfl) hp ?_
      intro m h1 h2
      have := hge m h1 h2
      rcases Int.lt_or_eq_of_le this with h | h
      · exact h
      · exact absurd ⟨m, h1, h2, h.symm⟩ hex

/-- re-association: splitting `[lo, hi)` at a lowest-priority operator `j` all of whose
    equal-priority successors are bumped gives the value of the priority split -/
theorem BumpAbs.reassoc (H : BumpAbs apply N prio bmp idx g) :
    ∀ (d lo j hi : Nat) (A B : α), hi - j = d → lo ≤ j → j < hi → hi ≤ N →
      (∀ q, lo ≤ q → q < hi → prio j ≤ prio q) →
      (∀ q, j < q → q < hi → prio q = prio j → bmp q = true) →
      Ev apply vals prio lo j A → Ev apply vals prio (j + 1) hi B →
      Ev apply vals prio lo hi (apply j A B) := by
  intro d
  induction d using Nat.strongRecOn with
  | _ d ih =>
    intro lo j hi A B hd hlo hhi hN hmin hb hA hB
    have hs := isSplit_argminR prio lo hi (by omega)
    generalize lo + argminR ((List.range' lo (hi - lo)).map prio) = k at hs
    obtain ⟨k1, k2, k3, k4⟩ := id hs
    have hjk : j ≤ k := by
      rcases Nat.lt_or_ge k j with h | h
      · have := k4 j h hhi; have := hmin k k1 k2; omega
      · exact h
    rcases Nat.eq_or_lt_of_le hjk with heq | hlt
    · subst heq; exact Ev.node hs hA hB
    · have hpk : prio k = prio j := by
        have := k3 j hlo hhi; have := hmin k k1 k2; omega
      have hbk : bmp k = true := hb k hlt k2 hpk
      have hs' : IsSplit prio (j + 1) hi k :=
        ⟨by omega, k2, fun q q1 q2 => k3 q (by omega) q2, k4⟩
      obtain ⟨k', B1, B2, hk', hB1, hB2, rfl⟩ := hB.inv (by omega)
      have := hs'.unique hk'
      subst this
      have hL := ih (k - j) (by omega) lo j k A B1 rfl hlo hlt (by omega)
        (fun q q1 q2 => hmin q q1 (by omega))
        (fun q q1 q2 q3 => hb q q1 (by omega) q3) hA hB1
      have hT := Ev.node hs hL hB2
      have hc := H.chain (k - j) j k rfl hlt (by omega) hpk.symm
        (fun m m1 m2 => by have := hmin m (by omega) (by omega); omega)
        (fun m m1 m2 m3 => hb m m1 (by omega) (by omega))
      have e : apply j A (apply k B1 B2) = apply k (apply j A B1) B2 := by
        rw [H.act k (by omega) hbk, H.act k (by omega) hbk, hc.2, hc.2, hc.1,
          H.assoc k (by omega) hbk]
      rw [e]; exact hT

/-- the abstract form of L4 -/
theorem BumpAbs.ev (H : BumpAbs apply N prio bmp idx g) {key1 : Nat → Int}
    (hkey : ∀ k, k < N → key1 k = prio k * 10 + (if bmp k = true then 5 else 0))
    {lo hi : Nat} {a : α} (h : Ev apply vals key1 lo hi a) (hN : hi ≤ N) :
    Ev apply vals prio lo hi a := by
  induction h with
  | leaf hv => exact Ev.leaf hv
  | @node lo hi j l r hs hl hr ihl ihr =>
    obtain ⟨s1, s2, s3, s4⟩ := id hs
    have hl' := ihl (by omega)
    have hr' := ihr hN
    refine H.reassoc (hi - j) lo j hi l r rfl s1 s2 hN ?_ ?_ hl' hr'
    · intro q q1 q2
      have := s3 q q1 q2
      rw [hkey j (by omega), hkey q (by omega)] at this
      split at this <;> split at this <;> omega
    · intro q q1 q2 q3
      have := s4 q q1 q2
      rw [hkey j (by omega), hkey q (by omega)] at this
      split at this <;> split at this <;> first | assumption | omega

end

end BumpAux
end Exmex
