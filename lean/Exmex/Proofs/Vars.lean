/-
  Helper lemmas for C04: `strLt` is a strict total order, insertion sort (`insertBy`/`sortBy`)
  yields a sorted permutation, the `pushNew` accumulation is duplicate-free, and `nodeValues`
  only reads in-range variable slots.
-/
import Exmex.Model.Flat
import Exmex.Model.Deep
namespace Exmex

/-! ### `strLt` is a strict total order -/

theorem strLt_irrefl' (a : Str) : strLt a a = false := by
  induction a with
  | nil => rfl
  | cons c cs ih => simp [strLt, ih]

theorem strLt_trans' : ∀ (a b c : Str), strLt a b = true → strLt b c = true → strLt a c = true
  | [], [], _, h, _ => by simp [strLt] at h
  | [], _ :: _, [], _, h => by simp [strLt] at h
  | [], _ :: _, _ :: _, _, _ => by simp [strLt]
  | _ :: _, [], _, h, _ => by simp [strLt] at h
  | _ :: _, _ :: _, [], _, h => by simp [strLt] at h
  | x :: xs, y :: ys, z :: zs, h1, h2 => by
    have ih := strLt_trans' xs ys zs
    simp only [strLt] at h1 h2 ⊢
    simp only [UInt32.lt_iff_toNat_lt] at h1 h2 ⊢
    split at h1
    · split at h2
      · rw [if_pos (by omega)]
      · split at h2
        · cases h2
        · rw [if_pos (by omega)]
    · split at h1
      · cases h1
      · split at h2
        · rw [if_pos (by omega)]
        · split at h2
          · cases h2
          · rw [if_neg (by omega), if_neg (by omega)]
            exact ih h1 h2

theorem strLt_total' : ∀ (a b : Str), strLt a b = true ∨ a = b ∨ strLt b a = true
  | [], [] => by simp
  | [], _ :: _ => by simp [strLt]
  | _ :: _, [] => by simp [strLt]
  | x :: xs, y :: ys => by
    have ih := strLt_total' xs ys
    simp only [strLt]
    by_cases h1 : x.val < y.val
    · simp [h1]
    · by_cases h2 : y.val < x.val
      · simp [h2]
      · have hv : x.val = y.val := by
          rw [UInt32.lt_iff_toNat_lt] at h1 h2
          apply UInt32.toNat_inj.mp
          omega
        have hxy : x = y := Char.ext hv
        subst hxy
        simp only [h1, if_false]
        rcases ih with h | h | h
        · exact .inl h
        · exact .inr (.inl (by rw [h]))
        · exact .inr (.inr h)

theorem strLt_asymm' (a b : Str) (h : strLt a b = true) : strLt b a = false := by
  cases hba : strLt b a with
  | false => rfl
  | true =>
    have := strLt_trans' a b a h hba
    rw [strLt_irrefl'] at this
    cases this

theorem strLe_total (a b : Str) : strLe a b = true ∨ strLe b a = true := by
  unfold strLe
  cases h : strLt b a with
  | false => simp
  | true => simp [strLt_asymm' b a h]

theorem strLe_trans (a b c : Str) (h1 : strLe a b = true) (h2 : strLe b c = true) :
    strLe a c = true := by
  unfold strLe at *
  cases hca : strLt c a with
  | false => rfl
  | true =>
    rcases strLt_total' a b with h | h | h
    · have := strLt_trans' c a b hca h
      simp [this] at h2
    · subst h
      simp [hca] at h2
    · simp [h] at h1

theorem strLt_of_strLe_of_ne (a b : Str) (h : strLe a b = true) (hne : a ≠ b) :
    strLt a b = true := by
  unfold strLe at h
  rcases strLt_total' a b with h' | h' | h'
  · exact h'
  · exact absurd h' hne
  · simp [h'] at h

/-! ### insertion sort -/

theorem insertBy_perm {α} (le : α → α → Bool) (x : α) (l : List α) :
    (insertBy le x l).Perm (x :: l) := by
  induction l with
  | nil => exact List.Perm.refl _
  | cons y ys ih =>
    simp only [insertBy]
    split
    · exact List.Perm.refl _
    · exact (List.Perm.cons y ih).trans (List.Perm.swap x y ys)

theorem sortBy_perm {α} (le : α → α → Bool) (l : List α) : (sortBy le l).Perm l := by
  induction l with
  | nil => exact List.Perm.refl _
  | cons x xs ih =>
    show (insertBy le x (sortBy le xs)).Perm (x :: xs)
    exact (insertBy_perm le x _).trans (List.Perm.cons x ih)

theorem insertBy_pairwise {α} (le : α → α → Bool)
    (htot : ∀ a b, le a b = true ∨ le b a = true)
    (htr : ∀ a b c, le a b = true → le b c = true → le a c = true)
    (x : α) (l : List α) (hl : l.Pairwise (fun a b => le a b = true)) :
    (insertBy le x l).Pairwise (fun a b => le a b = true) := by
  induction l with
  | nil => simp [insertBy]
  | cons y ys ih =>
    simp only [insertBy]
    rw [List.pairwise_cons] at hl
    split
    · rename_i hxy
      refine List.pairwise_cons.mpr ⟨?_, List.pairwise_cons.mpr hl⟩
      intro z hz
      rcases List.mem_cons.mp hz with rfl | hz
      · exact hxy
      · exact htr _ _ _ hxy (hl.1 z hz)
    · rename_i hxy
      have hyx : le y x = true := by
        rcases htot x y with h | h
        · exact absurd h hxy
        · exact h
      refine List.pairwise_cons.mpr ⟨?_, ih hl.2⟩
      intro z hz
      have hz' := (insertBy_perm le x ys).mem_iff.mp hz
      rcases List.mem_cons.mp hz' with rfl | hz'
      · exact hyx
      · exact hl.1 z hz'

theorem sortBy_pairwise {α} (le : α → α → Bool)
    (htot : ∀ a b, le a b = true ∨ le b a = true)
    (htr : ∀ a b c, le a b = true → le b c = true → le a c = true)
    (l : List α) : (sortBy le l).Pairwise (fun a b => le a b = true) := by
  induction l with
  | nil => exact List.Pairwise.nil
  | cons x xs ih => exact insertBy_pairwise le htot htr x _ ih

/-- sorting a duplicate-free list of names gives a strictly ascending list -/
theorem sortBy_strLe_strict (l : List Str) (hnd : l.Nodup) :
    (sortBy strLe l).Pairwise (fun a b => strLt a b = true) := by
  have h1 := sortBy_pairwise strLe strLe_total strLe_trans l
  have h2 : (sortBy strLe l).Pairwise (· ≠ ·) := ((sortBy_perm strLe l).nodup_iff).mpr hnd
  exact (h1.and h2).imp (fun ⟨hle, hne⟩ => strLt_of_strLe_of_ne _ _ hle hne)

/-! ### `pushNew` -/

theorem mem_pushNew {α} [DecidableEq α] (l : List α) (x y : α) :
    y ∈ pushNew l x ↔ y ∈ l ∨ y = x := by
  unfold pushNew
  split
  · rename_i h
    have hx : x ∈ l := by simpa using h
    constructor
    · exact .inl
    · rintro (h | rfl)
      · exact h
      · exact hx
  · simp

theorem nodup_pushNew {α} [DecidableEq α] (l : List α) (x : α) (h : l.Nodup) :
    (pushNew l x).Nodup := by
  unfold pushNew
  split
  · exact h
  · rename_i hc
    have hx : x ∉ l := by simpa using hc
    rw [List.nodup_append]
    refine ⟨h, by simp, ?_⟩
    intro a ha b hb
    have : b = x := by simpa using hb
    subst this
    intro hab
    subst hab
    exact hx ha

/-- the accumulation step of `findVars` -/
def varStep {α} (acc : List Str) (tk : Tok α) : List Str :=
  match tk with
  | .var n => pushNew acc n
  | _ => acc

theorem findVars_eq {α} (toks : List (Tok α)) :
    findVars toks = sortBy strLe (toks.foldl varStep []) := rfl

theorem nodup_foldl_varStep {α} (toks : List (Tok α)) (acc : List Str) (h : acc.Nodup) :
    (toks.foldl varStep acc).Nodup := by
  induction toks generalizing acc with
  | nil => exact h
  | cons tk rest ih =>
    simp only [List.foldl_cons]
    apply ih
    cases tk <;> simp only [varStep] <;> first | exact h | exact nodup_pushNew _ _ h

theorem mem_foldl_varStep {α} (toks : List (Tok α)) (acc : List Str) (x : Str) :
    x ∈ toks.foldl varStep acc ↔ x ∈ acc ∨ Tok.var x ∈ toks := by
  induction toks generalizing acc with
  | nil => simp
  | cons tk rest ih =>
    simp only [List.foldl_cons, ih, List.mem_cons]
    cases tk <;> simp [varStep, mem_pushNew, or_assoc]

theorem take_length_takeWhile {β} (p : β → Bool) (l : List β) :
    l.take (l.takeWhile p).length = l.takeWhile p := by
  induction l with
  | nil => rfl
  | cons x xs ih =>
    simp only [List.takeWhile_cons]
    split
    · simp [ih]
    · simp

/-! ### lexer helpers -/

/-- scanning `{x}…` for the closing brace stops right after `x` when `x` contains no `}` -/
theorem takeWhile_braced (x rest : Str) (hx : '}' ∉ x) :
    (('{' :: x ++ '}' :: rest).takeWhile (· != '}')) = '{' :: x := by
  have hx' : ∀ c ∈ x, (c != '}') = true := by
    intro c hc
    have : c ≠ '}' := fun h => hx (h ▸ hc)
    simpa using this
  have : ('{' :: x ++ '}' :: rest) = ('{' :: x) ++ '}' :: rest := rfl
  rw [this, List.takeWhile_append_of_pos]
  · simp
  · intro c hc
    rcases List.mem_cons.mp hc with rfl | hc
    · decide
    · exact hx' c hc

/-- an identifier start is none of the punctuation characters the tokenizer tests first -/
theorem identStart_not_punct (c : Char) (hc : isIdentStart c = true) :
    (c == '(') = false ∧ (c == ')') = false ∧ (c == ',') = false ∧ (c == '{') = false := by
  refine ⟨?_, ?_, ?_, ?_⟩ <;>
    (apply Bool.eq_false_iff.mpr; intro h; rw [beq_iff_eq] at h; subst h; revert hc; decide)

/-! ### `nodeValues` reads only in-range slots -/

theorem mapM_option_congr {β γ} (f g : β → Option γ) (l : List β) (h : ∀ x ∈ l, f x = g x) :
    l.mapM f = l.mapM g := by
  induction l with
  | nil => rfl
  | cons x xs ih =>
    simp only [List.mapM_cons]
    rw [h x List.mem_cons_self, ih (fun y hy => h y (List.mem_cons_of_mem _ hy))]

theorem nodeValues_take {α} (I : Interp α) (nodes : List (FlatNode α)) (vs : List α) (n : Nat)
    (hidx : ∀ nd ∈ nodes, ∀ i, nd.kind = .var i → i < n) :
    nodeValues I nodes (vs.take n) = nodeValues I nodes vs := by
  unfold nodeValues
  apply mapM_option_congr
  intro nd hnd
  cases hk : nd.kind with
  | num a => rfl
  | var i =>
    have hi := hidx nd hnd i hk
    simp only [List.getElem?_take, hi, if_true]

end Exmex
