/-
  C05/C09, structural layer: what `partial_deepex` preserves independently of values — the
  operators of the result have rules and belong to the table, every group lists duplicate-free
  variables among the top-level names, and the result lists exactly the variables of the operand.
  No arithmetic laws and no evaluation are involved.
-/
import Exmex.Proofs.DiffNoRule
namespace Exmex.Diff
open Exmex.C10 Exmex.C05 Exmex.Shortcut Exmex.CalcLemmas Exmex.DeepCompile Exmex.CompileSound

/-! ### a generic hereditary predicate on operators, unary chains, variable lists, variable names -/

mutual
def OpE {α} (PO : DBin → Prop) (PU : Nat → Prop) (Q : List Str → Prop) (V : Str → Prop) :
    DeepEx α → Prop
  | .mk nodes ops un vars => (∀ o ∈ ops, PO o) ∧ (∀ u ∈ un, PU u) ∧ Q vars ∧ opList PO PU Q V nodes
def OpN {α} (PO : DBin → Prop) (PU : Nat → Prop) (Q : List Str → Prop) (V : Str → Prop) :
    DeepNode α → Prop
  | .num _ => True
  | .var _ name => V name
  | .expr e => OpE PO PU Q V e
def opList {α} (PO : DBin → Prop) (PU : Nat → Prop) (Q : List Str → Prop) (V : Str → Prop) :
    List (DeepNode α) → Prop
  | [] => True
  | nd :: rest => OpN PO PU Q V nd ∧ opList PO PU Q V rest
end

section
variable {α : Type} (PO : DBin → Prop) (PU : Nat → Prop) (Q : List Str → Prop) (V : Str → Prop)

theorem opList_iff (l : List (DeepNode α)) : opList PO PU Q V l ↔ ∀ nd ∈ l, OpN PO PU Q V nd := by
  induction l with
  | nil => simp [opList]
  | cons nd rest ih => rw [opList, ih]; simp

theorem opN_num (a : α) : OpN PO PU Q V (DeepNode.num a) := by
  rw [OpN]; trivial

theorem opE_vars (e : DeepEx α) (h : OpE PO PU Q V e) : Q e.vars := by
  obtain ⟨nodes, ops, un, vars⟩ := e
  rw [OpE] at h
  exact h.2.2.1

theorem opE_nodes (e : DeepEx α) (h : OpE PO PU Q V e) : ∀ nd ∈ e.nodes, OpN PO PU Q V nd := by
  obtain ⟨nodes, ops, un, vars⟩ := e
  rw [OpE] at h
  exact (opList_iff PO PU Q V nodes).1 h.2.2.2

theorem lift_op :
    (∀ e : DeepEx α, OpE PO PU Q V e → OpE PO PU Q V e.liftNodes) ∧
    (∀ l : List (DeepNode α), opList PO PU Q V l → opList PO PU Q V (liftNodeList l)) ∧
    (∀ nd : DeepNode α, OpN PO PU Q V nd → OpN PO PU Q V nd.liftNode) := by
  apply DeepEx.liftNodes.mutual_induct
  · intro ops' vars' a _
    rw [DeepNode.liftNode]
    exact opN_num PO PU Q V a
  · intro ops' vars' i v h
    rw [OpN, OpE, opList, opList] at h
    rw [DeepNode.liftNode]
    exact h.2.2.2.1
  · intro ops' vars' ed ed' hc ih h
    rw [OpN, OpE, opList, OpN] at h
    rw [DeepNode.liftNode.eq_3, if_pos hc, OpN]
    exact ih h.2.2.2.1
  · intro ops' vars' ed ed' hc ih h
    rw [OpN, OpE, opList, OpN] at h
    rw [DeepNode.liftNode.eq_3, if_neg hc, OpN, OpE, opList, OpN]
    exact ⟨h.1, h.2.1, h.2.2.1, ih h.2.2.2.1, h.2.2.2.2⟩
  · intro other hne h
    rw [DeepNode.liftNode.eq_4 other hne]
    exact h
  · intro ops un vars e hc h
    rw [OpE, opList, OpN] at h
    rw [DeepEx.liftNodes.eq_1, if_pos hc]
    exact h.2.2.2.1
  · intro n ops un vars hc hne h
    have : (DeepEx.mk n ops un vars).liftNodes = DeepEx.mk n ops un vars := by
      rw [DeepEx.liftNodes.eq_def]
      simp only [hc, if_true]
    rw [this]
    exact h
  · intro n ops un vars hc ih h
    have : (DeepEx.mk n ops un vars).liftNodes = DeepEx.mk (liftNodeList n) ops un vars := by
      rw [DeepEx.liftNodes.eq_def]
      simp only [hc]
      rfl
    rw [this]
    rw [OpE] at h ⊢
    exact ⟨h.1, h.2.1, h.2.2.1, ih h.2.2.2⟩
  · intro _
    rw [liftNodeList, opList]; trivial
  · intro nd rest ih1 ih2 h
    rw [opList] at h
    rw [liftNodeList, opList]
    exact ⟨ih1 h.1, ih2 h.2⟩

theorem foldGroup_op (I : Interp α) (e1 e' : DeepEx α) (h : foldGroup I e1 = .ok e')
    (hg : OpE PO PU Q V e1) : OpE PO PU Q V e' ∧ e'.vars = e1.vars := by
  obtain ⟨hv, hn⟩ := foldGroup_nodes I _ _ h
  have hnodes := hn (OpN PO PU Q V) (opN_num PO PU Q V) (opE_nodes PO PU Q V _ hg)
  refine ⟨?_, hv⟩
  obtain ⟨nodes, ops, un, vars⟩ := e1
  rw [OpE] at hg
  have hops : ∀ used : List Nat, ∀ o ∈ (ops.zipIdx.filter (fun p => !used.contains p.2)).map (·.1),
      PO o := by
    intro used o ho
    rw [dops_filter_eq, List.mem_map] at ho
    obtain ⟨k, hk, rfl⟩ := ho
    have hk' := (mem_remOf.1 hk).1
    apply hg.1
    simp only [dopAt, List.getD_eq_getElem?_getD, List.getElem?_eq_getElem hk', Option.getD_some]
    exact List.getElem_mem hk'
  unfold foldGroup at h
  simp only [DeepEx.ops, DeepEx.nodes, DeepEx.un, DeepEx.vars] at h
  split at h
  · cases h
  · rename_i st hloop
    split at h
    · cases h
      rw [OpE, opList, opList, OpN]
      exact ⟨hops _, (fun _ hu => by cases hu), hg.2.2.1, trivial, trivial⟩
    · cases h
      rw [OpE]
      exact ⟨hops _, hg.2.1, hg.2.2.1, (opList_iff PO PU Q V _).2 hnodes⟩

theorem compile_op (I : Interp α) (e e' : DeepEx α) (h : e.compile I = .ok e')
    (hg : OpE PO PU Q V e) : OpE PO PU Q V e' ∧ e'.vars = e.liftNodes.vars := by
  rw [compile_eq] at h
  exact foldGroup_op PO PU Q V I _ _ h ((lift_op PO PU Q V).1 e hg)

/-- `lift_nodes` keeps the variable list of a literal or of a group with at least two nodes -/
theorem liftNodes_vars_wide : ∀ e : DeepEx α, Wide e.nodes → e.liftNodes.vars = e.vars
  | .mk nodes ops un vars, h => by
    rcases h with ⟨v, hv⟩ | h
    · simp only [DeepEx.nodes] at hv
      subst hv
      rw [DeepEx.liftNodes.eq_def]
      simp only []
      split <;> rfl
    · simp only [DeepEx.nodes] at h
      have hc : ¬ ((nodes.length == 1 && un.isEmpty) = true) := by
        simp; omega
      rw [DeepEx.liftNodes.eq_def]
      simp only [hc]
      rfl

end

mutual
theorem reset_op {α} (PO : DBin → Prop) (PU : Nat → Prop) (Q Q' : List Str → Prop) (V : Str → Prop)
    (all : List Str) (hq : Q' all) :
    ∀ e e' : DeepEx α, OpE PO PU Q V e → e.resetVars all = some e' → OpE PO PU Q' V e'
  | .mk nodes ops un vars, e', h, hr => by
    rw [OpE] at h
    rw [DeepEx.resetVars] at hr
    cases h1 : resetVarsList all nodes with
    | none => rw [h1] at hr; cases hr
    | some ns' =>
      rw [h1] at hr
      cases hr
      rw [OpE]
      exact ⟨h.1, h.2.1, hq, reset_op_list PO PU Q Q' V all hq nodes ns' h.2.2.2 h1⟩
theorem reset_op_node {α} (PO : DBin → Prop) (PU : Nat → Prop) (Q Q' : List Str → Prop)
    (V : Str → Prop) (all : List Str) (hq : Q' all) :
    ∀ nd nd' : DeepNode α, OpN PO PU Q V nd → nd.resetVarsNode all = some nd' → OpN PO PU Q' V nd'
  | .num a, nd', _, hr => by
    rw [DeepNode.resetVarsNode] at hr
    cases hr
    exact opN_num _ _ _ _ a
  | .var i nm, nd', h, hr => by
    rw [OpN] at h
    rw [DeepNode.resetVarsNode] at hr
    cases hj : all.idxOf? nm with
    | none => rw [hj] at hr; cases hr
    | some j =>
      rw [hj] at hr
      cases hr
      rw [OpN]
      exact h
  | .expr e, nd', h, hr => by
    rw [OpN] at h
    rw [DeepNode.resetVarsNode] at hr
    cases he : e.resetVars all with
    | none => rw [he] at hr; cases hr
    | some e' =>
      rw [he] at hr
      cases hr
      rw [OpN]
      exact reset_op PO PU Q Q' V all hq e e' h he
theorem reset_op_list {α} (PO : DBin → Prop) (PU : Nat → Prop) (Q Q' : List Str → Prop)
    (V : Str → Prop) (all : List Str) (hq : Q' all) :
    ∀ l l' : List (DeepNode α), opList PO PU Q V l → resetVarsList all l = some l' →
      opList PO PU Q' V l'
  | [], l', _, hr => by
    rw [resetVarsList] at hr
    cases hr
    rw [opList]; trivial
  | nd :: rest, l', h, hr => by
    rw [opList] at h
    rw [resetVarsList] at hr
    cases h1 : nd.resetVarsNode all with
    | none => rw [h1] at hr; simp at hr
    | some nd' =>
      cases h2 : resetVarsList all rest with
      | none => rw [h1, h2] at hr; simp at hr
      | some rest' =>
        rw [h1, h2] at hr
        simp only [] at hr
        cases hr
        rw [opList]
        exact ⟨reset_op_node PO PU Q Q' V all hq nd nd' h.1 h1,
          reset_op_list PO PU Q Q' V all hq rest rest' h.2 h2⟩
end

theorem resetVars_vars {α} (all : List Str) (e e' : DeepEx α) (h : e.resetVars all = some e') :
    e'.vars = all := by
  obtain ⟨nodes, ops, un, vars⟩ := e
  rw [DeepEx.resetVars] at h
  cases h1 : resetVarsList all nodes with
  | none => rw [h1] at h; cases h
  | some ns' => rw [h1] at h; cases h; rfl

/-! ### the table -/

theorem findOp_spec (t : Table) (repr : Str) (i : Nat) (h : findOp t repr = some i) :
    reprOf t i = repr := by
  unfold findOp at h
  rw [List.findIdx?_eq_some_iff_getElem] at h
  obtain ⟨hi, hp, -⟩ := h
  unfold reprOf
  rw [List.getElem?_eq_getElem hi]
  simpa using hp

theorem findBinOp_name (t : Table) (repr : Str) (op : DBin) (h : findBinOp t repr = .ok op) :
    reprOf t op.idx = repr := by
  unfold findBinOp at h
  cases hf : findOp t repr with
  | none => rw [hf] at h; cases h
  | some i =>
    rw [hf] at h
    simp only [] at h
    unfold tblBin at h
    cases hb : (t[i]?.bind (·.bin)) with
    | none => rw [hb] at h; cases h
    | some bb =>
      rw [hb] at h
      simp only [Option.map] at h
      cases h
      exact findOp_spec t repr i hf

theorem findUnaryOp_spec (t : Table) (repr : Str) (u : Nat) (h : findUnaryOp t repr = .ok u) :
    reprOf t u = repr ∧ tblHasUnary t u = true := by
  unfold findUnaryOp at h
  cases hf : findOp t repr with
  | none => rw [hf] at h; cases h
  | some i =>
    rw [hf] at h
    simp only [] at h
    split at h
    · rename_i hu
      cases h
      exact ⟨findOp_spec t repr u hf, hu⟩
    · cases h

/-! ### the structural invariant of the differentiation engine -/

section
variable {K : Type}

/-- the operator has one of the names with a binary rule, and satisfies `P` or is what `find_bin_op`
    returns for some name (`P`: a property of the operators of the operand one wants to carry along,
    e.g. the bounds on priorities) -/
abbrev PO (t : Table) (P : DBin → Prop) (o : DBin) : Prop :=
  String.ofList (reprOf t o.idx) ∈ binRuleNames ∧ (P o ∨ ∃ repr, findBinOp t repr = .ok o)
abbrev PU (t : Table) (u : Nat) : Prop :=
  String.ofList (reprOf t u) ∈ unRuleNames ∧ tblHasUnary t u = true
abbrev QV (T : List Str) (vs : List Str) : Prop := vs.Nodup ∧ ∀ x ∈ vs, x ∈ T
abbrev VT (T : List Str) (nm : Str) : Prop := nm ∈ T

/-- all operators have rules and belong to the table, all groups list duplicate-free variables
    among `T`, all variable nodes are named in `T` -/
def SI (t : Table) (P : DBin → Prop) (T : List Str) (e : DeepEx K) : Prop :=
  OpE (PO t P) (PU t) (QV T) (VT T) e

theorem SI.nodup {t : Table} {P : DBin → Prop} {T : List Str} {e : DeepEx K} (h : SI t P T e) : e.vars.Nodup :=
  (opE_vars _ _ _ _ e h).1
theorem SI.sub {t : Table} {P : DBin → Prop} {T : List Str} {e : DeepEx K} (h : SI t P T e) : ∀ x ∈ e.vars, x ∈ T :=
  (opE_vars _ _ _ _ e h).2

theorem si_lit (t : Table) (P : DBin → Prop) (T : List Str) (x : K) (vs : List Str) (hq : QV T vs) :
    SI t P T (DeepEx.mk [.num x] [] [] vs) := by
  unfold SI
  rw [OpE, opList, opList, OpN]
  exact ⟨(fun _ h => by cases h), (fun _ h => by cases h), hq, trivial, trivial⟩

theorem qv_nil (T : List Str) : QV T [] := ⟨List.nodup_nil, fun _ h => by cases h⟩

theorem si_un_change (t : Table) (P : DBin → Prop) (T : List Str) (nodes : List (DeepNode K)) (ops : List DBin)
    (us us' : List Nat) (vars : List Str) (h : SI t P T (DeepEx.mk nodes ops us vars))
    (hsub : ∀ u ∈ us', u ∈ us) : SI t P T (DeepEx.mk nodes ops us' vars) := by
  unfold SI at h ⊢
  rw [OpE] at h ⊢
  exact ⟨h.1, fun u hu => h.2.1 u (hsub u hu), h.2.2⟩

end

section
variable {K : Type} (I : Interp K) (C : CalcOps K) (t : Table) (P : DBin → Prop) (T : List Str)

/-- `var_names_union`, structurally -/
theorem s_union (a b a' b' : DeepEx K) (ha : SI t P T a) (hb : SI t P T b)
    (hu : varNamesUnion a b = .ok (a', b')) :
    SI t P T a' ∧ SI t P T b' ∧ a'.vars = unionVars a.vars b.vars ∧ b'.vars = unionVars a.vars b.vars ∧
      (unionVars a.vars b.vars).Pairwise (fun x y => strLt x y = true) ∧
      QV T (unionVars a.vars b.vars) := by
  obtain ⟨hnd, hstrict, -, -⟩ := union_facts a.vars b.vars ha.nodup
  change (unionVars a.vars b.vars).Nodup at hnd
  change (unionVars a.vars b.vars).Pairwise _ at hstrict
  have hq : QV T (unionVars a.vars b.vars) := by
    refine ⟨hnd, ?_⟩
    intro x hx
    rw [mem_unionVars] at hx
    rcases hx with hx | hx
    · exact ha.sub x hx
    · exact hb.sub x hx
  unfold varNamesUnion at hu
  simp only [] at hu
  change (match a.resetVars (unionVars a.vars b.vars), b.resetVars (unionVars a.vars b.vars) with
    | some a', some b' => Except.ok (a', b')
    | _, _ => Except.error (Fail.panic "deep.rs:reset_vars unwrap")) = _ at hu
  cases h1 : a.resetVars (unionVars a.vars b.vars) with
  | none => rw [h1] at hu; cases hu
  | some a1 =>
    cases h2 : b.resetVars (unionVars a.vars b.vars) with
    | none => rw [h1, h2] at hu; cases hu
    | some b1 =>
      rw [h1, h2] at hu
      cases hu
      exact ⟨reset_op _ _ _ _ _ _ hq a a' ha h1, reset_op _ _ _ _ _ _ hq b b' hb h2,
        resetVars_vars _ a a' h1, resetVars_vars _ b b' h2, hstrict, hq⟩

/-- `operate_bin` with one of the names with a binary rule, structurally -/
theorem s_operateBin (a b r : DeepEx K) (repr : Str)
    (hname : String.ofList repr ∈ binRuleNames) (ha : SI t P T a) (hb : SI t P T b)
    (h : a.operateBin I t b repr = .ok r) :
    SI t P T r ∧ r.vars = unionVars a.vars b.vars := by
  unfold DeepEx.operateBin at h
  split at h
  · cases h
  rename_i op hop
  have hpo : PO t P op := by
    refine ⟨?_, .inr ⟨repr, hop⟩⟩
    rw [findBinOp_name t repr op hop]
    exact hname
  unfold operateBinOp at h
  split at h
  · cases h
  rename_i a' b' hu
  obtain ⟨sa, sb, av, bv, hstrict, hq⟩ := s_union t P T a b a' b' ha hb hu
  split at h
  · cases h
  rename_i r0 h0
  rw [new_eq_compile I _ _ _ rfl] at h0
  have hfound := foundVars_two a' b' _ av bv hstrict
  have s0 : SI t P T (DeepEx.mk [.expr a', .expr b'] [op] [] (foundVars [.expr a', .expr b'])) := by
    rw [hfound]
    unfold SI
    rw [OpE, opList, opList, opList, OpN, OpN]
    refine ⟨?_, (fun _ h => by cases h), hq, sa, sb, trivial⟩
    intro o ho
    rw [List.mem_singleton] at ho
    subst ho
    exact hpo
  obtain ⟨s1, v1⟩ := compile_op _ _ _ _ I _ r0 h0 s0
  rw [liftNodes_vars_wide _ (Or.inr (by simp [DeepEx.nodes]))] at v1
  have w0 : Wide r0.nodes := compile_wide I _ r0 h0 (Or.inr (by simp [DeepEx.nodes]))
  obtain ⟨s2, v2⟩ := compile_op _ _ _ _ I r0 r h s1
  rw [liftNodes_vars_wide r0 w0, v1] at v2
  exact ⟨s2, v2.trans hfound⟩

/-- `operate_unary` with a name that has an outer rule, structurally -/
theorem s_operateUnary (a r : DeepEx K) (repr : Str) (hname : String.ofList repr ∈ unRuleNames)
    (ha : SI t P T a) (h : a.operateUnary I t repr = .ok r) : SI t P T r ∧ r.vars = a.vars := by
  unfold DeepEx.operateUnary at h
  split at h
  · cases h
  rename_i u hu
  obtain ⟨hr, htu⟩ := findUnaryOp_spec t repr u hu
  obtain ⟨nodes, ops, un, vars⟩ := a
  simp only [DeepEx.nodes, DeepEx.ops, DeepEx.un, DeepEx.vars] at h ⊢
  have s0 : SI t P T (DeepEx.mk nodes ops (u :: un) vars) := by
    unfold SI at ha ⊢
    rw [OpE] at ha ⊢
    refine ⟨ha.1, ?_, ha.2.2⟩
    intro v hv
    rcases List.mem_cons.1 hv with rfl | hv
    · exact ⟨by rw [hr]; exact hname, htu⟩
    · exact ha.2.1 v hv
  obtain ⟨s1, v1⟩ := compile_op _ _ _ _ I _ r h s0
  rw [liftNodes_vars_of_un] at v1
  exact ⟨s1, v1⟩

theorem s_add (a b r : DeepEx K) (ha : SI t P T a) (hb : SI t P T b) (h : a.add I C t b = .ok r) :
    SI t P T r ∧ r.vars = unionVars a.vars b.vars := by
  unfold DeepEx.add at h
  split at h
  · cases h
  rename_i s1 s2 hu
  obtain ⟨sa, sb, av, bv, hstrict, hq⟩ := s_union t P T a b s1 s2 ha hb hu
  split at h
  · cases h; exact ⟨sb, bv⟩
  split at h
  · cases h; exact ⟨sa, av⟩
  obtain ⟨sr, vr⟩ := s_operateBin I t P T s1 s2 r _ (by decide) sa sb h
  rw [av, bv, unionVars_self _ hstrict] at vr
  exact ⟨sr, vr⟩

theorem s_mul (a b r : DeepEx K) (ha : SI t P T a) (hb : SI t P T b) (h : a.mul I C t b = .ok r) :
    SI t P T r ∧ r.vars = unionVars a.vars b.vars := by
  unfold DeepEx.mul at h
  split at h
  · cases h
  rename_i s1 s2 hu
  obtain ⟨sa, sb, av, bv, hstrict, hq⟩ := s_union t P T a b s1 s2 ha hb hu
  split at h
  · rw [zeroLike_eq, av] at h
    cases h
    exact ⟨si_lit t P T _ _ hq, rfl⟩
  split at h
  · cases h; exact ⟨sb, bv⟩
  split at h
  · cases h; exact ⟨sa, av⟩
  obtain ⟨sr, vr⟩ := s_operateBin I t P T s1 s2 r _ (by decide) sa sb h
  rw [av, bv, unionVars_self _ hstrict] at vr
  exact ⟨sr, vr⟩

theorem s_div (a b r : DeepEx K) (ha : SI t P T a) (hb : SI t P T b) (h : a.div I C t b = .ok r) :
    SI t P T r ∧ r.vars = unionVars a.vars b.vars := by
  unfold DeepEx.div at h
  split at h
  · cases h
  rename_i s1 s2 hu
  obtain ⟨sa, sb, av, bv, hstrict, hq⟩ := s_union t P T a b s1 s2 ha hb hu
  split at h
  · rw [zeroLike_eq, av] at h
    cases h
    exact ⟨si_lit t P T _ _ hq, rfl⟩
  split at h
  · cases h; exact ⟨sa, av⟩
  obtain ⟨sr, vr⟩ := s_operateBin I t P T s1 s2 r _ (by decide) sa sb h
  rw [av, bv, unionVars_self _ hstrict] at vr
  exact ⟨sr, vr⟩

theorem s_pow (a b r : DeepEx K) (ha : SI t P T a) (hb : SI t P T b) (h : a.pow I C t b = .ok r) :
    SI t P T r ∧ r.vars = unionVars a.vars b.vars := by
  unfold DeepEx.pow at h
  split at h
  · cases h
  rename_i s1 s2 hu
  obtain ⟨sa, sb, av, bv, hstrict, hq⟩ := s_union t P T a b s1 s2 ha hb hu
  split at h
  · cases h
  split at h
  · rw [zeroLike_eq, av] at h
    cases h
    exact ⟨si_lit t P T _ _ hq, rfl⟩
  split at h
  · rw [oneLike_eq, av] at h
    cases h
    exact ⟨si_lit t P T _ _ hq, rfl⟩
  split at h
  · cases h; exact ⟨sa, av⟩
  obtain ⟨sr, vr⟩ := s_operateBin I t P T s1 s2 r _ (by decide) sa sb h
  rw [av, bv, unionVars_self _ hstrict] at vr
  exact ⟨sr, vr⟩

theorem s_sub (a b r : DeepEx K) (ha : SI t P T a) (hb : SI t P T b) (h : a.sub I t b = .ok r) :
    SI t P T r ∧ r.vars = unionVars a.vars b.vars :=
  s_operateBin I t P T a b r _ (by decide) ha hb h

theorem s_neg (a r : DeepEx K) (ha : SI t P T a) (h : a.neg I t = .ok r) : SI t P T r ∧ r.vars = a.vars :=
  s_operateUnary I t P T a r _ (by decide) ha h

end

/-! ### fullness: every nested group carries the variable list of the expression -/

section
variable {K : Type}

abbrev TT {β : Type} : β → Prop := fun _ => True

mutual
theorem opE_trivial : ∀ e : DeepEx K, OpE (TT) (TT) (TT) (TT) e
  | .mk nodes ops un vars => by
    rw [OpE]
    exact ⟨fun _ _ => trivial, fun _ _ => trivial, trivial, opList_trivial nodes⟩
theorem opList_trivial : ∀ l : List (DeepNode K), opList (TT) (TT) (TT) (TT) l
  | [] => by rw [opList]; trivial
  | nd :: rest => by
    rw [opList]
    refine ⟨?_, opList_trivial rest⟩
    cases nd with
    | num a => rw [OpN]; trivial
    | var j nm => rw [OpN]; trivial
    | expr e => rw [OpN]; exact opE_trivial e
end

/-- all groups of `e`, at any depth, carry `vs` -/
def FullOf (vs : List Str) (e : DeepEx K) : Prop := OpE (TT) (TT) (fun l => l = vs) (TT) e
/-- all groups of `e` carry `e.vars` -/
def Full (e : DeepEx K) : Prop := FullOf e.vars e

theorem fullOf_vars (vs : List Str) (e : DeepEx K) (h : FullOf vs e) : e.vars = vs :=
  opE_vars _ _ _ _ e h

theorem fullOf_reset (all : List Str) (e e' : DeepEx K) (h : e.resetVars all = some e') :
    FullOf all e' :=
  reset_op TT TT TT (fun l => l = all) TT all rfl e e' (opE_trivial e) h

theorem fullOf_lit (x : K) (vs : List Str) : FullOf vs (DeepEx.mk [.num x] [] [] vs) := by
  unfold FullOf
  rw [OpE, opList, opList, OpN]
  exact ⟨fun _ _ => trivial, fun _ _ => trivial, rfl, trivial, trivial⟩

/-- `lift_nodes` keeps the variable list of a full expression -/
theorem liftNodes_vars_full : ∀ e : DeepEx K, Full e → e.liftNodes.vars = e.vars
  | .mk nodes ops un vars, h => by
    rw [DeepEx.liftNodes.eq_def]
    simp only []
    split
    · split
      · rename_i e _
        unfold Full FullOf at h
        rw [OpE, opList, OpN] at h
        exact opE_vars _ _ _ _ e h.2.2.2.1
      · rfl
    · rfl

end

section
variable {K : Type} (I : Interp K) (C : CalcOps K) (t : Table)

theorem union_full (a b a' b' : DeepEx K) (hu : varNamesUnion a b = .ok (a', b')) :
    FullOf (unionVars a.vars b.vars) a' ∧ FullOf (unionVars a.vars b.vars) b' := by
  unfold varNamesUnion at hu
  simp only [] at hu
  change (match a.resetVars (unionVars a.vars b.vars), b.resetVars (unionVars a.vars b.vars) with
    | some a', some b' => Except.ok (a', b')
    | _, _ => Except.error (Fail.panic "deep.rs:reset_vars unwrap")) = _ at hu
  cases h1 : a.resetVars (unionVars a.vars b.vars) with
  | none => rw [h1] at hu; cases hu
  | some a1 =>
    cases h2 : b.resetVars (unionVars a.vars b.vars) with
    | none => rw [h1, h2] at hu; cases hu
    | some b1 =>
      rw [h1, h2] at hu
      cases hu
      exact ⟨fullOf_reset _ a a' h1, fullOf_reset _ b b' h2⟩

/-- the result of `operate_bin` is full -/
theorem operateBin_full (a b r : DeepEx K) (repr : Str) (hnd : a.vars.Nodup)
    (h : a.operateBin I t b repr = .ok r) : FullOf (unionVars a.vars b.vars) r := by
  obtain ⟨-, hstrict, -, -⟩ := union_facts a.vars b.vars hnd
  change (unionVars a.vars b.vars).Pairwise _ at hstrict
  unfold DeepEx.operateBin at h
  split at h
  · cases h
  rename_i op hop
  unfold operateBinOp at h
  split at h
  · cases h
  rename_i a' b' hu
  obtain ⟨fa, fb⟩ := union_full a b a' b' hu
  split at h
  · cases h
  rename_i r0 h0
  rw [new_eq_compile I _ _ _ rfl] at h0
  have hfound := foundVars_two a' b' _ (fullOf_vars _ _ fa) (fullOf_vars _ _ fb) hstrict
  have s0 : FullOf (unionVars a.vars b.vars)
      (DeepEx.mk [.expr a', .expr b'] [op] [] (foundVars [.expr a', .expr b'])) := by
    rw [hfound]
    unfold FullOf
    rw [OpE, opList, opList, opList, OpN, OpN]
    exact ⟨fun _ _ => trivial, fun _ _ => trivial, rfl, fa, fb, trivial⟩
  obtain ⟨s1, -⟩ := compile_op _ _ _ _ I _ r0 h0 s0
  exact (compile_op _ _ _ _ I r0 r h s1).1

theorem mul_full (a b r : DeepEx K) (hnd : a.vars.Nodup) (h : a.mul I C t b = .ok r) : Full r := by
  obtain ⟨-, hstrict, -, -⟩ := union_facts a.vars b.vars hnd
  change (unionVars a.vars b.vars).Pairwise _ at hstrict
  unfold DeepEx.mul at h
  split at h
  · cases h
  rename_i s1 s2 hu
  obtain ⟨f1, f2⟩ := union_full a b s1 s2 hu
  have v1 := fullOf_vars _ _ f1
  have v2 := fullOf_vars _ _ f2
  unfold Full
  split at h
  · rw [zeroLike_eq] at h
    cases h
    exact fullOf_lit _ _
  split at h
  · cases h; rw [v2]; exact f2
  split at h
  · cases h; rw [v1]; exact f1
  have := operateBin_full I t s1 s2 r _ (by rw [v1]; exact nodup_of_strict _ hstrict) h
  rw [v1, v2, unionVars_self _ hstrict] at this
  rw [fullOf_vars _ _ this]
  exact this

end

/-! ### the rules, structurally -/

section
variable {K : Type} (I : Interp K) (C : CalcOps K) (t : Table) (P : DBin → Prop) (T : List Str)

theorem si_litc (x : K) : SI t P T (lit x) := si_lit t P T x [] (qv_nil T)

theorem si_without (f x : DeepEx K) (hf : SI t P T f) (hx : f.withoutLatestUnary = .ok x) :
    SI t P T x := by
  obtain ⟨nodes, ops, un, vars⟩ := f
  unfold DeepEx.withoutLatestUnary at hx
  simp only [DeepEx.un, DeepEx.nodes, DeepEx.ops, DeepEx.vars] at hx
  split at hx
  · cases hx
  · rename_i u rest
    cases hx
    exact si_un_change t P T nodes ops _ rest vars hf (fun v hv => List.mem_cons_of_mem _ hv)

theorem binRule_si (name : String) (hname : name ∈ binRuleNames) (f g pd : ValDer K)
    (hfv : SI t P T f.val) (hfd : SI t P T f.der) (hgv : SI t P T g.val) (hgd : SI t P T g.der)
    (h : binRule I C t name f g = .ok pd) : SI t P T pd.val ∧ SI t P T pd.der := by
  have hname' : String.ofList name.toList ∈ binRuleNames := by rw [String.ofList_toList]; exact hname
  by_cases hcmp : name ∈ [">", "<", "!=", "==", "<=", ">="]
  · rw [binRule_cmp I C t name hcmp] at h
    split at h
    · rename_i v d h1 h2
      cases h
      exact ⟨(s_operateBin I t P T _ _ _ _ hname' hfv hgv h1).1,
        (s_operateBin I t P T _ _ _ _ hname' hfv hgv h2).1⟩
    · cases h
    · cases h
  by_cases hpw : name ∈ ["if", "else"]
  · rw [binRule_pw I C t name hpw] at h
    split at h
    · rename_i v d h1 h2
      cases h
      exact ⟨(s_operateBin I t P T _ _ _ _ hname' hfv hgv h1).1,
        (s_operateBin I t P T _ _ _ _ hname' hfd hgd h2).1⟩
    · cases h
    · cases h
  have hname : name ∈ ["+", "-", "*", "/", "^"] := by
    simp only [binRuleNames, List.mem_cons, List.not_mem_nil, or_false] at hname hcmp hpw ⊢
    grind
  simp only [List.mem_cons, List.not_mem_nil, or_false] at hname
  rcases hname with rfl | rfl | rfl | rfl | rfl
  · rw [binRule_add] at h
    split at h
    · rename_i v d h1 h2
      cases h
      exact ⟨(s_add I C t P T _ _ _ hfv hgv h1).1, (s_add I C t P T _ _ _ hfd hgd h2).1⟩
    · cases h
    · cases h
  · rw [binRule_sub] at h
    split at h
    · rename_i v d h1 h2
      cases h
      exact ⟨(s_sub I t P T _ _ _ hfv hgv h1).1, (s_sub I t P T _ _ _ hfd hgd h2).1⟩
    · cases h
    · cases h
  · rw [binRule_mul] at h
    split at h
    · cases h
    rename_i val hval
    split at h
    · cases h
    rename_i d1 hd1
    split at h
    · cases h
    rename_i d2 hd2
    split at h
    · cases h
    rename_i der hder
    cases h
    have r1 := (s_mul I C t P T _ _ _ hgv hfd hd1).1
    have r2 := (s_mul I C t P T _ _ _ hgd hfv hd2).1
    exact ⟨(s_mul I C t P T _ _ _ hfv hgv hval).1, (s_add I C t P T _ _ _ r1 r2 hder).1⟩
  · rw [binRule_div] at h
    split at h
    · cases h
    rename_i val hval
    split at h
    · cases h
    rename_i n1 hn1
    split at h
    · cases h
    rename_i n2 hn2
    split at h
    · cases h
    rename_i num hnum
    split at h
    · cases h
    rename_i den hden
    split at h
    · cases h
    rename_i der hder
    cases h
    have r1 := (s_mul I C t P T _ _ _ hfd hgv hn1).1
    have r2 := (s_mul I C t P T _ _ _ hgd hfv hn2).1
    have r3 := (s_sub I t P T _ _ _ r1 r2 hnum).1
    have r4 := (s_mul I C t P T _ _ _ hgv hgv hden).1
    exact ⟨(s_div I C t P T _ _ _ hfv hgv hval).1, (s_div I C t P T _ _ _ r3 r4 hder).1⟩
  · rw [binRule_pow] at h
    split at h
    · cases h
    rename_i one hone
    split at h
    · cases h
    rename_i val hval
    split at h
    · cases h
    rename_i gm1 hgm1
    split at h
    · cases h
    rename_i p1 hp1
    split at h
    · cases h
    rename_i p2 hp2
    split at h
    · cases h
    rename_i der1 hder1
    split at h
    · cases h
    rename_i lnf hlnf
    split at h
    · cases h
    rename_i q1 hq1
    split at h
    · cases h
    rename_i der2 hder2
    split at h
    · cases h
    rename_i der hder
    cases h
    rw [fromNum_eq] at hone
    cases hone
    have rone := si_litc t P T C.one
    have rval := (s_pow I C t P T _ _ _ hfv hgv hval).1
    have rgm1 := (s_sub I t P T _ _ _ hgv rone hgm1).1
    have rp1 := (s_pow I C t P T _ _ _ hfv rgm1 hp1).1
    have rp2 := (s_mul I C t P T _ _ _ rp1 hgv hp2).1
    have rder1 := (s_mul I C t P T _ _ _ rp2 hfd hder1).1
    have rlnf := (s_operateUnary I t P T _ _ _ (by decide) hfv hlnf).1
    have rq1 := (s_mul I C t P T _ _ _ rval rlnf hq1).1
    have rder2 := (s_mul I C t P T _ _ _ rq1 hgd hder2).1
    exact ⟨rval, (s_add I C t P T _ _ _ rder1 rder2 hder).1⟩

theorem logDeri_si (f r : DeepEx K) (base : Option K) (hf : SI t P T f)
    (h : logDeri I C t f base = .ok r) : SI t P T r := by
  have rone := si_litc (K := K) t P T C.one
  unfold logDeri at h
  split at h
  · rename_i x one hx hone
    rw [fromNum_eq] at hone
    cases hone
    have rx := si_without t P T f x hf hx
    cases base with
    | none => exact (s_div I C t P T _ _ _ rone rx h).1
    | some b =>
      simp only [fromNum_eq] at h
      split at h
      · cases h
      rename_i lnb hlnb
      split at h
      · cases h
      rename_i den hden
      have r1 := (s_operateUnary I t P T _ _ _ (by decide) (si_litc t P T b) hlnb).1
      have r2 := (s_mul I C t P T _ _ _ rx r1 hden).1
      exact (s_div I C t P T _ _ _ rone r2 h).1
  · cases h
  · cases h

theorem unRule_si (name : String) (hname : name ∈ unRuleNames) (f r : DeepEx K) (hf : SI t P T f)
    (h : unRule I C t name f = .ok r) : SI t P T r := by
  have rone := si_litc (K := K) t P T C.one
  have rtwo := si_litc (K := K) t P T C.two
  simp only [unRuleNames, List.mem_cons, List.not_mem_nil, or_false] at hname
  rcases hname with rfl | rfl | rfl | rfl | rfl | rfl | rfl | rfl | rfl | rfl | rfl | rfl | rfl | rfl |
    rfl | rfl | rfl | rfl | rfl | rfl
  · rw [unRule_plus] at h
    cases h
    exact rone
  · rw [unRule_neg] at h
    exact (s_neg I t P T _ _ rone h).1
  · rw [unRule_sqrt] at h
    split at h
    · cases h
    rename_i d hd
    exact (s_div I C t P T _ _ _ rone (s_mul I C t P T _ _ _ rtwo hf hd).1 h).1
  · rw [unRule_ln] at h
    exact logDeri_si I C t P T f r _ hf h
  · rw [unRule_log] at h
    exact logDeri_si I C t P T f r _ hf h
  · rw [unRule_log10] at h
    exact logDeri_si I C t P T f r _ hf h
  · rw [unRule_log2] at h
    exact logDeri_si I C t P T f r _ hf h
  · rw [unRule_exp] at h
    cases h
    exact hf
  · rw [unRule_sin] at h
    split at h
    · cases h
    rename_i x hx
    exact (s_operateUnary I t P T _ _ _ (by decide) (si_without t P T f x hf hx) h).1
  · rw [unRule_cos] at h
    split at h
    · cases h
    rename_i x hx
    split at h
    · cases h
    rename_i s hs
    have r1 := (s_operateUnary I t P T _ _ _ (by decide) (si_without t P T f x hf hx) hs).1
    exact (s_neg I t P T _ _ r1 h).1
  · rw [unRule_tan] at h
    split at h
    · cases h
    rename_i x hx
    split at h
    · cases h
    rename_i c hc
    split at h
    · cases h
    rename_i c2 hc2
    have r1 := (s_operateUnary I t P T _ _ _ (by decide) (si_without t P T f x hf hx) hc).1
    have r2 := (s_pow I C t P T _ _ _ r1 rtwo hc2).1
    exact (s_div I C t P T _ _ _ rone r2 h).1
  · rw [unRule_asin] at h
    split at h
    · cases h
    rename_i x hx
    split at h
    · cases h
    rename_i x2 hx2
    split at h
    · cases h
    rename_i d hd
    split at h
    · cases h
    rename_i sd hsd
    have r1 := (s_pow I C t P T _ _ _ (si_without t P T f x hf hx) rtwo hx2).1
    have r2 := (s_sub I t P T _ _ _ rone r1 hd).1
    have r3 := (s_operateUnary I t P T _ _ _ (by decide) r2 hsd).1
    exact (s_div I C t P T _ _ _ rone r3 h).1
  · rw [unRule_acos] at h
    split at h
    · cases h
    rename_i x hx
    split at h
    · cases h
    rename_i x2 hx2
    split at h
    · cases h
    rename_i d hd
    split at h
    · cases h
    rename_i sd hsd
    split at h
    · cases h
    rename_i q hq
    have r1 := (s_pow I C t P T _ _ _ (si_without t P T f x hf hx) rtwo hx2).1
    have r2 := (s_sub I t P T _ _ _ rone r1 hd).1
    have r3 := (s_operateUnary I t P T _ _ _ (by decide) r2 hsd).1
    have r4 := (s_div I C t P T _ _ _ rone r3 hq).1
    exact (s_neg I t P T _ _ r4 h).1
  · rw [unRule_atan] at h
    split at h
    · cases h
    rename_i x hx
    split at h
    · cases h
    rename_i x2 hx2
    split at h
    · cases h
    rename_i d hd
    have r1 := (s_pow I C t P T _ _ _ (si_without t P T f x hf hx) rtwo hx2).1
    have r2 := (s_add I C t P T _ _ _ rone r1 hd).1
    exact (s_div I C t P T _ _ _ rone r2 h).1
  · rw [unRule_sinh] at h
    split at h
    · cases h
    rename_i x hx
    exact (s_operateUnary I t P T _ _ _ (by decide) (si_without t P T f x hf hx) h).1
  · rw [unRule_cosh] at h
    split at h
    · cases h
    rename_i x hx
    exact (s_operateUnary I t P T _ _ _ (by decide) (si_without t P T f x hf hx) h).1
  · rw [unRule_tanh] at h
    split at h
    · cases h
    rename_i x hx
    split at h
    · cases h
    rename_i th hth
    split at h
    · cases h
    rename_i th2 hth2
    have r1 := (s_operateUnary I t P T _ _ _ (by decide) (si_without t P T f x hf hx) hth).1
    have r2 := (s_pow I C t P T _ _ _ r1 rtwo hth2).1
    exact (s_sub I t P T _ _ _ rone r2 h).1
  · rw [unRule_asinh] at h
    split at h
    · cases h
    rename_i x hx
    split at h
    · cases h
    rename_i x2 hx2
    split at h
    · cases h
    rename_i d hd
    split at h
    · cases h
    rename_i sd hsd
    have r1 := (s_pow I C t P T _ _ _ (si_without t P T f x hf hx) rtwo hx2).1
    have r2 := (s_add I C t P T _ _ _ rone r1 hd).1
    have r3 := (s_operateUnary I t P T _ _ _ (by decide) r2 hsd).1
    exact (s_div I C t P T _ _ _ rone r3 h).1
  · rw [unRule_acosh] at h
    split at h
    · cases h
    rename_i x hx
    have rx := si_without t P T f x hf hx
    split at h
    · rename_i a1 b1 ha1 hb1
      split at h
      · rename_i sa sb hsa hsb
        split at h
        · cases h
        rename_i d hd
        have r1 := (s_sub I t P T _ _ _ rx rone ha1).1
        have r2 := (s_add I C t P T _ _ _ rx rone hb1).1
        have r3 := (s_operateUnary I t P T _ _ _ (by decide) r1 hsa).1
        have r4 := (s_operateUnary I t P T _ _ _ (by decide) r2 hsb).1
        have r5 := (s_mul I C t P T _ _ _ r3 r4 hd).1
        exact (s_div I C t P T _ _ _ rone r5 h).1
      · cases h
      · cases h
    · cases h
    · cases h
  · rw [unRule_atanh] at h
    split at h
    · cases h
    rename_i x hx
    split at h
    · cases h
    rename_i x2 hx2
    split at h
    · cases h
    rename_i d hd
    have r1 := (s_pow I C t P T _ _ _ (si_without t P T f x hf hx) rtwo hx2).1
    have r2 := (s_sub I t P T _ _ _ rone r1 hd).1
    exact (s_div I C t P T _ _ _ rone r2 h).1

end

/-! ### the engine, structurally -/

section
variable {K : Type} (I : Interp K) (C : CalcOps K) (t : Table) (P : DBin → Prop) (T : List Str) (i : Nat)

theorem go_si (e : DeepEx K) (he : SI t P T e) : ∀ (rest : List Nat) (idx : Nat) (acc r : DeepEx K),
    SI t P T acc → partialOuter.go I C t e rest idx acc = .ok r → SI t P T r := by
  intro rest
  induction rest with
  | nil =>
    intro idx acc r hacc h
    rw [partialOuter.go] at h
    cases h
    exact hacc
  | cons u rest' ih =>
    intro idx acc r hacc h
    rw [partialOuter.go] at h
    split at h
    · cases h
    rename_i hc
    split at h
    · cases h
    rename_i factor hfac
    split at h
    · cases h
    rename_i acc' hacc'
    have hname : String.ofList (reprOf t u) ∈ unRuleNames := by simpa using hc
    have hd : SI t P T (dropUnaries e idx) := by
      obtain ⟨nodes, ops, us, vars⟩ := e
      exact si_un_change t P T nodes ops us _ vars he (fun v hv => List.mem_of_mem_drop hv)
    have hf := unRule_si I C t P T _ hname _ factor hd hfac
    exact ih (idx + 1) acc' r (s_mul I C t P T _ _ _ hf hacc hacc').1 h

theorem reducePairs_si (ops : List DBin) (hops : ∀ o ∈ ops, PO t P o) :
    ∀ (bs ns : List Nat) (nodes final : List (ValDer K)),
      (∀ vd ∈ nodes, SI t P T vd.val ∧ SI t P T vd.der) →
      reducePairs I C t bs ns nodes ops = .ok final →
      ∀ vd ∈ final, SI t P T vd.val ∧ SI t P T vd.der := by
  intro bs
  induction bs with
  | nil =>
    intro ns nodes final hn h
    rw [reducePairs] at h
    cases h
    exact hn
  | cons b bs ih =>
    intro ns nodes final hn h
    cases ns with
    | nil => rw [reducePairs] at h; cases h
    | cons n ns =>
      rw [reducePairs] at h
      split at h
      · rename_i f g op hf hg hop
        simp only [] at h
        split at h
        · cases h
        split at h
        · cases h
        rename_i pd hpd
        have hfm := hn f (List.mem_of_getElem? hf)
        have hgm := hn g (List.mem_of_getElem? hg)
        have hpdm := binRule_si I C t P T _ (hops op (List.mem_of_getElem? hop)).1 f g pd hfm.1 hfm.2
          hgm.1 hgm.2 hpd
        refine ih _ _ final ?_ h
        intro vd hvd
        rcases List.mem_or_eq_of_mem_set (List.mem_of_mem_eraseIdx hvd) with h' | h'
        · exact hn vd h'
        · rw [h']; exact hpdm
      · cases h

def SPD (fuel : Nat) : Prop :=
  ∀ (e e' : DeepEx K), SI t P T e → partialDeepex I C t i fuel e = .ok e' →
    SI t P T e' ∧ (∀ y ∈ e.vars, y ∈ e'.vars) ∧ e'.vars.Pairwise (fun x y => strLt x y = true) ∧
      Full e'

def SPI (fuel : Nat) : Prop :=
  ∀ (e e' : DeepEx K), SI t P T e → partialInner I C t i fuel e = .ok e' →
    SI t P T e' ∧ (∀ y ∈ e.vars, y ∈ e'.vars)

def SVD (fuel : Nat) : Prop :=
  ∀ (nodes : List (DeepNode K)) (vds : List (ValDer K)),
    (∀ nd ∈ nodes, OpN (PO t P) (PU t) (QV T) (VT T) nd) → valDers I C t i fuel nodes = .ok vds →
    ∀ vd ∈ vds, SI t P T vd.val ∧ SI t P T vd.der

theorem spd_step (fuel : Nat) (hPI : SPI I C t P T i fuel) : SPD I C t P T i (fuel + 1) := by
  intro e e' he h
  rw [partialDeepex] at h
  split at h
  · cases h
  rename_i inner hin
  split at h
  · cases h
  rename_i outer hout
  obtain ⟨sin, vin⟩ := hPI e inner he hin
  unfold partialOuter at hout
  rw [fromNum_eq] at hout
  have sout := go_si I C t P T e he e.un 0 _ outer (si_litc t P T C.one) hout
  obtain ⟨sr, vr⟩ := s_mul I C t P T _ _ _ sin sout h
  refine ⟨sr, ?_, ?_, mul_full I C t _ _ _ sin.nodup h⟩
  · intro y hy
    rw [vr, mem_unionVars]
    exact .inl (vin y hy)
  · rw [vr]
    exact (union_facts inner.vars outer.vars sin.nodup).2.1

omit I C i in
theorem si_inner_tail (res e r b' : DeepEx K) (hr : SI t P T res) (he : SI t P T e)
    (hu : varNamesUnion res e = .ok (r, b')) : SI t P T r ∧ ∀ y ∈ e.vars, y ∈ r.vars := by
  obtain ⟨sa, -, av, -, -, -⟩ := s_union t P T res e r b' hr he hu
  refine ⟨sa, ?_⟩
  intro y hy
  rw [av, mem_unionVars]
  exact .inr hy

theorem spi_step (fuel : Nat) (hPD : SPD I C t P T i fuel) (hVD : SVD I C t P T i fuel) :
    SPI I C t P T i (fuel + 1) := by
  intro e e' he h
  obtain ⟨nodes, ops, us, vars⟩ := e
  have hnodes := opE_nodes _ _ _ _ _ he
  have hops : ∀ o ∈ ops, PO t P o := by
    unfold SI at he
    rw [OpE] at he
    exact he.1
  simp only [DeepEx.nodes] at hnodes
  match nodes, hnodes, he with
  | [], _, he =>
    simp only [partialInner, DeepEx.nodes, DeepEx.ops] at h
    split at h
    · cases h
    rename_i vds hvds
    split at h
    · cases h
    rename_i final hfinal
    split at h
    · cases h
    rename_i vd vtail
    split at h
    · cases h
    rename_i res' b' hu
    cases h
    have hp := hVD _ vds (fun _ hnd => by cases hnd) hvds
    have hf := reducePairs_si I C t P T ops hops _ _ vds _ hp hfinal vd List.mem_cons_self
    exact si_inner_tail t P T _ _ _ b' hf.2 he hu
  | [single], hnodes, he =>
    cases single with
    | num a =>
      simp only [partialInner, DeepEx.nodes, fromNum_eq] at h
      split at h
      · cases h
      rename_i res' b' hu
      cases h
      exact si_inner_tail t P T _ _ _ b' (si_litc t P T C.zero) he hu
    | var j nm =>
      simp only [partialInner, DeepEx.nodes] at h
      by_cases hji : (j == i) = true
      · rw [if_pos hji, fromNum_eq] at h
        simp only [] at h
        split at h
        · cases h
        rename_i res' b' hu
        cases h
        exact si_inner_tail t P T _ _ _ b' (si_litc t P T C.one) he hu
      · rw [if_neg hji, fromNum_eq] at h
        simp only [] at h
        split at h
        · cases h
        rename_i res' b' hu
        cases h
        exact si_inner_tail t P T _ _ _ b' (si_litc t P T C.zero) he hu
    | expr sub =>
      simp only [partialInner, DeepEx.nodes] at h
      split at h
      · cases h
      rename_i res hres
      split at h
      · cases h
      rename_i res' b' hu
      cases h
      have hsub : SI t P T sub := hnodes _ List.mem_cons_self
      exact si_inner_tail t P T _ _ _ b' (hPD sub res hsub hres).1 he hu
  | n1 :: n2 :: rest, hnodes, he =>
    simp only [partialInner, DeepEx.nodes, DeepEx.ops] at h
    split at h
    · cases h
    rename_i vds hvds
    split at h
    · cases h
    rename_i final hfinal
    split at h
    · cases h
    rename_i vd vtail
    split at h
    · cases h
    rename_i res' b' hu
    cases h
    have hp := hVD _ vds hnodes hvds
    have hf := reducePairs_si I C t P T ops hops _ _ vds _ hp hfinal vd List.mem_cons_self
    exact si_inner_tail t P T _ _ _ b' hf.2 he hu

theorem svd_step (fuel : Nat) (hPD : SPD I C t P T i fuel) (hVD : SVD I C t P T i fuel) :
    SVD I C t P T i (fuel + 1) := by
  intro nodes vds hn h
  cases nodes with
  | nil =>
    simp only [valDers] at h
    cases h
    intro vd hvd
    cases hvd
  | cons n ns =>
    have hns : ∀ nd ∈ ns, OpN (PO t P) (PU t) (QV T) (VT T) nd :=
      fun nd hnd => hn nd (List.mem_cons_of_mem _ hnd)
    have hn1 := hn n List.mem_cons_self
    have tail : ∀ (val der : DeepEx K) (rest : List (ValDer K)), SI t P T val →
        partialDeepex I C t i fuel val = .ok der → valDers I C t i fuel ns = .ok rest →
        ∀ vd ∈ ({ val := val, der := der } : ValDer K) :: rest, SI t P T vd.val ∧ SI t P T vd.der := by
      intro val der rest hval hder hrest vd hvd
      rcases List.mem_cons.1 hvd with rfl | hvd
      · exact ⟨hval, (hPD val der hval hder).1⟩
      · exact hVD ns rest hns hrest vd hvd
    cases n with
    | num a =>
      have hnew : DeepEx.new I [DeepNode.num a] [] [] = .ok (DeepEx.mk [.num a] [] [] []) := rfl
      simp only [valDers, hnew] at h
      split at h
      · rename_i der rest hder hrest
        cases h
        exact tail _ der rest (si_litc t P T a) hder hrest
      · cases h
      · cases h
    | var j nm =>
      have hnew : DeepEx.new I [DeepNode.var j nm] [] [] =
          .ok (DeepEx.mk [.var j nm] [] [] [nm]) := rfl
      simp only [valDers, hnew] at h
      have hnm : nm ∈ T := by rw [OpN] at hn1; exact hn1
      have hval : SI t P T (DeepEx.mk [DeepNode.var j nm] [] [] [nm] : DeepEx K) := by
        unfold SI
        rw [OpE, opList, opList, OpN]
        refine ⟨(fun _ h => by cases h), (fun _ h => by cases h), ⟨by simp, ?_⟩, hnm, trivial⟩
        intro y hy
        rw [List.mem_singleton] at hy
        rw [hy]
        exact hnm
      split at h
      · rename_i der rest hder hrest
        cases h
        exact tail _ der rest hval hder hrest
      · cases h
      · cases h
    | expr sub =>
      simp only [valDers] at h
      have hval : SI t P T sub := by rw [OpN] at hn1; exact hn1
      split at h
      · rename_i der rest hder hrest
        cases h
        exact tail _ der rest hval hder hrest
      · cases h
      · cases h

theorem s_engine : ∀ fuel, SPD I C t P T i fuel ∧ SPI I C t P T i fuel ∧ SVD I C t P T i fuel := by
  intro fuel
  induction fuel with
  | zero =>
    refine ⟨?_, ?_, ?_⟩
    · intro e e' _ h
      rw [partialDeepex] at h
      cases h
    · intro e e' _ h
      rw [partialInner] at h
      cases h
    · intro nodes vds _ h
      rw [valDers] at h
      cases h
  | succ fuel ih =>
    obtain ⟨h1, h2, h3⟩ := ih
    exact ⟨spd_step I C t P T i fuel h2, spi_step I C t P T i fuel h1 h3, svd_step I C t P T i fuel h1 h3⟩

/-- **`partial_deepex`, structurally**: same variables, and the structural invariant is kept -/
theorem partial_struct (d d' : DeepEx K) (fuel : Nat) (hs : SI t P d.vars d)
    (hsorted : d.vars.Pairwise (fun x y => strLt x y = true))
    (hp : partialDeepex I C t i fuel d = .ok d') : d'.vars = d.vars ∧ SI t P d.vars d' ∧ Full d' := by
  obtain ⟨h1, h2, h3, h4⟩ := (s_engine I C t P d.vars i fuel).1 d d' hs hp
  exact ⟨ParseAssembly.strict_ext _ _ h3 hsorted (fun y => ⟨h1.sub y, h2 y⟩), h1, h4⟩

end

/-! ### the invariant in terms of `Ruled`, `Scoped`, `Named` -/

mutual
theorem opE_mono {α} {PO PO' : DBin → Prop} {PU PU' : Nat → Prop} {Q Q' : List Str → Prop}
    {V V' : Str → Prop} (h1 : ∀ o, PO o → PO' o) (h2 : ∀ u, PU u → PU' u) (h3 : ∀ l, Q l → Q' l)
    (h4 : ∀ n, V n → V' n) : ∀ e : DeepEx α, OpE PO PU Q V e → OpE PO' PU' Q' V' e
  | .mk nodes ops un vars, h => by
    rw [OpE] at h ⊢
    exact ⟨fun o ho => h1 o (h.1 o ho), fun u hu => h2 u (h.2.1 u hu), h3 _ h.2.2.1,
      opList_mono h1 h2 h3 h4 nodes h.2.2.2⟩
theorem opList_mono {α} {PO PO' : DBin → Prop} {PU PU' : Nat → Prop} {Q Q' : List Str → Prop}
    {V V' : Str → Prop} (h1 : ∀ o, PO o → PO' o) (h2 : ∀ u, PU u → PU' u) (h3 : ∀ l, Q l → Q' l)
    (h4 : ∀ n, V n → V' n) : ∀ l : List (DeepNode α), opList PO PU Q V l → opList PO' PU' Q' V' l
  | [], _ => by rw [opList]; trivial
  | nd :: rest, h => by
    rw [opList] at h ⊢
    refine ⟨?_, opList_mono h1 h2 h3 h4 rest h.2⟩
    cases nd with
    | num a => rw [OpN]; trivial
    | var j nm => have := h.1; rw [OpN] at this ⊢; exact h4 nm this
    | expr e => have := h.1; rw [OpN] at this ⊢; exact opE_mono h1 h2 h3 h4 e this
end

section
variable {K : Type} (t : Table) (P : DBin → Prop) (T : List Str)

mutual
theorem si_of : ∀ e : DeepEx K, Named T e → Ruled t e → Scoped t T e → OpE P TT TT TT e → SI t P T e
  | .mk nodes ops un vars, hn, hr, hs, hp => by
    rw [Named] at hn
    rw [Ruled] at hr
    rw [Scoped] at hs
    rw [OpE] at hp
    unfold SI
    rw [OpE]
    exact ⟨fun o ho => ⟨hr.1 o ho, .inl (hp.1 o ho)⟩, fun u hu => ⟨hr.2.1 u hu, hs.2.2.1 u hu⟩,
      ⟨hs.1, hs.2.1⟩, si_of_list nodes hn.2.2 hr.2.2 hs.2.2.2 hp.2.2.2⟩
theorem si_of_list : ∀ l : List (DeepNode K), namedList T l → ruledList t l → scopedList t T l →
    opList P TT TT TT l → opList (PO t P) (PU t) (QV T) (VT T) l
  | [], _, _, _, _ => by rw [opList]; trivial
  | nd :: rest, hn, hr, hs, hp => by
    rw [namedList] at hn
    rw [ruledList_cons] at hr
    rw [scopedList_cons] at hs
    rw [opList] at hp
    rw [opList]
    refine ⟨?_, si_of_list rest hn.2 hr.2 hs.2 hp.2⟩
    cases nd with
    | num a => exact opN_num _ _ _ _ a
    | var j nm =>
      rw [OpN]
      have := hn.1
      rw [NamedNode] at this
      exact List.mem_of_getElem? this
    | expr e =>
      rw [OpN]
      have h1 := hn.1
      rw [NamedNode] at h1
      have h2 := hp.1
      rw [OpN] at h2
      exact si_of e h1 hr.1 hs.1 h2
end

mutual
theorem si_to : ∀ e : DeepEx K, SI t P T e → Ruled t e ∧ Scoped t T e
  | .mk nodes ops un vars, h => by
    unfold SI at h
    rw [OpE] at h
    obtain ⟨h1, h2⟩ := si_to_list nodes h.2.2.2
    rw [Ruled, Scoped]
    exact ⟨⟨fun o ho => (h.1 o ho).1, fun u hu => (h.2.1 u hu).1, h1⟩, h.2.2.1.1, h.2.2.1.2,
      fun u hu => (h.2.1 u hu).2, h2⟩
theorem si_to_list : ∀ l : List (DeepNode K), opList (PO t P) (PU t) (QV T) (VT T) l →
    ruledList t l ∧ scopedList t T l
  | [], _ => by rw [ruledList, scopedList]; exact ⟨trivial, trivial⟩
  | nd :: rest, h => by
    rw [opList] at h
    obtain ⟨h1, h2⟩ := si_to_list rest h.2
    rw [ruledList_cons, scopedList_cons]
    cases nd with
    | num a => exact ⟨⟨trivial, h1⟩, trivial, h2⟩
    | var j nm => exact ⟨⟨trivial, h1⟩, trivial, h2⟩
    | expr e =>
      have := h.1
      rw [OpN] at this
      obtain ⟨e1, e2⟩ := si_to e this
      exact ⟨⟨e1, h1⟩, e2, h2⟩
end

/-- the operators of an expression satisfying the invariant satisfy `P`, if the operators of the
    table do -/
theorem si_ops (hP : ∀ repr o, findBinOp t repr = .ok o → P o) (e : DeepEx K) (h : SI t P T e) :
    OpE P TT TT TT e :=
  opE_mono (fun o ho => ho.2.elim id (fun ⟨repr, hr⟩ => hP repr o hr)) (fun _ _ => trivial)
    (fun _ _ => trivial) (fun _ _ => trivial) e h

end

end Exmex.Diff
