/-
  C09, bookkeeping of `DeepEx.partialIter`: the index check, order zero, the loop `go` as
  sequential single differentiations, and what the loop preserves structurally.
-/
import Exmex.Proofs.DiffStruct
namespace Exmex.Diff
open Exmex.C10 Exmex.C05 Exmex.Shortcut Exmex.CalcLemmas Exmex.DeepCompile

section
variable {K : Type} (I : Interp K) (C : CalcOps K) (t : Table)

/-- the fuel `partial_iter` gives to one differentiation -/
abbrev iterFuel (d : DeepEx K) : Nat := 4 * d.sizeAll + 8

theorem go_nil (d : DeepEx K) : DeepEx.partialIter.go I C t [] d = .ok d := by
  rw [DeepEx.partialIter.go]

theorem go_cons (i : Nat) (is : List Nat) (d : DeepEx K) :
    DeepEx.partialIter.go I C t (i :: is) d =
      match partialDeepex I C t i (iterFuel d) d with
      | .error err => .error err
      | .ok d' => DeepEx.partialIter.go I C t is d' := by
  rw [DeepEx.partialIter.go]
  rfl

theorem go_cons_ok (i : Nat) (is : List Nat) (d d' : DeepEx K)
    (h : partialDeepex I C t i (iterFuel d) d = .ok d') :
    DeepEx.partialIter.go I C t (i :: is) d = DeepEx.partialIter.go I C t is d' := by
  rw [go_cons, h]

theorem go_cons_error (i : Nat) (is : List Nat) (d : DeepEx K) (err : Fail)
    (h : partialDeepex I C t i (iterFuel d) d = .error err) :
    DeepEx.partialIter.go I C t (i :: is) d = .error err := by
  rw [go_cons, h]

/-- the loop over a concatenation is the loop over the first part, then over the second -/
theorem go_append (is js : List Nat) : ∀ d : DeepEx K,
    DeepEx.partialIter.go I C t (is ++ js) d =
      match DeepEx.partialIter.go I C t is d with
      | .error err => .error err
      | .ok d' => DeepEx.partialIter.go I C t js d' := by
  induction is with
  | nil => intro d; rw [List.nil_append, go_nil]
  | cons i is ih =>
    intro d
    rw [List.cons_append, go_cons, go_cons]
    cases partialDeepex I C t i (iterFuel d) d with
    | error err => rfl
    | ok d' => exact ih d'

/-- the `n+1`-st derivative w.r.t. one variable: one step, then the `n`-th derivative -/
theorem go_replicate_succ (n i : Nat) (d : DeepEx K) :
    DeepEx.partialIter.go I C t (List.replicate (n + 1) i) d =
      match partialDeepex I C t i (iterFuel d) d with
      | .error err => .error err
      | .ok d' => DeepEx.partialIter.go I C t (List.replicate n i) d' := by
  rw [List.replicate_succ, go_cons]

/-- `partial_iter` with all indices in range: the loop, then `compile` -/
theorem partialIter_inrange (e : DeepEx K) (idxs : List Nat) (h : ∀ i ∈ idxs, i < e.vars.length) :
    e.partialIter I C t idxs =
      match DeepEx.partialIter.go I C t idxs e with
      | .error err => .error err
      | .ok d => d.compile I := by
  have hc : ¬ (idxs.any (fun i => decide (i ≥ e.vars.length))) = true := by
    intro hany
    rw [List.any_eq_true] at hany
    obtain ⟨i, hi, hge⟩ := hany
    have := h i hi
    have hge' : i ≥ e.vars.length := by simpa using hge
    omega
  unfold DeepEx.partialIter
  rw [if_neg hc]
  rfl

/-- **the index check comes first** -/
theorem partialIter_index_error (e : DeepEx K) (idxs : List Nat)
    (h : ∃ i ∈ idxs, i ≥ e.vars.length) : e.partialIter I C t idxs = .error (.err "index") := by
  have hc : (idxs.any (fun i => decide (i ≥ e.vars.length))) = true := by
    rw [List.any_eq_true]
    obtain ⟨i, hi, hge⟩ := h
    exact ⟨i, hi, by simpa using hge⟩
  unfold DeepEx.partialIter
  rw [if_pos hc]

theorem partialIter_ok_inrange (e r : DeepEx K) (idxs : List Nat)
    (h : e.partialIter I C t idxs = .ok r) : ∀ i ∈ idxs, i < e.vars.length := by
  intro i hi
  apply Nat.lt_of_not_le
  intro hge
  rw [partialIter_index_error I C t e idxs ⟨i, hi, hge⟩] at h
  cases h

/-- **order zero** -/
theorem partialIter_nil (e : DeepEx K) : e.partialIter I C t [] = e.compile I := by
  rw [partialIter_inrange I C t e [] (fun _ h => by cases h), go_nil]

/-- one more index in front: differentiate once, then go on with the result (the index check of the
    rest is the same because the result lists as many variables) -/
theorem partialIter_cons (e d' : DeepEx K) (i : Nat) (is : List Nat) (hi : i < e.vars.length)
    (hp : partialDeepex I C t i (iterFuel e) e = .ok d') (hv : d'.vars.length = e.vars.length) :
    e.partialIter I C t (i :: is) = d'.partialIter I C t is := by
  by_cases hr : ∀ j ∈ is, j < e.vars.length
  · rw [partialIter_inrange I C t e (i :: is) (by
      intro j hj
      rcases List.mem_cons.1 hj with rfl | hj
      · exact hi
      · exact hr j hj),
      partialIter_inrange I C t d' is (by rw [hv]; exact hr), go_cons_ok I C t i is e d' hp]
  · have hex : ∃ j ∈ is, j ≥ e.vars.length := by
      apply Classical.byContradiction
      intro hne
      apply hr
      intro j hj
      apply Nat.lt_of_not_le
      intro hge
      exact hne ⟨j, hj, hge⟩
    obtain ⟨j, hj, hge⟩ := hex
    rw [partialIter_index_error I C t e (i :: is) ⟨j, List.mem_cons_of_mem _ hj, hge⟩,
      partialIter_index_error I C t d' is ⟨j, hj, by rw [hv]; exact hge⟩]

theorem partialIter_cons_error (e : DeepEx K) (i : Nat) (is : List Nat) (err : Fail)
    (hr : ∀ j ∈ i :: is, j < e.vars.length)
    (hp : partialDeepex I C t i (iterFuel e) e = .error err) :
    e.partialIter I C t (i :: is) = .error err := by
  rw [partialIter_inrange I C t e (i :: is) hr, go_cons_error I C t i is e err hp]

/-- a single index -/
theorem partialIter_single (e : DeepEx K) (i : Nat) (hi : i < e.vars.length) :
    e.partialIter I C t [i] =
      match partialDeepex I C t i (iterFuel e) e with
      | .error err => .error err
      | .ok d' => d'.compile I := by
  rw [partialIter_inrange I C t e [i] (by simpa using hi), go_cons]
  cases partialDeepex I C t i (iterFuel e) e with
  | error err => rfl
  | ok d' => simp only []; rw [go_nil]

end

/-! ### what the loop preserves -/

section
variable {K : Type} (I : Interp K) (C : CalcOps K) (t : Table) (P : DBin → Prop) (T : List Str)

theorem go_struct (hsorted : T.Pairwise (fun x y => strLt x y = true)) :
    ∀ (idxs : List Nat) (d r : DeepEx K), SI t P T d → d.vars = T →
      DeepEx.partialIter.go I C t idxs d = .ok r →
      r.vars = T ∧ SI t P T r ∧ (idxs ≠ [] → Full r) := by
  intro idxs
  induction idxs with
  | nil =>
    intro d r hs hv h
    rw [go_nil] at h
    cases h
    exact ⟨hv, hs, fun h => absurd rfl h⟩
  | cons i is ih =>
    intro d r hs hv h
    rw [go_cons] at h
    split at h
    · cases h
    rename_i d' hp
    subst hv
    obtain ⟨v1, s1, f1⟩ := partial_struct I C t P _ d d' _ hs hsorted hp
    obtain ⟨v2, s2, f2⟩ := ih d' r s1 v1 h
    refine ⟨v2, s2, fun _ => ?_⟩
    cases is with
    | nil =>
      rw [go_nil] at h
      cases h
      exact f1
    | cons j js => exact f2 (by simp)

/-- `compile` of a full expression keeps the variable list and the structural invariant -/
theorem compile_struct (d r : DeepEx K) (hs : SI t P T d) (hl : d.liftNodes.vars = d.vars)
    (h : d.compile I = .ok r) : r.vars = d.vars ∧ SI t P T r := by
  obtain ⟨s1, v1⟩ := compile_op _ _ _ _ I d r h hs
  exact ⟨v1.trans hl, s1⟩

/-- `partial_iter` keeps the variable list and the structural invariant (for the empty list the
    result is `compile` of `d` itself, whence `h0`) -/
theorem partialIter_si (d r : DeepEx K) (hs : SI t P d.vars d)
    (hsorted : d.vars.Pairwise (fun x y => strLt x y = true)) (idxs : List Nat)
    (h0 : idxs = [] → d.liftNodes.vars = d.vars) (hp : d.partialIter I C t idxs = .ok r) :
    r.vars = d.vars ∧ SI t P d.vars r := by
  have hin := partialIter_ok_inrange I C t d r idxs hp
  rw [partialIter_inrange I C t d idxs hin] at hp
  split at hp
  · cases hp
  rename_i dk hgo
  obtain ⟨v1, s1, f1⟩ := go_struct I C t P d.vars hsorted idxs d dk hs rfl hgo
  have hl : dk.liftNodes.vars = dk.vars := by
    by_cases he : idxs = []
    · subst he
      rw [go_nil] at hgo
      cases hgo
      exact h0 rfl
    · exact liftNodes_vars_full dk (f1 he)
  obtain ⟨v2, s2⟩ := compile_struct I t P d.vars dk r s1 hl hp
  exact ⟨v2.trans v1, s2⟩

end

end Exmex.Diff
