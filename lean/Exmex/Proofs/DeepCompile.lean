/-
  C02 (deep form): `DeepEx::compile` is sound. Start of the folding loop, the bump flags of the
  full group on the surviving operators, and the assembly.
-/
import Exmex.Proofs.DeepLoop
namespace Exmex
namespace DeepCompile
open BumpAux DeepGroupAux CompileSound

/-- the operator record at a position -/
abbrev dopAt (ops : List DBin) (k : Nat) : DBin := ops.getD k default

/-! ### start of the loop -/

theorem init_inv {α : Type} (I : Interp α) (ops : List DBin) (nodes : List (DeepNode α))
    (hlen : nodes.length = ops.length + 1) (vals : List α)
    (hg : ∀ nd ∈ nodes, Good I vals.length nd) :
    DInv I ops (deepSortKey ops nodes) vals
      (splitEval (dApplyT I ops) (deepSortKey ops nodes) ops.length
        (nodes.map (nval I vals)) (List.range ops.length))
      (prioIdxDeep ops nodes) (prioIdxDeep ops nodes)
      { nodes := nodes, declined := List.replicate nodes.length false } := by
  have hv := orderByKey_valid (deepSortKey ops nodes) ops.length
  refine { hlen := ?_, dlen := ?_, pend := ?_, nodup := hv.nodup,
           sorted := SortSplitAux.orderByKey_sorted _ _, ninds := ?_, decl := ?_, good := hg,
           value := ?_, folded := ?_ }
  · show nodes.length = (remOf ops.length []).length + 1
    rw [remOf_nil, List.length_range, hlen]
  · show (List.replicate nodes.length false).length = nodes.length
    rw [List.length_replicate]
  · intro b hb
    show b ∈ remOf ops.length []
    rw [remOf_nil]
    exact List.mem_range.2 (hv.lt b hb)
  · show prioIdxDeep ops nodes =
      (prioIdxDeep ops nodes).map (fun b => (remOf ops.length []).idxOf b)
    rw [remOf_nil]
    conv => lhs; rw [← List.map_id (prioIdxDeep ops nodes)]
    apply List.map_congr_left
    intro b hb
    exact (idxOf_range (hv.lt b hb)).symm
  · show ∀ q (hq : q < (remOf ops.length []).length), (remOf ops.length [])[q] ∉ _ → _
    rw [remOf_nil]
    intro q hq hnot
    exfalso
    apply hnot
    rw [List.getElem_range]
    exact orderByKey_complete _ _ q (by simpa using hq)
  · show splitEval (dApplyT I ops) (deepSortKey ops nodes) (remOf ops.length []).length
      (nodes.map (nval I vals)) (remOf ops.length []) = _
    rw [remOf_nil, List.length_range]
  · intro m hm hnot
    exfalso
    apply hnot
    show m ∈ remOf ops.length []
    rw [remOf_nil]
    exact List.mem_range.2 hm

/-! ### the surviving operators -/

theorem dops_filter_eq (ops : List DBin) (used : List Nat) :
    (ops.zipIdx.filter (fun p => !used.contains p.2)).map (·.1) =
      (remOf ops.length used).map (dopAt ops) := by
  have hz : ops.zipIdx = (List.range ops.length).map (fun i => (dopAt ops i, i)) := by
    apply List.ext_getElem?
    intro i
    by_cases hi : i < ops.length
    · simp [hi, dopAt, List.getD_eq_getElem?_getD]
    · simp [hi]
  rw [hz, List.filter_map, List.map_map]
  rfl

theorem deepSortKey_bounds {α : Type} (ops : List DBin) (nodes : List (DeepNode α)) (k : Nat)
    (hk : k < ops.length) :
    (dopAt ops k).prio * 10 ≤ deepSortKey ops nodes k ∧
      deepSortKey ops nodes k ≤ (dopAt ops k).prio * 10 + 5 := by
  rw [deepSortKey_eq ops nodes k hk]
  split <;> constructor <;> simp only [dopAt] <;> omega

/-- the bump flags of the full group are still good bump flags on the surviving operators -/
theorem bumpAbs_rem {α : Type} (I : Interp α) (ops : List DBin) (nodes : List (DeepNode α))
    (hA : DeepAssoc I ops) (rem : List Nat) (hs : rem.Pairwise (· < ·))
    (hlt : ∀ k ∈ rem, k < ops.length) (hF : FoldRec (deepSortKey ops nodes) ops.length rem) :
    BumpAbs (fun q => dApplyT I ops (rem.getD q 0)) rem.length
      (fun q => (dopAt ops (rem.getD q 0)).prio) (fun q => deepBumped ops nodes (rem.getD q 0))
      (fun q => (dopAt ops (rem.getD q 0)).idx) I.bin := by
  have H := deepBumpAbs I ops nodes hA
  have eg : ∀ q (hq : q < rem.length), rem.getD q 0 = rem[q] := fun q hq => by
    simp [List.getD_eq_getElem?_getD, hq]
  refine ⟨?_, ?_, ?_⟩
  · intro q hq hb x y
    exact H.act _ (hlt _ (by rw [eg q hq]; exact List.getElem_mem _)) hb x y
  · intro q hq hb
    exact H.assoc _ (hlt _ (by rw [eg q hq]; exact List.getElem_mem _)) hb
  · intro j q hjq hq hb hp hbetween
    have hj : j < rem.length := by omega
    simp only [eg q hq, eg j hj] at hb hp hbetween ⊢
    have hjm : rem[j] ∈ rem := List.getElem_mem _
    have hjn : rem[j] < ops.length := hlt _ hjm
    have hqn : rem[q] < ops.length := hlt _ (List.getElem_mem _)
    have hjq0 : rem[j] < rem[q] := sorted_getElem_lt hs hq hjq
    have bj := deepSortKey_bounds ops nodes rem[j] hjn
    -- every operator of the full group strictly between with priority ≤ p is a bumped one of
    -- priority p
    have key : ∀ m, rem[j] < m → m < rem[q] → (dopAt ops m).prio ≤ (dopAt ops rem[q]).prio →
        (dopAt ops m).prio = (dopAt ops rem[q]).prio ∧ deepBumped ops nodes m = true := by
      intro m m1 m2 m3
      have hmn : m < ops.length := by omega
      have bm := deepSortKey_bounds ops nodes m hmn
      have em := deepSortKey_eq ops nodes m hmn
      rcases left_descent hF hjm m m1 hmn with h | ⟨c, c1, c2, c3, c4⟩
      · simp only [dopAt] at *
        split at em <;> first | (constructor <;> first | assumption | omega) | omega
      · exfalso
        obtain ⟨t, ht, rfl⟩ := List.getElem_of_mem c1
        have t1 : j < t := sorted_idx_lt hs hj ht c2
        have t2 : t < q := sorted_idx_lt hs ht hq (by omega)
        have := hbetween t t1 t2
        rw [eg t ht] at this
        have bc := deepSortKey_bounds ops nodes rem[t] (hlt _ c1)
        omega
    refine ⟨(H.chain (rem[q] - rem[j]) rem[j] rem[q] rfl hjq0 hqn hp
      (fun m m1 m2 => by
        by_cases h : (ops.getD m default).prio < (ops.getD rem[q] default).prio
        · have := (key m m1 m2 (Int.le_of_lt h)).1
          simp only [dopAt] at this; omega
        · omega)
      (fun m m1 m2 m3 => by
        rcases Nat.eq_or_lt_of_le m2 with e | h
        · subst e; exact hb
        · exact (key m m1 h (Int.le_of_eq m3)).2)).1, fun _ _ => trivial⟩

/-- the stale sort key (bump flags of the full group) and the plain priority give the same split
    evaluation on the surviving operators -/
theorem splitEval_rem_bump {α : Type} (I : Interp α) (ops : List DBin)
    (nodes : List (DeepNode α)) (hA : DeepAssoc I ops) (rem : List Nat) (hs : rem.Pairwise (· < ·))
    (hlt : ∀ k ∈ rem, k < ops.length) (hF : FoldRec (deepSortKey ops nodes) ops.length rem)
    (vs : List α) (hlen : vs.length = rem.length + 1) :
    splitEval (dApplyT I ops) (deepSortKey ops nodes) vs.length vs rem =
      splitEval (dApplyT I ops) (fun k => (dopAt ops k).prio) vs.length vs rem := by
  have H := bumpAbs_rem I ops nodes hA rem hs hlt hF
  rw [splitEval_reindex (dApplyT I ops) (deepSortKey ops nodes) _ vs rem 0,
    splitEval_reindex (dApplyT I ops) (fun k => (dopAt ops k).prio) _ vs rem 0]
  refine splitEval_bumpAbs H _ ?_ vs hlen
  intro q hq
  have : rem.getD q 0 < ops.length := by
    apply hlt
    simp [List.getD_eq_getElem?_getD, hq]
  exact deepSortKey_eq ops nodes _ this

/-- split evaluation over surviving positions = over the surviving operator records -/
theorem splitEval_rem_ops {α : Type} (I : Interp α) (ops : List DBin) (rem : List Nat)
    (fuel : Nat) (vs : List α) :
    splitEval (dApplyT I ops) (fun k => (dopAt ops k).prio) fuel vs rem =
      splitEval (fun (o : DBin) a b => I.bin o.idx a b) (fun o => o.prio) fuel vs
        (rem.map (dopAt ops)) := by
  rw [splitEval_map]

/-- split evaluation over all positions = over the operator records -/
theorem splitEval_all_ops {α : Type} (I : Interp α) (ops : List DBin) (fuel : Nat) (vs : List α) :
    splitEval (dApplyT I ops) (fun k => (dopAt ops k).prio) fuel vs (List.range ops.length) =
      splitEval (fun (o : DBin) a b => I.bin o.idx a b) (fun o => o.prio) fuel vs ops :=
  (splitEval_reindex (fun (o : DBin) a b => I.bin o.idx a b) (fun o => o.prio) fuel vs ops
    default).symm

/-! ### assembly -/

/-- `DeepEx::compile` after `lift_nodes` -/
def foldGroup {α} (I : Interp α) (e1 : DeepEx α) : Res (DeepEx α) :=
  let prio := prioIdxDeep e1.ops e1.nodes
  match dcompileLoop I e1.ops prio prio
      { nodes := e1.nodes, declined := List.replicate e1.nodes.length false } with
  | .error err => .error err
  | .ok st =>
    let ops' := (e1.ops.zipIdx.filter (fun p => !st.used.contains p.2)).map (·.1)
    match st.nodes with
    | [.num a] => .ok (.mk [.num (applyUn I e1.un a)] ops' [] e1.vars)
    | ns => .ok (.mk ns ops' e1.un e1.vars)

theorem compile_eq {α} (I : Interp α) (e : DeepEx α) : e.compile I = foldGroup I e.liftNodes := rfl

theorem foldGroup_sound {α} (I : Interp α) (nodes : List (DeepNode α)) (ops : List DBin)
    (un : List Nat) (vars : List Str) (vals : List α)
    (hs : (DeepEx.mk nodes ops un vars).Shape vals.length)
    (hA : (DeepEx.mk nodes ops un vars).Assoc I) :
    ∃ e', foldGroup I (.mk nodes ops un vars) = .ok e' ∧ e'.Shape vals.length ∧ e'.Assoc I ∧
      e'.evalRelaxed I vals = (DeepEx.mk nodes ops un vars).evalRelaxed I vals := by
  rw [DeepEx.Shape] at hs
  rw [DeepEx.Assoc] at hA
  obtain ⟨hlen, hvars, hsl⟩ := hs
  obtain ⟨hAo, hAl⟩ := hA
  have hg : ∀ nd ∈ nodes, Good I vals.length nd := fun nd hnd =>
    ⟨(shapeList_iff _ _).1 hsl nd hnd, (assocList_iff _ _).1 hAl nd hnd⟩
  obtain ⟨st, hloop, hinv⟩ := (init_inv I ops nodes hlen vals hg).loop
  have hsr := remOf_sorted ops.length st.used
  have hlt : ∀ k ∈ remOf ops.length st.used, k < ops.length := fun k hk => (mem_remOf.1 hk).1
  obtain ⟨rem, hrem⟩ : ∃ rem, remOf ops.length st.used = rem := ⟨_, rfl⟩
  have hl' := hinv.hlen
  have hval := hinv.value
  have hfold := hinv.folded
  have hgood := hinv.good
  simp only [hrem] at hsr hlt hl' hval hfold
  -- the surviving operators
  have hAo' : DeepAssoc I (rem.map (dopAt ops)) := by
    apply deepAssoc_sublist I hAo
    intro o ho
    obtain ⟨k, hk, rfl⟩ := List.mem_map.1 ho
    have hkn := hlt k hk
    have : dopAt ops k = ops[k] := getD_eq_getElem ops k hkn
    rw [this]
    exact List.getElem_mem hkn
  have hsl' : shapeList vals.length st.nodes :=
    (shapeList_iff _ _).2 (fun nd hnd => (hgood nd hnd).1)
  have hAl' : assocList I st.nodes :=
    (assocList_iff _ _).2 (fun nd hnd => (hgood nd hnd).2)
  -- the value of the original group
  have hn0 := evalNodeList_shape I vals nodes hsl
  have hnl0 : (nodes.map (nval I vals)).length = ops.length + 1 := by
    rw [List.length_map, hlen]
  obtain ⟨v, hv1, hv2⟩ := eval_mk I vals nodes ops un vars _ hvars hn0 hnl0 hAo
  -- the value of the surviving chain
  have hn' := evalNodeList_shape I vals st.nodes hsl'
  have hnl' : (st.nodes.map (nval I vals)).length = (rem.map (dopAt ops)).length + 1 := by
    rw [List.length_map, List.length_map, hl']
  have hnl'' : (st.nodes.map (nval I vals)).length = rem.length + 1 := by
    rw [List.length_map, hl']
  have hchain : splitEval (fun (o : DBin) a b => I.bin o.idx a b) (fun o => o.prio)
      (rem.map (dopAt ops)).length (st.nodes.map (nval I vals)) (rem.map (dopAt ops)) = some v := by
    rw [← hv1, ← splitEval_rem_ops I ops rem, List.length_map,
      SplitLemmas.splitEval_fuel _ _ rem.length (st.nodes.map (nval I vals)).length _ _
        (Nat.le_refl _) (by omega),
      ← splitEval_rem_bump I ops nodes hAo rem hsr hlt hfold _ hnl'',
      SplitLemmas.splitEval_fuel _ _ (st.nodes.map (nval I vals)).length rem.length _ _
        (by omega) (Nat.le_refl _),
      hval, ← splitEval_all_ops I ops,
      SplitLemmas.splitEval_fuel _ _ ops.length (nodes.map (nval I vals)).length _ _
        (by simp) (by rw [hnl0]; simp),
      SplitLemmas.splitEval_fuel _ _ ops.length (nodes.map (nval I vals)).length _ _
        (by simp) (by rw [hnl0]; simp)]
    exact splitEval_deepBump I ops nodes _ hnl0 hAo
  -- the result of the folding
  have hfg : foldGroup I (.mk nodes ops un vars) =
      match st.nodes with
      | [.num a] => .ok (.mk [.num (applyUn I un a)] (rem.map (dopAt ops)) [] vars)
      | ns => .ok (.mk ns (rem.map (dopAt ops)) un vars) := by
    unfold foldGroup
    simp only [DeepEx.ops, DeepEx.nodes, DeepEx.un, DeepEx.vars]
    rw [hloop]
    simp only [dops_filter_eq, hrem]
  rw [hfg, hv2]
  by_cases hone : ∃ a, st.nodes = [.num a]
  · obtain ⟨a, ha⟩ := hone
    rw [ha]
    simp only []
    rw [ha] at hl' hchain
    have hr0 : rem = [] := by
      simp at hl'; exact hl'
    subst hr0
    have hav : a = v := by
      simp [splitEval, nval_num] at hchain
      exact hchain
    subst hav
    refine ⟨_, rfl, ?_, ?_, ?_⟩
    · rw [DeepEx.Shape, shapeList, shapeList, DeepNode.ShapeN]
      exact ⟨rfl, hvars, trivial, trivial⟩
    · rw [DeepEx.Assoc]
      refine ⟨hAo', ?_⟩
      rw [assocList_cons, assocList]
      exact ⟨trivial, trivial⟩
    · rw [eval_single I vals _ _ vars hvars (List.map_nil), DeepNode.evalNode]
  · have : (match st.nodes with
        | [.num a] => (.ok (.mk [.num (applyUn I un a)] (rem.map (dopAt ops)) [] vars) :
            Res (DeepEx α))
        | ns => .ok (.mk ns (rem.map (dopAt ops)) un vars)) =
        .ok (.mk st.nodes (rem.map (dopAt ops)) un vars) := by
      split
      · rename_i a ha; exact absurd ⟨a, ha⟩ hone
      · rfl
    rw [this]
    obtain ⟨v', hv1', hv2'⟩ := eval_mk I vals st.nodes (rem.map (dopAt ops)) un vars _ hvars hn'
      hnl' hAo'
    rw [hchain] at hv1'
    cases hv1'
    refine ⟨_, rfl, ?_, ?_, hv2'⟩
    · rw [DeepEx.Shape, List.length_map]
      exact ⟨hl', hvars, hsl'⟩
    · rw [DeepEx.Assoc]
      exact ⟨hAo', hAl'⟩

end DeepCompile
end Exmex
