/-
  Counterexamples to "C03 for EVERY accepted text" (`C03.flat_deep_agree_any` without the
  hypothesis `noAdjacent`). Everything here is checked by kernel evaluation of the model
  (`decide +kernel`: kernel reduction only, no extra axioms).

  Table: `+` (binary, priority 1, commutative), `-` (binary priority 1 and unary), `*` (binary,
  priority 2, commutative), `^` (binary only, priority 3, here `x^y := 7x² + 3y + 1` to make it
  visibly non-associative), `s` (unary only, `s x := 10x + 1`). Interpretation over `Int`; `+` and
  `*` are the usual associative operations, so `Reach.TblOK` holds.

  A parenthesis group (or the whole text) may start with a binary-only operator, provided two
  operands of the group stand next to each other so that the counts fit: `* 1 2`. Both parsers
  accept this. They agree as long as the operands in front of the adjacent pair contain no
  binary operators, but

      text            FlatEx (folded and unfolded)      DeepEx
      `*(1+2)(3)`     `1*(2+3)`           = 5           `(1+2)*3`           = 9
      `-(^(x+1)(y))`  `-(x ^ (1+y))`                    `-((x+1) ^ y)`
                      x=5,y=11:           = -212                            = -286
      `^(^ 2 3)(^ 4 5)` `2 ^ (3 ^ (4 ^ 5))` = 121373    `(2^3) ^ (4^5)`     = 10493

  Reason: the flat parser makes one list of operands and one list of operators for the whole
  text, and the flat evaluator applies operator number `k` to the operands number `k` and `k+1`
  that are still present. In an alternating text operator `k` indeed stands between operand `k`
  and operand `k+1`. After a leading binary operator every operator of the group — and of the
  groups nested in it, up to the adjacent pair — has one operand less on its left than its
  number says: in `*(1+2)(3)` the `+` is operator number 1 and is applied to operands number 1
  and 2, i.e. to `2` and `3`. The deep parser builds one expression per group and keeps `(1+2)`
  together.
-/
import Exmex.Proofs.AnyTextFlat
namespace Exmex.AnyTextCex
open Exmex Exmex.AnyText

def tbl : Table := [
  { repr := ['+'], bin := some { prio := 1, comm := true } },
  { repr := ['-'], bin := some { prio := 1, comm := false }, unary := true },
  { repr := ['*'], bin := some { prio := 2, comm := true } },
  { repr := ['^'], bin := some { prio := 3, comm := false } },
  { repr := ['s'], unary := true }]

def II : Interp Int where
  bin := fun i x y => match i with
    | 0 => x + y | 1 => x - y | 2 => x * y | _ => 7 * x * x + 3 * y + 1
  un := fun i x => match i with | 1 => -x | _ => 10 * x + 1
  const := fun _ => 0
  ofLit := fun s => some (s.foldl (fun acc c => acc * 10 + ((c.toNat : Int) - 48)) 0)
  dflt := 0

def text₁ : Str := "*(1+2)(3)".toList
def text₂ : Str := "-(^(x+1)(y))".toList
def text₃ : Str := "^(^ 2 3)(^ 4 5)".toList

def flatValue (r : Res (FlatEx Int)) (vals : List Int) : Option (List Str × Int) :=
  match r with
  | .ok f => (match f.eval II vals with | .ok v => some (f.vars, v) | .error _ => none)
  | .error _ => none

def deepValue (r : Res (DeepEx Int)) (vals : List Int) : Option (List Str × Int) :=
  match r with
  | .ok d => (match d.eval II vals with | .ok v => some (d.vars, v) | .error _ => none)
  | .error _ => none

/-- the table satisfies the hypotheses of the theorems -/
theorem flaggedAssoc : C01.FlaggedAssoc II tbl := by
  intro o b h hc x y z
  match o, h with
  | 0, _ => exact Int.add_assoc x y z
  | 1, h => simp only [tbl] at h; cases h; cases hc
  | 2, _ => exact Int.mul_assoc x y z
  | 3, h => simp only [tbl] at h; cases h; cases hc
  | 4, h => simp [tbl] at h
  | _ + 5, h => simp [tbl] at h

theorem tblPrio : Diff.TblPrio tbl := by
  intro i b h
  match i, h with
  | 0, h => simp [tblBin, tbl] at h; subst h; exact ⟨by decide, by decide⟩
  | 1, h => simp [tblBin, tbl] at h; subst h; exact ⟨by decide, by decide⟩
  | 2, h => simp [tblBin, tbl] at h; subst h; exact ⟨by decide, by decide⟩
  | 3, h => simp [tblBin, tbl] at h; subst h; exact ⟨by decide, by decide⟩
  | 4, h => simp [tblBin, tbl] at h
  | _ + 5, h => simp [tblBin, tbl] at h

/-- `*(1+2)(3)`: all three parsers accept; the flat forms evaluate to 5, the deep form to 9 -/
theorem differ₁ :
    flatValue (Flat.parse II tbl isNumericText text₁) [] = some ([], 5) ∧
    flatValue (Flat.parseWoCompile II tbl isNumericText text₁) [] = some ([], 5) ∧
    deepValue (Deep.parse II tbl isNumericText text₁) [] = some ([], 9) := by
  decide +kernel

/-- `-(^(x+1)(y))` at `x = 5`, `y = 11`, with a unary operator on the group -/
theorem differ₂ :
    flatValue (Flat.parse II tbl isNumericText text₂) [5, 11] = some ([['x'], ['y']], -212) ∧
    flatValue (Flat.parseWoCompile II tbl isNumericText text₂) [5, 11] = some ([['x'], ['y']], -212) ∧
    deepValue (Deep.parse II tbl isNumericText text₂) [5, 11] = some ([['x'], ['y']], -286) := by
  decide +kernel

/-- `^(^ 2 3)(^ 4 5)`: nested groups that all start with a binary operator -/
theorem differ₃ :
    flatValue (Flat.parse II tbl isNumericText text₃) [] = some ([], 121373) ∧
    flatValue (Flat.parseWoCompile II tbl isNumericText text₃) [] = some ([], 121373) ∧
    deepValue (Deep.parse II tbl isNumericText text₃) [] = some ([], 10493) := by
  decide +kernel

/-- the prefix form alone is harmless: `* 1 2`, `s(* 1 + 2 3)` are read alike -/
theorem agree_prefix :
    flatValue (Flat.parse II tbl isNumericText "* 1 2".toList) [] = some ([], 2) ∧
    deepValue (Deep.parse II tbl isNumericText "* 1 2".toList) [] = some ([], 2) ∧
    flatValue (Flat.parse II tbl isNumericText "s(* 1 + 2 3)".toList) [] = some ([], 51) ∧
    deepValue (Deep.parse II tbl isNumericText "s(* 1 + 2 3)".toList) [] = some ([], 51) := by
  decide +kernel

/-- the hypothesis `noAdjacent` of `C03.flat_deep_agree_any` fails for these texts (as it must) -/
theorem adjacent :
    (match tokenize II tbl isNumericText text₁ with | .ok toks => noAdjacent toks | .error _ => true)
      = false := by
  decide +kernel

/-- **`C03.flat_deep_agree_any` is false without the hypothesis `noAdjacent`.** -/
theorem agree_any_needs_hypothesis :
    ¬ (∀ (text : Str) (f : FlatEx Int) (d : DeepEx Int),
        Flat.parse II tbl isNumericText text = .ok f → Deep.parse II tbl isNumericText text = .ok d →
        f.vars = d.vars ∧ ∀ vals : List Int, vals.length = f.vars.length →
          ∃ v, f.eval II vals = .ok v ∧ d.eval II vals = .ok v) := by
  intro H
  obtain ⟨h1, -, h2⟩ := differ₁
  cases hf : Flat.parse II tbl isNumericText text₁ with
  | error e => rw [hf] at h1; cases h1
  | ok f =>
    cases hd : Deep.parse II tbl isNumericText text₁ with
    | error e => rw [hd] at h2; cases h2
    | ok d =>
      rw [hf] at h1
      rw [hd] at h2
      simp only [flatValue] at h1
      simp only [deepValue] at h2
      obtain ⟨hv, hval⟩ := H text₁ f d hf hd
      cases hfe : f.eval II [] with
      | error e => rw [hfe] at h1; cases h1
      | ok a =>
        cases hde : d.eval II [] with
        | error e => rw [hde] at h2; cases h2
        | ok b =>
          rw [hfe] at h1
          rw [hde] at h2
          simp only [Option.some.injEq, Prod.mk.injEq] at h1 h2
          obtain ⟨v, e1, e2⟩ := hval [] (by rw [h1.1]; rfl)
          rw [hfe] at e1
          rw [hde] at e2
          cases e1
          cases e2
          have : (5 : Int) = 9 := h1.2.symm.trans h2.2
          exact absurd this (by decide)

end Exmex.AnyTextCex
