/-
  Helper lemmas for L6 (`makeExpression_toks`): token classification, unary runs, the
  `lowestTrailing` computation relative to a context, single steps of the token walker.
-/
import Exmex.Model.Flat
import Exmex.Spec.Surface
import Exmex.Proofs.FlattenDefs
import Exmex.Proofs.FlatDenoteAux
namespace Exmex
namespace MakeFlat
open FlatDenoteAux

variable {α : Type}

/-! ### list / index lemmas -/

theorem getElem?_at {β : Type} (A : List β) (x : β) (B : List β) :
    (A ++ x :: B)[A.length]? = some x := by
  simp

theorem getElem?_at' {β : Type} {T A : List β} {x : β} {B : List β} {i : Nat}
    (hT : T = A ++ x :: B) (hi : i = A.length) : T[i]? = some x := by
  subst hT hi; simp

theorem getElem?_next {β : Type} {T A : List β} {x y : β} {B : List β} {i : Nat}
    (hT : T = A ++ x :: y :: B) (hi : i = A.length) : T[i + 1]? = some y := by
  subst hT hi
  have : A ++ x :: y :: B = (A ++ [x]) ++ y :: B := by simp
  rw [this]
  have h2 : A.length + 1 = (A ++ [x]).length := by simp
  rw [h2]; exact getElem?_at _ _ _

/-- the token to the left of position `i` -/
def leftOf (T : List (Tok α)) (i : Nat) : Option (Tok α) := if i > 0 then T[i - 1]? else none

theorem isBinaryAt_eq (t : Table) (T : List (Tok α)) (o i : Nat) :
    isBinaryAt t T o i = isOperatorBinary t o (leftOf T i) := rfl

theorem leftOf_zero (T : List (Tok α)) : leftOf T 0 = none := rfl

theorem leftOf_succ (T : List (Tok α)) (m : Nat) : leftOf T (m + 1) = T[m]? := by
  simp [leftOf]

theorem leftOf_append {T P Q : List (Tok α)} {i : Nat} (hT : T = P ++ Q) (hi : i = P.length) :
    leftOf T i = P.getLast? := by
  subst hT hi
  rcases List.eq_nil_or_concat P with rfl | ⟨P', x, rfl⟩
  · rfl
  · simp [leftOf]

/-! ### classification of operator tokens -/

def prefixLeft : Option (Tok α) → Bool
  | none => true
  | some .popen => true
  | some (.op _) => true
  | _ => false

def infixLeft : Option (Tok α) → Bool
  | some (.num _) => true
  | some (.var _) => true
  | some .pclose => true
  | _ => false

theorem isOperatorBinary_unary {t : Table} {u : Nat} {l : Option (Tok α)}
    (hu : tblHasUnary t u = true) (hl : prefixLeft l = true) :
    isOperatorBinary t u l = .ok false := by
  unfold isOperatorBinary
  rw [hu]
  cases hb : tblHasBin t u
  · simp
  · match l, hl with
    | none, _ => simp
    | some .popen, _ => simp
    | some (.op _), _ => simp

theorem isOperatorBinary_binary {t : Table} {o : Nat} {l : Option (Tok α)}
    (ho : tblHasBin t o = true) (hl : infixLeft l = true) :
    isOperatorBinary t o l = .ok true := by
  unfold isOperatorBinary
  rw [ho]
  cases hb : tblHasUnary t o
  · match l, hl with
    | some (.num _), _ => simp
    | some (.var _), _ => simp
    | some .pclose, _ => simp
  · match l, hl with
    | some (.num _), _ => simp
    | some (.var _), _ => simp
    | some .pclose, _ => simp

/-- position `n` is an operand position whose left neighbour stops the backward scan for unary
    operators: the start of the text, an opening parenthesis, or an operator in binary role -/
def PrefixPos (t : Table) (T : List (Tok α)) (n : Nat) : Prop :=
  n = 0 ∨ ∃ m, n = m + 1 ∧
    (T[m]? = some .popen ∨ ∃ o, T[m]? = some (.op o) ∧ isBinaryAt t T o m = .ok true)

theorem PrefixPos.left {t : Table} {T : List (Tok α)} {n : Nat} (h : PrefixPos t T n) :
    prefixLeft (leftOf T n) = true := by
  rcases h with rfl | ⟨m, rfl, h | ⟨o, h, _⟩⟩
  · rfl
  · rw [leftOf_succ, h]; rfl
  · rw [leftOf_succ, h]; rfl

theorem PrefixPos.stop {t : Table} {T : List (Tok α)} {m : Nat} (h : PrefixPos t T (m + 1)) :
    unpackUnary t T m = .ok none := by
  rcases h with h | ⟨m', hm, h | ⟨o, h, hb⟩⟩
  · omega
  · have : m' = m := by omega
    subst this
    simp [unpackUnary, h]
  · have : m' = m := by omega
    subst this
    simp [unpackUnary, h, hb]

theorem unaries_stop {t : Table} {T : List (Tok α)} {m : Nat} (h : unpackUnary t T m = .ok none) :
    unariesEndingAt t T m = .ok [] := by
  cases m <;> simp [unariesEndingAt, h]

theorem createNode_plain {t : Table} {T : List (Tok α)} {i : Nat} (h : PrefixPos t T i)
    (kind : NodeKind α) : createNode t T i kind = .ok { kind := kind, un := [] } := by
  rcases h with rfl | ⟨m, rfl, h | ⟨o, h, hb⟩⟩
  · simp [createNode]
  · simp [createNode, h]
  · simp [createNode, h, hb]

/-! ### runs of unary operators -/

section run
variable {t : Table} {T P0 R : List (Tok α)} {us : List Nat}

theorem run_tok (hT : T = P0 ++ us.map .op ++ R) {k : Nat} {u : Nat} (hk : us[k]? = some u) :
    T[P0.length + k]? = some (.op u) := by
  subst hT
  have hlt : k < us.length := by
    rcases Nat.lt_or_ge k us.length with h | h
    · exact h
    · rw [List.getElem?_eq_none h] at hk; cases hk
  rw [List.append_assoc, List.getElem?_append_right (by omega)]
  have hk' : us[k] = u := by
    rw [List.getElem?_eq_getElem hlt] at hk; exact Option.some.inj hk
  simp [List.getElem?_append_left, hlt, hk']

theorem run_binaryAt (hT : T = P0 ++ us.map .op ++ R) (hP : PrefixPos t T P0.length)
    (hu : ∀ u ∈ us, tblHasUnary t u = true) {k : Nat} {u : Nat} (hk : us[k]? = some u) :
    isBinaryAt t T u (P0.length + k) = .ok false := by
  rw [isBinaryAt_eq]
  apply isOperatorBinary_unary (hu u (List.mem_of_getElem? hk))
  cases k with
  | zero => exact hP.left
  | succ k =>
    have hlt : k + 1 < us.length := by
      rcases Nat.lt_or_ge (k + 1) us.length with h | h
      · exact h
      · rw [List.getElem?_eq_none h] at hk; cases hk
    have hk' : us[k]? = some us[k] := List.getElem?_eq_getElem (by omega)
    have := run_tok hT (R := R) hk'
    rw [show P0.length + (k + 1) = (P0.length + k) + 1 from rfl, leftOf_succ, this]
    rfl

theorem run_unpack (hT : T = P0 ++ us.map .op ++ R) (hP : PrefixPos t T P0.length)
    (hu : ∀ u ∈ us, tblHasUnary t u = true) {k : Nat} {u : Nat} (hk : us[k]? = some u) :
    unpackUnary t T (P0.length + k) = .ok (some u) := by
  simp [unpackUnary, run_tok hT hk, run_binaryAt hT hP hu hk, hu u (List.mem_of_getElem? hk)]

theorem run_unaries (hT : T = P0 ++ us.map .op ++ R) (hP : PrefixPos t T P0.length)
    (hu : ∀ u ∈ us, tblHasUnary t u = true) : ∀ (k : Nat) (u : Nat), us[k]? = some u →
    unariesEndingAt t T (P0.length + k) = .ok (us.take (k + 1))
  | 0, u, hk => by
    have hup := run_unpack hT hP hu hk
    have htake : us.take 1 = [u] := by
      cases us with
      | nil => simp at hk
      | cons a l => simp at hk; simp [hk]
    rw [htake]
    simp only [Nat.add_zero] at hup ⊢
    cases hn : P0.length with
    | zero =>
      rw [hn] at hup
      simp [unariesEndingAt, hup]
    | succ m =>
      rw [hn] at hup hP
      simp [unariesEndingAt, hup, unaries_stop hP.stop]
  | k + 1, u, hk => by
    have hlt : k + 1 < us.length := by
      rcases Nat.lt_or_ge (k + 1) us.length with h | h
      · exact h
      · rw [List.getElem?_eq_none h] at hk; cases hk
    have hup := run_unpack hT hP hu hk
    have ih := run_unaries hT hP hu k us[k] (List.getElem?_eq_getElem (by omega))
    rw [show P0.length + (k + 1) = (P0.length + k) + 1 from rfl] at hup ⊢
    rw [unariesEndingAt, hup]
    simp only [ih]
    rw [List.take_add_one (i := k + 1), hk]
    rfl

theorem run_unaries_all (hT : T = P0 ++ us.map .op ++ R) (hP : PrefixPos t T P0.length)
    (hu : ∀ u ∈ us, tblHasUnary t u = true) (hne : us ≠ []) :
    unariesEndingAt t T (P0.length + us.length - 1) = .ok us := by
  have hpos : 0 < us.length := List.length_pos_iff.2 hne
  have := run_unaries hT hP hu (us.length - 1) us[us.length - 1]
    (List.getElem?_eq_getElem (by omega))
  rw [show P0.length + us.length - 1 = P0.length + (us.length - 1) by omega, this]
  rw [show us.length - 1 + 1 = us.length by omega, List.take_length]

/-- `createNode` for a leaf directly after its chain of unary operators -/
theorem createNode_run (hT : T = P0 ++ us.map .op ++ R) (hP : PrefixPos t T P0.length)
    (hu : ∀ u ∈ us, tblHasUnary t u = true) (kind : NodeKind α) :
    createNode t T (P0.length + us.length) kind = .ok { kind := kind, un := us } := by
  by_cases hne : us = []
  · subst hne
    simpa using createNode_plain hP kind
  · have hpos : 0 < us.length := List.length_pos_iff.2 hne
    have hk : us[us.length - 1]? = some us[us.length - 1] := List.getElem?_eq_getElem (by omega)
    have htok := run_tok hT (R := R) hk
    have hb := run_binaryAt hT hP hu hk
    have hall := run_unaries_all hT hP hu hne
    have e : P0.length + us.length - 1 = P0.length + (us.length - 1) := by omega
    unfold createNode
    rw [if_pos (by omega), e, htok]
    simp only [hb]
    rw [← e, hall]

end run

/-! ### `lowestTrailing` relative to a context, closing a group -/

theorem modify_append_right' {β : Type} (A B : List β) (k : Nat) (f : β → β) :
    (A ++ B).modify (k + A.length) f = A ++ B.modify k f := by
  induction A with
  | nil => simp
  | cons a A ih =>
    rw [List.cons_append, List.length_cons, ← Nat.add_assoc, List.modify_succ_cons, ih]
    rfl

theorem scan_fst_le (l : List FlatOp) (n : Nat) (acc : Nat × Int) (h : acc.1 ≤ n) :
    ((l.zipIdx n).foldl (fun (acc : Nat × Int) p =>
        if p.1.prio < acc.2 then (p.2 + 1, p.1.prio) else acc) acc).1 ≤ n + l.length := by
  induction l generalizing n acc with
  | nil => simpa using h
  | cons a l ih =>
    rw [List.zipIdx_cons, List.foldl_cons]
    have := ih (n + 1) (if a.prio < acc.2 then (n + 1, a.prio) else acc) (by
      split
      · exact Nat.le_refl _
      · omega)
    simp only [List.length_cons]
    omega

theorem lowestTrailing_ctx (A B : List FlatOp) (bound b' : Int)
    (hA : ∀ o, A.getLast? = some o → o.prio < bound) (hB : ∀ o ∈ B, bound ≤ o.prio)
    (hB' : ∀ o ∈ B, b' ≤ o.prio) :
    lowestTrailing (A ++ B) bound = (lowestTrailing B b').map (· + A.length) := by
  have h1 : (A ++ B).reverse.takeWhile (fun o => decide (bound ≤ o.prio)) = B.reverse := by
    rw [List.reverse_append, List.takeWhile_append_of_pos
      (by intro x hx; simpa using hB x (List.mem_reverse.1 hx))]
    cases hr : A.reverse with
    | nil => simp
    | cons x l =>
      have hx : A.getLast? = some x := by rw [← List.head?_reverse, hr]; rfl
      have := hA x hx
      rw [List.takeWhile_cons, if_neg (by simp; omega)]
      simp
  have h2 : B.reverse.takeWhile (fun o => decide (b' ≤ o.prio)) = B.reverse :=
    takeWhile_all _ _ (by intro x hx; simpa using hB' x (List.mem_reverse.1 hx))
  unfold lowestTrailing
  simp only [h1, h2]
  cases hr : B.reverse with
  | nil => rfl
  | cons o rest =>
    have hlen : B.length = rest.length + 1 := by
      have := congrArg List.length hr
      simpa using this
    have := scan_fst_le rest 0 (0, o.prio) (Nat.le_refl _)
    simp only [Option.map_some, List.length_append, hlen]
    congr 1
    omega

theorem popUnaryStack_none (base : List (Nat × Int)) (d : Int) (h : ∀ e ∈ base, e.2 < d) :
    popUnaryStack base d = (none, base) := by
  unfold popUnaryStack
  cases hl : base.getLast? with
  | none => rfl
  | some e =>
    obtain ⟨i, d'⟩ := e
    have := h _ (List.mem_of_getLast? hl)
    simp only at this
    have hne : (d' == d) = false := by simp; omega
    simp [hne]

theorem popUnaryStack_push (base : List (Nat × Int)) (j : Nat) (d : Int) :
    popUnaryStack (base ++ [(j, d)]) d = (some j, base) := by
  simp [popUnaryStack]

theorem attachUnary_nil (g : List (FlatNode α) × List FlatOp) : attachUnary [] g = g := by
  simp [attachUnary]

theorem close_step {t : Table} {T : List (Tok α)} {vars : List Str} {i : Nat}
    (nodes g1 : List (FlatNode α)) (ops g2 : List FlatOp) (d : Int) (base : List (Nat × Int))
    (us : List Nat) (j : Nat)
    (hg1 : g1 ≠ []) (hg2 : ∀ o ∈ g2, (d + 1) * 1000 ≤ o.prio)
    (hops : ∀ o, ops.getLast? = some o → o.prio < (d + 1) * 1000)
    (hbase : ∀ e ∈ base, e.2 < d) (hus : us ≠ [] → unariesEndingAt t T j = .ok us) :
    makeStep t T vars i .pclose
      { nodes := nodes ++ g1, ops := ops ++ g2, depth := d + 1,
        ustack := base ++ (if us = [] then [] else [(j, d)]) } =
    .ok { nodes := nodes ++ (attachUnary us (g1, g2)).1, ops := ops ++ (attachUnary us (g1, g2)).2,
          depth := d, ustack := base } := by
  have hlow := lowestTrailing_ctx ops g2 ((d + 1) * 1000)
    (g2.foldl (fun m o => min m o.prio) 0 - 1) hops hg2
    (by intro o ho; have := (foldl_min_le g2 0).2 o ho; omega)
  obtain ⟨last, hlast⟩ : ∃ last, g1.getLast? = some last := by
    cases h : g1.getLast? with
    | none => simp at h; exact absurd h hg1
    | some x => exact ⟨x, rfl⟩
  obtain ⟨init, hinit⟩ := List.getLast?_eq_some_iff.1 hlast
  have hnl : (nodes ++ g1).getLast? = some last := by
    rw [List.getLast?_append, hlast]; rfl
  unfold makeStep
  simp only [DEPTH_PRIO_STEP, hlow, Int.add_sub_cancel, hnl]
  by_cases hemp : us = []
  · subst hemp
    simp only [if_true, List.append_nil, popUnaryStack_none base d hbase, attachUnary_nil]
    cases lowestTrailing g2 _ <;> rfl
  · have hie : us.isEmpty = false := by cases us <;> simp at hemp ⊢
    simp only [if_neg hemp, popUnaryStack_push, hus hemp, attachUnary, hie]
    cases hl : lowestTrailing g2 _ with
    | none =>
      simp only [Option.map_none, Bool.false_eq_true, if_false]
      subst hinit
      simp
    | some k =>
      simp only [Option.map_some, modify_append_right', Bool.false_eq_true, if_false]


/-! ### the loop -/

section loop
variable {t : Table} {T : List (Tok α)} {vars : List Str}

theorem makeLoop_append_ok : ∀ {xs : List (Tok α)} (ys : List (Tok α)) {i : Nat} {st st' : MakeSt α},
    makeLoop t T vars xs i st = .ok st' →
    makeLoop t T vars (xs ++ ys) i st = makeLoop t T vars ys (i + xs.length) st'
  | [], ys, i, st, st', h => by
    simp only [makeLoop] at h
    cases h
    rfl
  | x :: xs, ys, i, st, st', h => by
    rw [List.cons_append, makeLoop]
    rw [makeLoop] at h
    cases hs : makeStep t T vars i x st with
    | error e => rw [hs] at h; cases h
    | ok st1 =>
      rw [hs] at h
      simp only at h ⊢
      rw [makeLoop_append_ok ys h]
      congr 1
      simp only [List.length_cons]; omega

theorem makeLoop_cons_ok {tk : Tok α} {rest : List (Tok α)} {i : Nat} {st st' : MakeSt α}
    (h : makeStep t T vars i tk st = .ok st') :
    makeLoop t T vars (tk :: rest) i st = makeLoop t T vars rest (i + 1) st' := by
  rw [makeLoop, h]

theorem makeLoop_single_ok {tk : Tok α} {i : Nat} {st st' : MakeSt α}
    (h : makeStep t T vars i tk st = .ok st') :
    makeLoop t T vars [tk] i st = .ok st' := by
  rw [makeLoop_cons_ok h, makeLoop]

/-- effect of a unary-role operator token, depending on the next token -/
def pushOpen (tk : Tok α) (st : MakeSt α) (j : Nat) : MakeSt α :=
  match tk with
  | .popen => { st with ustack := st.ustack ++ [(j, st.depth)] }
  | _ => st

theorem step_unary {u i : Nat} {tk : Tok α} {st : MakeSt α}
    (hb : isBinaryAt t T u i = .ok false) (hn : T[i + 1]? = some tk) (hc : tk ≠ .pclose) :
    makeStep t T vars i (.op u) st = .ok (pushOpen tk st i) := by
  cases tk <;> simp [makeStep, hb, hn, pushOpen] at hc ⊢

theorem mkFlatOp_of_bin {t : Table} {o : Nat} {b : BinSpec} (hbin : (t[o]?).bind (·.bin) = some b)
    (d : Int) : mkFlatOp t o d = { idx := o, prio := b.prio + d * 1000, comm := b.comm } := by
  simp only [mkFlatOp, hbin, DEPTH_PRIO_STEP]

theorem step_binary {o i : Nat} {b : BinSpec} {st : MakeSt α}
    (hb : isBinaryAt t T o i = .ok true) (hbin : (t[o]?).bind (·.bin) = some b) :
    makeStep t T vars i (.op o) st = .ok { st with ops := st.ops ++ [mkFlatOp t o st.depth] } := by
  simp only [makeStep, hb, hbin, mkFlatOp_of_bin hbin, DEPTH_PRIO_STEP]

theorem step_binary' {o i : Nat} {b : BinSpec} {n : List (FlatNode α)} {os : List FlatOp} {d : Int}
    {u : List (Nat × Int)}
    (hb : isBinaryAt t T o i = .ok true) (hbin : (t[o]?).bind (·.bin) = some b) :
    makeStep t T vars i (.op o) ⟨n, os, d, u⟩ = .ok ⟨n, os ++ [mkFlatOp t o d], d, u⟩ :=
  step_binary hb hbin

theorem step_num {i : Nat} {a : α} {n : FlatNode α} {st : MakeSt α}
    (h : createNode t T i (.num a) = .ok n) :
    makeStep t T vars i (.num a) st = .ok { st with nodes := st.nodes ++ [n] } := by
  simp only [makeStep, h]

theorem findVarIndex_mem {x : Str} {vars : List Str} (h : x ∈ vars) :
    findVarIndex x vars = .ok (varIndex vars x) := by
  unfold findVarIndex varIndex
  cases hi : vars.idxOf? x with
  | none => exact absurd h (List.idxOf?_eq_none_iff.1 hi)
  | some k => rfl

theorem step_var {i : Nat} {x : Str} {n : FlatNode α} {st : MakeSt α} (hx : x ∈ vars)
    (h : createNode t T i (.var (varIndex vars x)) = .ok n) :
    makeStep t T vars i (.var x) st = .ok { st with nodes := st.nodes ++ [n] } := by
  simp only [makeStep, findVarIndex_mem hx, h]

theorem step_open {i : Nat} {st : MakeSt α} :
    makeStep t T vars i .popen st = .ok { st with depth := st.depth + 1 } := rfl

/-- the loop over a run of unary operators in front of the token `tk` -/
theorem unary_run_aux {P0 R : List (Tok α)} {us : List Nat} {tk : Tok α}
    (hT : T = P0 ++ us.map .op ++ tk :: R) (hP : PrefixPos t T P0.length)
    (hu : ∀ u ∈ us, tblHasUnary t u = true) (hc : tk ≠ .pclose) :
    ∀ (us2 us1 : List Nat) (st : MakeSt α), us = us1 ++ us2 →
      makeLoop t T vars (us2.map .op) (P0.length + us1.length) st =
        .ok (if us2 = [] then st else pushOpen tk st (P0.length + us.length - 1))
  | [], us1, st, _ => by simp [makeLoop]
  | u :: us2, us1, st, hsplit => by
    have hk : us[us1.length]? = some u := by rw [hsplit]; simp
    have hb := run_binaryAt hT hP hu hk
    have ih := unary_run_aux hT hP hu hc us2 (us1 ++ [u]) 
    rw [List.map_cons]
    cases us2 with
    | nil =>
      have hn : T[P0.length + us1.length + 1]? = some tk := by
        have : P0.length + us1.length + 1 = (P0 ++ us.map Tok.op).length := by
          rw [hsplit]; simp; omega
        rw [this, hT]; exact getElem?_at _ _ _
      rw [List.map_nil, makeLoop_single_ok (step_unary hb hn hc)]
      have : P0.length + us.length - 1 = P0.length + us1.length := by
        rw [hsplit]; simp
      simp [this]
    | cons u' us3 =>
      have hk' : us[us1.length + 1]? = some u' := by
        rw [hsplit, List.getElem?_append_right (by omega)]; simp
      have hn : T[P0.length + us1.length + 1]? = some (.op u') := run_tok hT hk'
      rw [makeLoop_cons_ok (step_unary hb hn (by simp))]
      have := ih (pushOpen (.op u') st (P0.length + us1.length)) (by rw [hsplit]; simp)
      simp only [List.length_append, List.length_cons, List.length_nil, ← Nat.add_assoc] at this
      rw [this]
      simp [pushOpen]

theorem unary_run {P0 R : List (Tok α)} {us : List Nat} {tk : Tok α}
    (hT : T = P0 ++ us.map .op ++ tk :: R) (hP : PrefixPos t T P0.length)
    (hu : ∀ u ∈ us, tblHasUnary t u = true) (hc : tk ≠ .pclose) (st : MakeSt α) :
    makeLoop t T vars (us.map .op) P0.length st =
      .ok (if us = [] then st else pushOpen tk st (P0.length + us.length - 1)) := by
  simpa using unary_run_aux (vars := vars) hT hP hu hc us [] st rfl

end loop

/-! ### shape of the structural flattening -/

theorem modify_prio_ge (lo : Int) (f : FlatOp → FlatOp) (hf : ∀ o, (f o).prio = o.prio) :
    ∀ (l : List FlatOp) (k : Nat), (∀ o ∈ l, lo ≤ o.prio) → ∀ o ∈ l.modify k f, lo ≤ o.prio
  | [], k, _, o, ho => by simp at ho
  | a :: l, 0, h, o, ho => by
    rw [List.modify_zero_cons] at ho
    rcases List.mem_cons.1 ho with rfl | ho
    · rw [hf]; exact h a (List.mem_cons_self ..)
    · exact h o (List.mem_cons_of_mem _ ho)
  | a :: l, k + 1, h, o, ho => by
    rw [List.modify_succ_cons] at ho
    rcases List.mem_cons.1 ho with rfl | ho
    · exact h o (List.mem_cons_self ..)
    · exact modify_prio_ge lo f hf l k (fun x hx => h x (List.mem_cons_of_mem _ hx)) o ho

theorem attachUnary_fst_length (us : List Nat) (g : List (FlatNode α) × List FlatOp) :
    (attachUnary us g).1.length = g.1.length := by
  unfold attachUnary
  split
  · rfl
  · split
    · rfl
    · split
      · rename_i h
        have := congrArg List.length h
        simp at this ⊢
        omega
      · rfl

theorem attachUnary_snd_length (us : List Nat) (g : List (FlatNode α) × List FlatOp) :
    (attachUnary us g).2.length = g.2.length := by
  unfold attachUnary
  split
  · rfl
  · split
    · simp
    · split <;> rfl

theorem attachUnary_prio_ge (us : List Nat) (g : List (FlatNode α) × List FlatOp) (lo : Int)
    (h : ∀ o ∈ g.2, lo ≤ o.prio) : ∀ o ∈ (attachUnary us g).2, lo ≤ o.prio := by
  unfold attachUnary
  split
  · exact h
  · split
    · exact modify_prio_ge lo (fun o => { o with un := us ++ o.un }) (fun _ => rfl) _ _ h
    · split <;> exact h

/-- shape facts about a flattened group: one more node than operators, priorities above `lo` -/
def Shape (g : List (FlatNode α) × List FlatOp) (lo : Int) : Prop :=
  g.1.length = g.2.length + 1 ∧ ∀ o ∈ g.2, lo ≤ o.prio

theorem Shape.attach {g : List (FlatNode α) × List FlatOp} {lo : Int} (h : Shape g lo)
    (us : List Nat) : Shape (attachUnary us g) lo :=
  ⟨by rw [attachUnary_fst_length, attachUnary_snd_length]; exact h.1,
   attachUnary_prio_ge us g lo h.2⟩

theorem Shape.ne_nil {g : List (FlatNode α) × List FlatOp} {lo : Int} (h : Shape g lo) :
    g.1 ≠ [] := by
  intro h0
  have := h.1
  rw [h0] at this
  simp at this

theorem mkFlatOp_prio_bounds {t : Table} {o : Nat}
    (h : ∃ b', (t[o]?).bind (·.bin) = some b' ∧ 0 ≤ b'.prio ∧ b'.prio ≤ 99) (d : Int) :
    d * 1000 ≤ (mkFlatOp t o d).prio ∧ (mkFlatOp t o d).prio < (d + 1) * 1000 := by
  obtain ⟨b, hb, h0, h99⟩ := h
  rw [mkFlatOp_of_bin hb]
  simp only
  omega

theorem Shape.join {ga gb : List (FlatNode α) × List FlatOp} {lo lo' : Int} {o : FlatOp}
    (ha : Shape ga lo') (hb : Shape gb lo') (ho : lo ≤ o.prio) (hlo : lo ≤ lo') :
    Shape (ga.1 ++ gb.1, ga.2 ++ [o] ++ gb.2) lo := by
  refine ⟨?_, ?_⟩
  · have := ha.1; have := hb.1; simp; omega
  · intro x hx
    simp only [List.mem_append, List.mem_singleton] at hx
    rcases hx with (hx | rfl) | hx
    · have := ha.2 x hx; omega
    · exact ho
    · have := hb.2 x hx; omega

variable (I : Interp α) (t : Table) (vars : List Str)

mutual
theorem atom_shape : ∀ (a : Atom α) (us : List Nat) (d : Int), a.WF t →
    Shape (a.flat I t vars us d) ((d + 1) * 1000)
  | .lit _ _, us, d, _ => by simp [Atom.flat, Shape]
  | .var _ _, us, d, _ => by simp [Atom.flat, Shape]
  | .const _, us, d, _ => by simp [Atom.flat, Shape]
  | .par c, us, d, h => by
    rw [Atom.flat]
    exact (chain_shape c (d + 1) (by simpa [Atom.WF] using h)).attach us
  | .call o a b, us, d, h => by
    rw [Atom.WF] at h
    obtain ⟨ho, ha, hb⟩ := h
    rw [Atom.flat]
    have hsa := chain_shape a (d + 2) ha
    have hsb := chain_shape b (d + 2) hb
    have := mkFlatOp_prio_bounds ho (d + 1)
    exact (Shape.join hsa hsb this.1 (by omega)).attach us
  | .un u a, us, d, h => by
    rw [Atom.flat]
    exact atom_shape a (us ++ [u]) d (by simpa [Atom.WF] using h)
theorem chain_shape : ∀ (c : Chain α) (d : Int), c.WF t → Shape (c.flat I t vars d) (d * 1000)
  | .single a, d, h => by
    rw [Chain.flat]
    have := atom_shape a [] d (by simpa [Chain.WF] using h)
    exact ⟨this.1, fun o ho => by have := this.2 o ho; omega⟩
  | .cons a o rest, d, h => by
    rw [Chain.WF] at h
    obtain ⟨ho, ha, hr⟩ := h
    rw [Chain.flat]
    have hsa := atom_shape a [] d ha
    have hsr := chain_shape rest d hr
    have := mkFlatOp_prio_bounds ho d
    exact Shape.join (lo' := d * 1000) ⟨hsa.1, fun o ho => by have := hsa.2 o ho; omega⟩ hsr
      this.1 (Int.le_refl _)
end

/-! ### ends of canonical token streams -/

theorem atom_toks_last : ∀ (a : Atom α), ∃ tk, (a.toks I).getLast? = some tk ∧
    infixLeft (some tk) = true
  | .lit _ v => ⟨.num v, by simp [Atom.toks], rfl⟩
  | .var x _ => ⟨.var x, by simp [Atom.toks], rfl⟩
  | .const k => ⟨.num (I.const k), by simp [Atom.toks], rfl⟩
  | .par c => ⟨.pclose, by rw [Atom.toks, List.getLast?_concat], rfl⟩
  | .call o a b => ⟨.pclose, by
      rw [Atom.toks]
      show (_ ++ ([Tok.pclose] ++ [Tok.pclose])).getLast? = _
      rw [← List.append_assoc, List.getLast?_concat], rfl⟩
  | .un u a => by
    obtain ⟨tk, h, hi⟩ := atom_toks_last a
    refine ⟨tk, ?_, hi⟩
    rw [Atom.toks]
    cases hl : a.toks I with
    | nil => rw [hl] at h; simp at h
    | cons x l => rw [hl] at h; rw [List.getLast?_cons_cons]; exact h


/-! ### composing the loop, flexible forms of the step lemmas -/

section compose
variable {t : Table} {T : List (Tok α)} {vars : List Str}

theorem loop_app {xs ys : List (Tok α)} {i : Nat} {st st' : MakeSt α} {r : Res (MakeSt α)}
    (h : makeLoop t T vars xs i st = .ok st')
    (h2 : makeLoop t T vars ys (i + xs.length) st' = r) :
    makeLoop t T vars (xs ++ ys) i st = r := by
  rw [makeLoop_append_ok ys h, h2]

theorem loop_cons {tk : Tok α} {rest : List (Tok α)} {i : Nat} {st st' : MakeSt α}
    {r : Res (MakeSt α)} (h : makeStep t T vars i tk st = .ok st')
    (h2 : makeLoop t T vars rest (i + 1) st' = r) :
    makeLoop t T vars (tk :: rest) i st = r := by
  rw [makeLoop_cons_ok h, h2]

theorem loop_nil {i : Nat} {st : MakeSt α} : makeLoop t T vars [] i st = .ok st := by
  rw [makeLoop]

theorem step_open' {i : Nat} {n : List (FlatNode α)} {o : List FlatOp} {d d' : Int}
    {b : List (Nat × Int)} (hd : d' = d + 1) :
    makeStep t T vars i .popen ⟨n, o, d, b⟩ = .ok ⟨n, o, d', b⟩ := by
  subst hd; rfl

theorem close_step' {i : Nat} {N : List (FlatNode α)} {O : List FlatOp} {d' : Int}
    {U : List (Nat × Int)}
    (nodes g1 : List (FlatNode α)) (ops g2 : List FlatOp) (d : Int) (base : List (Nat × Int))
    (us : List Nat) (j : Nat)
    (hN : N = nodes ++ g1) (hO : O = ops ++ g2) (hd : d' = d + 1)
    (hU : U = base ++ (if us = [] then [] else [(j, d)]))
    (hg1 : g1 ≠ []) (hg2 : ∀ o ∈ g2, (d + 1) * 1000 ≤ o.prio)
    (hops : ∀ o, ops.getLast? = some o → o.prio < (d + 1) * 1000)
    (hbase : ∀ e ∈ base, e.2 < d) (hus : us ≠ [] → unariesEndingAt t T j = .ok us) :
    makeStep t T vars i .pclose ⟨N, O, d', U⟩ =
    .ok ⟨nodes ++ (attachUnary us (g1, g2)).1, ops ++ (attachUnary us (g1, g2)).2, d, base⟩ := by
  subst hN hO hd hU
  exact close_step nodes g1 ops g2 d base us j hg1 hg2 hops hbase hus

theorem close_plain {i : Nat} {N : List (FlatNode α)} {O : List FlatOp} {d' : Int}
    (nodes g1 : List (FlatNode α)) (ops g2 : List FlatOp) (d : Int) (base : List (Nat × Int))
    (hN : N = nodes ++ g1) (hO : O = ops ++ g2) (hd : d' = d + 1)
    (hg1 : g1 ≠ []) (hg2 : ∀ o ∈ g2, (d + 1) * 1000 ≤ o.prio)
    (hops : ∀ o, ops.getLast? = some o → o.prio < (d + 1) * 1000)
    (hbase : ∀ e ∈ base, e.2 < d) :
    makeStep t T vars i .pclose ⟨N, O, d', base⟩ = .ok ⟨N, O, d, base⟩ := by
  have := close_step' (t := t) (T := T) (vars := vars) (i := i) (U := base) nodes g1 ops g2 d base
    [] 0 hN hO hd (by simp) hg1 hg2 hops hbase (by simp)
  rw [this, attachUnary_nil, hN, hO]

theorem pushOpen_open (us : List Nat) (n : List (FlatNode α)) (o : List FlatOp) (d : Int)
    (b : List (Nat × Int)) (j : Nat) :
    (if us = [] then (⟨n, o, d, b⟩ : MakeSt α) else pushOpen .popen ⟨n, o, d, b⟩ j) =
      ⟨n, o, d, b ++ (if us = [] then [] else [(j, d)])⟩ := by
  split <;> simp [pushOpen]

/-! ### position facts -/

theorem PrefixPos.ofOpen {A B : List (Tok α)} {n : Nat} (hT : T = A ++ .popen :: B)
    (hn : n = A.length + 1) : PrefixPos t T n :=
  Or.inr ⟨A.length, hn, Or.inl (getElem?_at' hT rfl)⟩

theorem PrefixPos.ofBin {A B : List (Tok α)} {o n : Nat} (hT : T = A ++ .op o :: B)
    (hn : n = A.length + 1) (hb : isBinaryAt t T o A.length = .ok true) : PrefixPos t T n :=
  Or.inr ⟨A.length, hn, Or.inr ⟨o, getElem?_at' hT rfl, hb⟩⟩

theorem binaryAt_infix {A B : List (Tok α)} {o i : Nat} {tk : Tok α} (hT : T = A ++ .op o :: B)
    (hi : i = A.length) (hl : A.getLast? = some tk) (hk : infixLeft (some tk) = true)
    (ho : tblHasBin t o = true) : isBinaryAt t T o i = .ok true := by
  rw [isBinaryAt_eq, leftOf_append hT hi, hl]
  exact isOperatorBinary_binary ho hk

theorem getLast?_append_some {β : Type} {l l' : List β} {x : β} (h : l'.getLast? = some x) :
    (l ++ l').getLast? = some x := by
  rw [List.getLast?_append, h]; rfl

theorem last_concat_prio {ops : List FlatOp} {mk : FlatOp} {b : Int} (h : mk.prio < b) :
    ∀ o, (ops ++ [mk]).getLast? = some o → o.prio < b := by
  intro o ho
  rw [List.getLast?_concat] at ho
  cases ho
  exact h

end compose
end MakeFlat
end Exmex
