/-
  Auxiliary list lemmas for L2 (EvalOrder): live-slot bookkeeping on flag lists.
-/
import Exmex.Model.Flat
import Exmex.Spec.Order
import Exmex.Proofs.TrackerRel
namespace Exmex
namespace EvalOrderAux

/-- indices (shifted by `off`) of the unconsumed (`false`) entries -/
def liveIdx : Nat → List Bool → List Nat
  | _, [] => []
  | off, b :: bs => if b then liveIdx (off + 1) bs else off :: liveIdx (off + 1) bs

/-- values standing in the unconsumed slots -/
def vals {α} (zs : List (α × Bool)) : List α := (zs.filter (fun z => !z.2)).map (·.1)

theorem liveIdx_append (off : Nat) (x y : List Bool) :
    liveIdx off (x ++ y) = liveIdx off x ++ liveIdx (off + x.length) y := by
  induction x generalizing off with
  | nil => simp [liveIdx]
  | cons b bs ih =>
    cases b <;> simp [liveIdx, ih, Nat.add_assoc, Nat.add_comm 1]

theorem mem_liveIdx {off : Nat} {l : List Bool} {j : Nat} :
    j ∈ liveIdx off l ↔ off ≤ j ∧ l[j - off]? = some false := by
  induction l generalizing off with
  | nil => simp [liveIdx]
  | cons b bs ih =>
    cases b
    · simp only [liveIdx, Bool.false_eq_true, if_false, List.mem_cons, ih]
      constructor
      · rintro (rfl | ⟨h1, h2⟩)
        · simp
        · refine ⟨by omega, ?_⟩
          have : j - off = (j - (off + 1)) + 1 := by omega
          rw [this]; simpa using h2
      · rintro ⟨h1, h2⟩
        by_cases h : j = off
        · exact Or.inl h
        · right
          refine ⟨by omega, ?_⟩
          have : j - off = (j - (off + 1)) + 1 := by omega
          rw [this] at h2; simpa using h2
    · simp only [liveIdx, if_true, ih]
      constructor
      · rintro ⟨h1, h2⟩
        refine ⟨by omega, ?_⟩
        have : j - off = (j - (off + 1)) + 1 := by omega
        rw [this]; simpa using h2
      · rintro ⟨h1, h2⟩
        by_cases h : j = off
        · subst h; simp at h2
        · refine ⟨by omega, ?_⟩
          have : j - off = (j - (off + 1)) + 1 := by omega
          rw [this] at h2; simpa using h2

theorem liveIdx_lt {off : Nat} {l : List Bool} {j : Nat} (h : j ∈ liveIdx off l) :
    j < off + l.length := by
  have ⟨h1, h2⟩ := mem_liveIdx.1 h
  have := (List.getElem?_eq_some_iff.1 h2).1
  omega

theorem length_liveIdx (off : Nat) (l : List Bool) :
    (liveIdx off l).length = l.count false := by
  induction l generalizing off with
  | nil => simp [liveIdx]
  | cons b bs ih => cases b <;> simp [liveIdx, ih]

theorem liveIdx_replicate (off m : Nat) :
    liveIdx off (List.replicate m false) = List.range' off m := by
  induction m generalizing off with
  | zero => simp [liveIdx]
  | succ m ih => simp [List.replicate_succ, liveIdx, ih, List.range'_succ]

theorem length_vals {α} (zs : List (α × Bool)) :
    (vals zs).length = (zs.map (·.2)).count false := by
  induction zs with
  | nil => simp [vals]
  | cons z zs ih =>
    obtain ⟨a, b⟩ := z
    cases b <;> simp_all [vals]

theorem vals_append {α} (x y : List (α × Bool)) : vals (x ++ y) = vals x ++ vals y := by
  simp [vals]

theorem vals_all_true {α} (x : List (α × Bool)) (h : ∀ z ∈ x, z.2 = true) : vals x = [] := by
  simp only [vals, List.map_eq_nil_iff, List.filter_eq_nil_iff]
  intro z hz; simp [h z hz]

/-- split a list of slots at its last unconsumed entry -/
theorem split_last_live {α} (g : List (α × Bool)) (h : ∃ z ∈ g, z.2 = false) :
    ∃ pre a mid, g = pre ++ (a, false) :: mid ∧ ∀ z ∈ mid, z.2 = true := by
  induction g with
  | nil => simp at h
  | cons x g ih =>
    by_cases hg : ∃ z ∈ g, z.2 = false
    · obtain ⟨pre, a, mid, h1, h2⟩ := ih hg
      exact ⟨x :: pre, a, mid, by simp [h1], h2⟩
    · obtain ⟨z, hz, hz2⟩ := h
      have hall : ∀ z ∈ g, z.2 = true := by
        intro z hz
        cases hb : z.2
        · exact absurd ⟨z, hz, hb⟩ hg
        · rfl
      rcases List.mem_cons.1 hz with rfl | hz'
      · obtain ⟨a, b⟩ := z
        simp at hz2; subst hz2
        exact ⟨[], a, g, rfl, hall⟩
      · exact absurd ⟨z, hz', hz2⟩ hg

theorem set_mid {β} (A : List β) (a d : β) (B : List β) (i : Nat) (hi : i = A.length) :
    (A ++ a :: B).set i d = A ++ d :: B := by
  subst hi
  induction A with
  | nil => rfl
  | cons x A ih => simp [ih]

theorem getElem?_mid {β} (A : List β) (a : β) (B : List β) (i : Nat) (hi : i = A.length) :
    (A ++ a :: B)[i]? = some a := by
  subst hi; simp

theorem zip_map_fst_snd {α β} (zs : List (α × β)) : (zs.map (·.1)).zip (zs.map (·.2)) = zs := by
  induction zs with
  | nil => rfl
  | cons z zs ih => simp [ih]

theorem getPrevious_split (P M Q : List Bool) (hM : ∀ x ∈ M, x = true) (k : Nat)
    (hk : k = P.length + M.length) :
    Flags.getPrevious (P ++ false :: (M ++ false :: Q)) k = M.length := by
  have e : P ++ false :: (M ++ false :: Q) = (P ++ false :: M) ++ (false :: Q) := by simp
  rw [Flags.getPrevious, e, List.take_left' (by simp; omega)]
  simp only [List.reverse_append, List.reverse_cons, List.append_assoc]
  rw [List.takeWhile_append_of_pos (by simpa using hM)]
  simp

theorem getNext_split (P M Q : List Bool) (k : Nat)
    (hk : k = P.length + M.length) :
    Flags.getNext (P ++ false :: (M ++ false :: Q)) k = 1 := by
  have e : P ++ false :: (M ++ false :: Q) = (P ++ false :: M) ++ (false :: Q) := by simp
  rw [Flags.getNext, e, List.drop_left' (by simp; omega)]
  simp

theorem idxOf?_mid (A B : List Nat) (k : Nat) (hk : k ∉ A) :
    (A ++ k :: B).idxOf? k = some A.length := by
  induction A with
  | nil => simp [List.idxOf?_cons]
  | cons x A ih =>
    have hx : x ≠ k := fun h => hk (by simp [h])
    have hk' : k ∉ A := fun h => hk (by simp [h])
    simp [List.idxOf?_cons, hx, ih hk']

theorem eraseIdx_mid {β} (A B : List β) (k : β) : (A ++ k :: B).eraseIdx A.length = A ++ B := by
  rw [List.eraseIdx_append_of_length_le (Nat.le_refl _)]; simp

theorem reduceStep_split {α} (apply : Nat → α → α → α) (V W : List α) (a b : α)
    (A B : List Nat) (k : Nat) (hk : k ∉ A) (hlen : A.length = V.length) :
    reduceStep apply (V ++ a :: b :: W, A ++ k :: B) k =
      some (V ++ apply k a b :: W, A ++ B) := by
  have h1 : (V ++ a :: b :: W)[A.length]? = some a := by rw [hlen]; simp
  have h2 : (V ++ a :: b :: W)[A.length + 1]? = some b := by
    rw [hlen, List.getElem?_append_right (by omega)]; simp
  have h3 : (V ++ a :: b :: W).take A.length = V := by rw [hlen]; simp
  have h4 : (V ++ a :: b :: W).drop (A.length + 2) = W := by
    have : V ++ a :: b :: W = (V ++ [a, b]) ++ W := by simp
    rw [hlen, this, List.drop_left' (by simp)]
  simp only [reduceStep, idxOf?_mid A B k hk, h1, h2, h3, h4, eraseIdx_mid]
  simp

theorem split_at {β} (l : List β) (k : Nat) (x : β) (h : l[k]? = some x) :
    ∃ pre post, l = pre ++ x :: post ∧ pre.length = k := by
  induction l generalizing k with
  | nil => simp at h
  | cons y l ih =>
    cases k with
    | zero => simp at h; subst h; exact ⟨[], l, rfl, rfl⟩
    | succ k =>
      simp at h
      obtain ⟨pre, post, h1, h2⟩ := ih k h
      exact ⟨y :: pre, post, by simp [h1], by simp [h2]⟩

/-- the simulation invariant between the in-place state `(ns, f)` and the spec state `(vs, ops)` -/
structure Inv {α} (ns : List α) (f : Flags) (vs : List α) (ops : List Nat) : Prop where
  len : ns.length = f.length
  flags : ∃ ft, f = false :: ft ∧ ops = liveIdx 0 ft
  hvals : vs = vals (ns.zip f)

theorem step {α} (dflt : α) (apply : Nat → α → α → α) {ns : List α} {f : Flags} {vs : List α}
    {ops : List Nat} (h : Inv ns f vs ops) {k : Nat} (hk : k ∈ ops) :
    ∃ a b vs' ops',
      f.getPrevious k ≤ k ∧ f.getNext k = 1 ∧ k + 1 < f.length ∧
      f[0]? = some false ∧ f[k + 1]? = some false ∧
      ns[k - f.getPrevious k]? = some a ∧ ns[k + 1]? = some b ∧
      reduceStep apply (vs, ops) k = some (vs', ops') ∧
      Inv ((ns.set (k + 1) dflt).set (k - f.getPrevious k) (apply k a b)) (f.set (k + 1) true)
        vs' ops' ∧
      (∀ j, j ∈ ops → j ≠ k → j ∈ ops') := by
  obtain ⟨hlen, ⟨ft, hf, hops⟩, hvs⟩ := h
  -- zipped view
  obtain ⟨zs, rfl, rfl⟩ : ∃ zs : List (α × Bool), ns = zs.map (·.1) ∧ f = zs.map (·.2) :=
    ⟨ns.zip f, by rw [List.map_fst_zip (by omega)], by rw [List.map_snd_zip (by omega)]⟩
  rw [zip_map_fst_snd] at hvs
  obtain ⟨z0, zt, rfl, hz0, rfl⟩ := List.map_eq_cons_iff.1 hf
  obtain ⟨a0, b0⟩ := z0
  simp only at hz0; subst hz0
  -- slot k+1 is live
  have hk2 := (mem_liveIdx.1 (hops ▸ hk)).2
  simp only [Nat.sub_zero, List.getElem?_map, Option.map_eq_some_iff] at hk2
  obtain ⟨⟨b, bb⟩, hzk, hbb⟩ := hk2
  simp only at hbb; subst hbb
  obtain ⟨zpre, zpost, rfl, hpre⟩ := split_at _ _ _ hzk
  -- nearest live slot at or below k
  obtain ⟨P, a, M, hg, hM⟩ := split_last_live ((a0, false) :: zpre) ⟨_, List.mem_cons_self, rfl⟩
  have hlenPM : k = P.length + M.length := by
    have := congrArg List.length hg
    simp at this; omega
  have hzs : (a0, false) :: (zpre ++ (b, false) :: zpost) =
      P ++ (a, false) :: (M ++ (b, false) :: zpost) := by
    have : (a0, false) :: (zpre ++ (b, false) :: zpost) =
      ((a0, false) :: zpre) ++ (b, false) :: zpost := by simp
    rw [this, hg]; simp
  have hMs : ∀ x ∈ M.map (·.2), x = true := by
    intro x hx
    obtain ⟨z, hz, rfl⟩ := List.mem_map.1 hx
    exact hM z hz
  have hcount : (liveIdx 0 (zpre.map (·.2))).length = (vals P).length := by
    rw [length_liveIdx, length_vals]
    have := congrArg (fun l => (l.map (·.2)).count false) hg
    have hM0 : (M.map (·.2)).count false = 0 := by
      rw [List.count_eq_zero]; intro hm; exact absurd (hMs _ hm) (by simp)
    simp at this
    omega
  have hops' : ops = liveIdx 0 (zpre.map (·.2)) ++ k :: liveIdx (k + 1) (zpost.map (·.2)) := by
    rw [hops]; simp [liveIdx_append, liveIdx, hpre]
  have hknot : k ∉ liveIdx 0 (zpre.map (·.2)) := by
    intro hm; have := liveIdx_lt hm; simp at this; omega
  rw [hzs] at hvs ⊢
  have hprev : Flags.getPrevious
      (List.map (·.2) (P ++ (a, false) :: (M ++ (b, false) :: zpost))) k = M.length := by
    simp only [List.map_append, List.map_cons]
    rw [getPrevious_split _ _ _ hMs k (by simp [hlenPM])]; simp
  have hnext : Flags.getNext
      (List.map (·.2) (P ++ (a, false) :: (M ++ (b, false) :: zpost))) k = 1 := by
    simp only [List.map_append, List.map_cons]
    exact getNext_split _ _ _ k (by simp [hlenPM])
  refine ⟨a, b, vals P ++ apply k a b :: vals zpost,
    liveIdx 0 (zpre.map (·.2)) ++ liveIdx (k + 1) (zpost.map (·.2)), ?_, hnext, ?_, ?_, ?_, ?_, ?_,
    ?_, ?_, ?_⟩
  · rw [hprev]; omega
  · simp; omega
  · rw [← hzs]; simp
  · have e : P ++ (a, false) :: (M ++ (b, false) :: zpost) =
        (P ++ (a, false) :: M) ++ (b, false) :: zpost := by simp
    rw [e, List.map_append, List.map_cons]
    exact getElem?_mid _ _ _ _ (by simp; omega)
  · rw [hprev, List.map_append, List.map_cons]
    exact getElem?_mid _ _ _ _ (by simp; omega)
  · have e : P ++ (a, false) :: (M ++ (b, false) :: zpost) =
        (P ++ (a, false) :: M) ++ (b, false) :: zpost := by simp
    rw [e, List.map_append, List.map_cons]
    exact getElem?_mid _ _ _ _ (by simp; omega)
  · have hv : vs = vals P ++ a :: b :: vals zpost := by
      rw [hvs, vals_append]
      have : (a, false) :: (M ++ (b, false) :: zpost) =
        [(a, false)] ++ (M ++ ([(b, false)] ++ zpost)) := by simp
      rw [this, vals_append, vals_append, vals_append, vals_all_true M hM]
      simp [vals]
    rw [hv, hops']
    exact reduceStep_split apply _ _ a b _ _ k hknot hcount
  · have e : P ++ (a, false) :: (M ++ (b, false) :: zpost) =
        (P ++ (a, false) :: M) ++ (b, false) :: zpost := by simp
    have hns : ((List.map (·.1) (P ++ (a, false) :: (M ++ (b, false) :: zpost))).set (k + 1)
          dflt).set (k - Flags.getPrevious (List.map (·.2)
            (P ++ (a, false) :: (M ++ (b, false) :: zpost))) k) (apply k a b) =
        List.map (·.1) (P ++ (apply k a b, false) :: (M ++ (dflt, true) :: zpost)) := by
      rw [hprev]
      conv => lhs; rw [e, List.map_append, List.map_cons]
      rw [set_mid _ _ _ _ _ (by simp; omega)]
      simp only [List.map_append, List.map_cons, List.append_assoc, List.cons_append]
      rw [set_mid _ _ _ _ _ (by simp; omega)]
    have hfs : (List.map (·.2) (P ++ (a, false) :: (M ++ (b, false) :: zpost))).set (k + 1) true =
        List.map (·.2) (P ++ (apply k a b, false) :: (M ++ (dflt, true) :: zpost)) := by
      conv => lhs; rw [e, List.map_append, List.map_cons]
      rw [set_mid _ _ _ _ _ (by simp; omega)]
      simp
    rw [hns, hfs]
    refine ⟨by simp, ⟨zpre.map (·.2) ++ true :: zpost.map (·.2), ?_, ?_⟩, ?_⟩
    · have hg2 := congrArg (List.map (·.2)) hg
      simp only [List.map_append, List.map_cons] at hg2
      have : List.map (·.2) (P ++ (apply k a b, false) :: (M ++ (dflt, true) :: zpost)) =
          (P.map (·.2) ++ false :: M.map (·.2)) ++ true :: zpost.map (·.2) := by simp
      rw [this, ← hg2]; simp
    · simp [liveIdx_append, liveIdx, hpre]
    · rw [zip_map_fst_snd, vals_append]
      have : (apply k a b, false) :: (M ++ (dflt, true) :: zpost) =
        [(apply k a b, false)] ++ (M ++ ([(dflt, true)] ++ zpost)) := by simp
      rw [this, vals_append, vals_append, vals_append, vals_all_true M hM]
      simp [vals]
  · intro j hj hjk
    rw [hops'] at hj
    simp only [List.mem_append, List.mem_cons] at hj ⊢
    rcases hj with hj | rfl | hj
    · exact Or.inl hj
    · exact absurd rfl hjk
    · exact Or.inr hj

theorem evalBinaryStep_ok {α τ} (T : TrackerOps τ) (dflt : α) (apply : Nat → α → α → α)
    (ns : List α) (t t' : τ) (k l r : Nat) (a b : α)
    (h1 : T.getPrevious t k = some l) (h2 : T.getNext t k = some r)
    (h3 : T.ignore t (k + r) = some t') (hl : l ≤ k)
    (ha : ns[k - l]? = some a) (hb : ns[k + r]? = some b) :
    evalBinaryStep T dflt (fun k a b => some (apply k a b)) (ns, t) k =
      .ok ((ns.set (k + r) dflt).set (k - l) (apply k a b), t') := by
  simp [evalBinaryStep, h1, h2, h3, ha, hb, Nat.not_lt.2 hl]

theorem vals_zip_replicate {α} (l : List α) :
    vals (l.zip (List.replicate l.length false)) = l := by
  induction l with
  | nil => rfl
  | cons x l ih =>
    simp only [vals] at ih
    simp [vals, List.replicate_succ, ih]

theorem inv_init {α} (numbers : List α) (hne : numbers ≠ []) :
    Inv numbers (List.replicate numbers.length false) numbers (List.range (numbers.length - 1)) := by
  cases numbers with
  | nil => exact absurd rfl hne
  | cons x l =>
    refine ⟨by simp, ⟨List.replicate l.length false, by simp [List.replicate_succ], ?_⟩, ?_⟩
    · simp [liveIdx_replicate, List.range_eq_range']
    · exact (vals_zip_replicate (x :: l)).symm

theorem inv_head {α} {ns : List α} {f : Flags} {vs : List α} {ops : List Nat}
    (h : Inv ns f vs ops) : ∃ a nt vt, ns = a :: nt ∧ vs = a :: vt := by
  obtain ⟨hlen, ⟨ft, rfl, -⟩, rfl⟩ := h
  cases ns with
  | nil => simp at hlen
  | cons a nt => exact ⟨a, nt, _, rfl, by simp [vals]; rfl⟩

theorem loop {α τ} (T : TrackerOps τ) (R : τ → Flags → Prop) (hT : Refines T R) (dflt : α)
    (apply : Nat → α → α → α) (π : List Nat) :
    ∀ {ns : List α} {f : Flags} {vs : List α} {ops : List Nat} {t : τ},
      Inv ns f vs ops → R t f → π.Nodup → (∀ k ∈ π, k ∈ ops) →
      ∃ ns' t' f' vs' ops',
        evalBinaryLoop T dflt (fun k a b => some (apply k a b)) π (ns, t) = .ok (ns', t') ∧
        evalBinaryLoop flagsTracker dflt (fun k a b => some (apply k a b)) π (ns, f) =
          .ok (ns', f') ∧
        reduceLoop apply π (vs, ops) = some (vs', ops') ∧ Inv ns' f' vs' ops' := by
  induction π with
  | nil =>
    intro ns f vs ops t h hR _ _
    exact ⟨ns, t, f, vs, ops, rfl, rfl, rfl, h⟩
  | cons k π ih =>
    intro ns f vs ops t h hR hnd hmem
    have hk : k ∈ ops := hmem k List.mem_cons_self
    obtain ⟨a, b, vs1, ops1, hle, hnext, hlt, hf0, hfk, ha, hb, hred, hinv, hops1⟩ :=
      step dflt apply h hk
    have hp := hT.prev t f k hR (by omega) ⟨0, Nat.zero_le _, hf0⟩
    have hn := hT.next t f k hR ⟨k + 1, Nat.lt_succ_self _, hfk⟩
    obtain ⟨t1, hig, hR1⟩ := hT.ignore t f (k + 1) hR hlt
    rw [hnext] at hn
    have hb' : ns[k + 1]? = some b := hb
    have e1 := evalBinaryStep_ok T dflt apply ns t t1 k _ 1 a b hp hn hig hle ha hb'
    have e2 := evalBinaryStep_ok flagsTracker dflt apply ns f (f.set (k + 1) true) k
      (f.getPrevious k) 1 a b rfl (by simp [flagsTracker, hnext]) rfl hle ha hb'
    have hnd' := (List.nodup_cons.1 hnd)
    obtain ⟨ns', t', f', vs', ops', l1, l2, l3, l4⟩ := ih hinv hR1 hnd'.2 (by
      intro j hj
      exact hops1 j (hmem j (List.mem_cons_of_mem _ hj)) (by rintro rfl; exact hnd'.1 hj))
    refine ⟨ns', t', f', vs', ops', ?_, ?_, ?_, l4⟩
    · simp only [evalBinaryLoop, e1]; exact l1
    · simp only [evalBinaryLoop, e2]; exact l2
    · simp only [reduceLoop, hred]; exact l3

end EvalOrderAux
end Exmex
