/-
  C03 (flat → deep): facts about the variable bookkeeping of deep expressions.
  A generic "every variable leaf satisfies `P`, every group's variable list satisfies `Q`"
  predicate, its preservation by `lift_nodes`, `compile` and `DeepEx::new`, the length of the
  variable list `DeepEx::new` collects, and `reset_vars` on an expression whose leaves already
  carry the index of their name.
-/
import Exmex.Model.Conv
import Exmex.Proofs.DeepCompile
import Exmex.Proofs.Vars
namespace Exmex
namespace ToDeep
open DeepCompile

/-! ### a generic predicate on leaves and variable lists -/

mutual
def AllE {α} (P : Nat → Str → Prop) (Q : List Str → Prop) : DeepEx α → Prop
  | .mk nodes _ _ vars => Q vars ∧ AllL P Q nodes
def AllN {α} (P : Nat → Str → Prop) (Q : List Str → Prop) : DeepNode α → Prop
  | .num _ => True
  | .var i nm => P i nm
  | .expr e => AllE P Q e
def AllL {α} (P : Nat → Str → Prop) (Q : List Str → Prop) : List (DeepNode α) → Prop
  | [] => True
  | nd :: rest => AllN P Q nd ∧ AllL P Q rest
end

theorem allL_iff {α} (P : Nat → Str → Prop) (Q : List Str → Prop) (l : List (DeepNode α)) :
    AllL P Q l ↔ ∀ nd ∈ l, AllN P Q nd := by
  induction l with
  | nil => simp [AllL]
  | cons nd rest ih => rw [AllL, ih]; simp

theorem allN_num {α} (P : Nat → Str → Prop) (Q : List Str → Prop) (a : α) :
    AllN P Q (DeepNode.num a) := by
  rw [AllN]; trivial

/-! ### `lift_nodes` -/

theorem lift_all {α} (P : Nat → Str → Prop) (Q : List Str → Prop) :
    (∀ e : DeepEx α, AllE P Q e → AllE P Q e.liftNodes) ∧
    (∀ l : List (DeepNode α), AllL P Q l → AllL P Q (liftNodeList l)) ∧
    (∀ nd : DeepNode α, AllN P Q nd → AllN P Q nd.liftNode) := by
  apply DeepEx.liftNodes.mutual_induct
  · intro ops' vars' a _
    rw [DeepNode.liftNode]
    exact allN_num P Q a
  · intro ops' vars' i v h
    rw [AllN, AllE, AllL, AllN] at h
    rw [DeepNode.liftNode, AllN]
    exact h.2.1
  · intro ops' vars' ed ed' hc ih h
    rw [AllN, AllE, AllL, AllN] at h
    rw [DeepNode.liftNode.eq_3, if_pos hc, AllN]
    exact ih h.2.1
  · intro ops' vars' ed ed' hc ih h
    rw [AllN, AllE, AllL, AllN] at h
    rw [DeepNode.liftNode.eq_3, if_neg hc, AllN, AllE, AllL, AllN]
    exact ⟨h.1, ih h.2.1, h.2.2⟩
  · intro other hne h
    rw [DeepNode.liftNode.eq_4 other hne]
    exact h
  · intro ops un vars e hc h
    rw [AllE, AllL, AllN] at h
    rw [DeepEx.liftNodes.eq_1, if_pos hc]
    exact h.2.1
  · intro n ops un vars hc hne h
    have : (DeepEx.mk n ops un vars).liftNodes = DeepEx.mk n ops un vars := by
      rw [DeepEx.liftNodes.eq_def]
      simp only [hc, if_true]
    rw [this]
    exact h
  · intro n ops un vars hc ih h
    have : (DeepEx.mk n ops un vars).liftNodes = DeepEx.mk (liftNodeList n) ops un vars := by
      rw [DeepEx.liftNodes.eq_def]
      simp only [hc]
      rfl
    rw [this]
    rw [AllE] at h ⊢
    exact ⟨h.1, ih h.2⟩
  · intro _
    rw [liftNodeList, AllL]
    trivial
  · intro nd rest ih1 ih2 h
    rw [AllL] at h
    rw [liftNodeList, AllL]
    exact ⟨ih1 h.1, ih2 h.2⟩

/-! ### the folding loop only creates literals -/

theorem dcompileStep_mem {α} (I : Interp α) (ops : List DBin) (st st' : DCompileSt α)
    (b n : Nat) (rest ns' : List Nat) (h : dcompileStep I ops st b n rest = .ok (st', ns')) :
    ∀ nd ∈ st'.nodes, (∃ a, nd = .num a) ∨ nd ∈ st.nodes := by
  unfold dcompileStep at h
  split at h
  · split at h
    · split at h
      · split at h
        · cases h
        · rename_i v _
          cases h
          intro nd hnd
          have h1 := List.mem_of_mem_eraseIdx hnd
          rcases List.mem_or_eq_of_mem_set h1 with h2 | h2
          · exact .inr h2
          · exact .inl ⟨v, h2⟩
      · cases h
        intro nd hnd
        exact .inr hnd
    · cases h
      intro nd hnd
      exact .inr hnd
  · cases h

theorem dcompileLoop_mem {α} (I : Interp α) (ops : List DBin) :
    ∀ (bs ns : List Nat) (st st' : DCompileSt α), dcompileLoop I ops bs ns st = .ok st' →
      ∀ nd ∈ st'.nodes, (∃ a, nd = .num a) ∨ nd ∈ st.nodes := by
  intro bs
  induction bs with
  | nil =>
    intro ns st st' h
    rw [dcompileLoop] at h
    cases h
    intro nd hnd
    exact .inr hnd
  | cons b bs ih =>
    intro ns st st' h
    cases ns with
    | nil => rw [dcompileLoop] at h; cases h
    | cons n ns =>
      rw [dcompileLoop] at h
      cases hs : dcompileStep I ops st b n ns with
      | error e => rw [hs] at h; cases h
      | ok p =>
        obtain ⟨st1, ns1⟩ := p
        rw [hs] at h
        intro nd hnd
        rcases ih ns1 st1 st' h nd hnd with h1 | h1
        · exact .inl h1
        · exact dcompileStep_mem I ops st st1 b n ns ns1 hs nd h1

theorem foldGroup_all {α} (I : Interp α) (P : Nat → Str → Prop) (Q : List Str → Prop)
    (e1 e' : DeepEx α) (h : foldGroup I e1 = .ok e') (ha : AllE P Q e1) :
    AllE P Q e' ∧ e'.vars = e1.vars := by
  obtain ⟨nodes, ops, un, vars⟩ := e1
  rw [AllE] at ha
  unfold foldGroup at h
  simp only [DeepEx.ops, DeepEx.nodes, DeepEx.un, DeepEx.vars] at h
  split at h
  · cases h
  · rename_i st hst
    have hmem := dcompileLoop_mem I ops _ _ _ st hst
    have hst' : AllL P Q st.nodes := by
      rw [allL_iff]
      intro nd hnd
      rcases hmem nd hnd with ⟨a, rfl⟩ | h1
      · exact allN_num P Q a
      · exact (allL_iff P Q nodes).1 ha.2 nd h1
    split at h
    · cases h
      refine ⟨?_, rfl⟩
      rw [AllE, AllL, AllL]
      exact ⟨ha.1, allN_num P Q _, trivial⟩
    · cases h
      refine ⟨?_, rfl⟩
      rw [AllE]
      exact ⟨ha.1, hst'⟩

theorem compile_all {α} (I : Interp α) (P : Nat → Str → Prop) (Q : List Str → Prop)
    (e e' : DeepEx α) (h : e.compile I = .ok e') (ha : AllE P Q e) :
    AllE P Q e' ∧ e'.vars = e.liftNodes.vars := by
  rw [compile_eq] at h
  exact foldGroup_all I P Q _ _ h ((lift_all P Q).1 e ha)

theorem new_all {α} (I : Interp α) (P : Nat → Str → Prop) (Q : List Str → Prop)
    (nodes : List (DeepNode α)) (ops : List DBin) (un : List Nat) (e' : DeepEx α)
    (hlen : nodes.length = ops.length + 1) (h : DeepEx.new I nodes ops un = .ok e')
    (hq : Q (foundVars nodes)) (ha : AllL P Q nodes) : AllE P Q e' := by
  have hnew : DeepEx.new I nodes ops un = (DeepEx.mk nodes ops un (foundVars nodes)).compile I := by
    unfold DeepEx.new
    rw [if_neg (by rw [hlen]; simp), if_neg (by simp [hlen])]
  rw [hnew] at h
  exact (compile_all I P Q _ _ h (by rw [AllE]; exact ⟨hq, ha⟩)).1

/-! ### the variable list collected by `DeepEx::new` -/

/-- leaves carry the index of their name in `all`; every group's variables are among `all` -/
abbrev WFE {α} (all : List Str) (e : DeepEx α) : Prop :=
  AllE (fun i nm => all[i]? = some nm) (fun vs => ∀ x ∈ vs, x ∈ all) e
abbrev WFN {α} (all : List Str) (nd : DeepNode α) : Prop :=
  AllN (fun i nm => all[i]? = some nm) (fun vs => ∀ x ∈ vs, x ∈ all) nd
abbrev WFL {α} (all : List Str) (l : List (DeepNode α)) : Prop :=
  AllL (fun i nm => all[i]? = some nm) (fun vs => ∀ x ∈ vs, x ∈ all) l

def nameStep {α} (acc : List Str) (n : DeepNode α) : List Str :=
  match n with
  | .num _ => acc
  | .var _ name => pushNew acc name
  | .expr e => e.vars.foldl pushNew acc

theorem foundVars_eq {α} (nodes : List (DeepNode α)) :
    foundVars nodes = sortBy strLe (nodes.foldl nameStep []) := rfl

theorem foldl_pushNew {β} [DecidableEq β] (vs : List β) :
    ∀ acc : List β, acc.Nodup →
      (vs.foldl pushNew acc).Nodup ∧ ∀ x ∈ vs.foldl pushNew acc, x ∈ acc ∨ x ∈ vs := by
  induction vs with
  | nil => intro acc h; exact ⟨h, fun x hx => .inl hx⟩
  | cons v vs ih =>
    intro acc h
    obtain ⟨h1, h2⟩ := ih (pushNew acc v) (nodup_pushNew acc v h)
    refine ⟨h1, ?_⟩
    intro x hx
    rcases h2 x hx with h3 | h3
    · rcases (mem_pushNew acc v x).1 h3 with h4 | h4
      · exact .inl h4
      · exact .inr (by simp [h4])
    · exact .inr (List.mem_cons_of_mem _ h3)

theorem nameStep_spec {α} (all : List Str) (nd : DeepNode α) (hw : WFN all nd) (acc : List Str)
    (hn : acc.Nodup) (hs : ∀ x ∈ acc, x ∈ all) :
    (nameStep acc nd).Nodup ∧ ∀ x ∈ nameStep acc nd, x ∈ all := by
  cases nd with
  | num a => exact ⟨hn, hs⟩
  | var i nm =>
    rw [WFN, AllN] at hw
    refine ⟨nodup_pushNew acc nm hn, ?_⟩
    intro x hx
    rcases (mem_pushNew acc nm x).1 hx with h | h
    · exact hs x h
    · subst h; exact List.mem_of_getElem? hw
  | expr e =>
    obtain ⟨nodes, ops, un, vars⟩ := e
    rw [WFN, AllN, AllE] at hw
    obtain ⟨h1, h2⟩ := foldl_pushNew vars acc hn
    refine ⟨h1, ?_⟩
    intro x hx
    rcases h2 x hx with h | h
    · exact hs x h
    · exact hw.1 x h

theorem foldl_nameStep {α} (all : List Str) (nodes : List (DeepNode α)) :
    WFL all nodes → ∀ acc : List Str, acc.Nodup → (∀ x ∈ acc, x ∈ all) →
      (nodes.foldl nameStep acc).Nodup ∧ ∀ x ∈ nodes.foldl nameStep acc, x ∈ all := by
  induction nodes with
  | nil => intro _ acc h1 h2; exact ⟨h1, h2⟩
  | cons nd rest ih =>
    intro hw acc h1 h2
    rw [WFL, AllL] at hw
    obtain ⟨g1, g2⟩ := nameStep_spec all nd hw.1 acc h1 h2
    exact ih hw.2 _ g1 g2

theorem nodup_subset_length {β} [DecidableEq β] (l : List β) :
    ∀ m : List β, l.Nodup → (∀ x ∈ l, x ∈ m) → l.length ≤ m.length := by
  induction l with
  | nil => intro m _ _; simp
  | cons x l ih =>
    intro m hn hs
    have hx : x ∈ m := hs x List.mem_cons_self
    have hn' := List.nodup_cons.1 hn
    have := ih (m.erase x) hn'.2 (fun y hy =>
      (List.mem_erase_of_ne (by rintro rfl; exact hn'.1 hy)).2 (hs y (List.mem_cons_of_mem _ hy)))
    rw [List.length_erase_of_mem hx] at this
    have hpos : 0 < m.length := List.length_pos_of_mem hx
    simp only [List.length_cons]
    omega

theorem foundVars_spec {α} (all : List Str) (nodes : List (DeepNode α)) (hw : WFL all nodes) :
    (foundVars nodes).length ≤ all.length ∧ ∀ x ∈ foundVars nodes, x ∈ all := by
  obtain ⟨h1, h2⟩ := foldl_nameStep all nodes hw [] List.nodup_nil (by simp)
  have hp := sortBy_perm strLe (nodes.foldl nameStep [])
  rw [foundVars_eq]
  refine ⟨?_, fun x hx => h2 x (hp.mem_iff.1 hx)⟩
  rw [hp.length_eq]
  exact nodup_subset_length _ all h1 h2

/-! ### `reset_vars` -/

theorem idxOf?_of_nodup (all : List Str) :
    ∀ (i : Nat) (nm : Str), all.Nodup → all[i]? = some nm → all.idxOf? nm = some i := by
  induction all with
  | nil => intro i nm _ h; simp at h
  | cons x xs ih =>
    intro i nm hn h
    have hn' := List.nodup_cons.1 hn
    cases i with
    | zero =>
      simp at h
      subst h
      simp [List.idxOf?_cons]
    | succ i =>
      simp at h
      have hne : x ≠ nm := by
        rintro rfl
        exact hn'.1 (List.mem_of_getElem? h)
      simp [List.idxOf?_cons, hne, ih i nm hn'.2 h]

/-- every group carries exactly `all` -/
abbrev VarsE {α} (all : List Str) (e : DeepEx α) : Prop :=
  AllE (fun _ _ => True) (fun vs => vs = all) e

mutual
theorem resetVars_ok {α} (I : Interp α) (vals : List α) (all : List Str) (hnd : all.Nodup)
    (hall : all.length ≤ vals.length) :
    ∀ e : DeepEx α, e.Shape vals.length → e.Assoc I → WFE all e →
      ∃ e', e.resetVars all = some e' ∧ e'.Shape vals.length ∧ e'.Assoc I ∧ VarsE all e' ∧
        e'.evalRelaxed I vals = e.evalRelaxed I vals
  | .mk nodes ops un vars, hs, ha, hw => by
    rw [DeepEx.Shape] at hs
    rw [DeepEx.Assoc] at ha
    rw [WFE, AllE] at hw
    obtain ⟨ns', h1, h2, h3, h4, h5, h6⟩ :=
      resetVarsList_ok I vals all hnd hall nodes hs.2.2 ha.2 hw.2
    refine ⟨.mk ns' ops un all, ?_, ?_, ?_, ?_, ?_⟩
    · rw [DeepEx.resetVars, h1]
    · rw [DeepEx.Shape]; exact ⟨by rw [h6]; exact hs.1, hall, h2⟩
    · rw [DeepEx.Assoc]; exact ⟨ha.1, h3⟩
    · rw [VarsE, AllE]; exact ⟨rfl, h4⟩
    · have e1 := eval_congr_nodes I vals nodes ns' ops un all h5 hs.1 ha.1
      rw [e1, DeepEx.evalRelaxed, DeepEx.evalRelaxed, if_neg (by omega), if_neg (by omega)]
theorem resetVarsNode_ok {α} (I : Interp α) (vals : List α) (all : List Str) (hnd : all.Nodup)
    (hall : all.length ≤ vals.length) :
    ∀ nd : DeepNode α, nd.ShapeN vals.length → nodeAssoc I nd → WFN all nd →
      ∃ nd', nd.resetVarsNode all = some nd' ∧ nd'.ShapeN vals.length ∧ nodeAssoc I nd' ∧
        AllN (fun _ _ => True) (fun vs => vs = all) nd' ∧
        nd'.evalNode I vals = nd.evalNode I vals
  | .num a, hs, ha, _ =>
    ⟨.num a, by rw [DeepNode.resetVarsNode], hs, ha, allN_num _ _ a, rfl⟩
  | .var i nm, hs, ha, hw => by
    rw [WFN, AllN] at hw
    refine ⟨.var i nm, ?_, hs, ha, by rw [AllN]; trivial, rfl⟩
    rw [DeepNode.resetVarsNode, idxOf?_of_nodup all i nm hnd hw]
  | .expr e, hs, ha, hw => by
    rw [DeepNode.ShapeN] at hs
    rw [nodeAssoc] at ha
    rw [WFN, AllN] at hw
    obtain ⟨e', h1, h2, h3, h4, h5⟩ := resetVars_ok I vals all hnd hall e hs ha hw
    refine ⟨.expr e', ?_, by rw [DeepNode.ShapeN]; exact h2, h3, by rw [AllN]; exact h4, ?_⟩
    · rw [DeepNode.resetVarsNode, h1]; rfl
    · rw [DeepNode.evalNode, DeepNode.evalNode, h5]
theorem resetVarsList_ok {α} (I : Interp α) (vals : List α) (all : List Str) (hnd : all.Nodup)
    (hall : all.length ≤ vals.length) :
    ∀ l : List (DeepNode α), shapeList vals.length l → assocList I l → WFL all l →
      ∃ l', resetVarsList all l = some l' ∧ shapeList vals.length l' ∧ assocList I l' ∧
        AllL (fun _ _ => True) (fun vs => vs = all) l' ∧
        evalNodeList I vals l' = evalNodeList I vals l ∧ l'.length = l.length
  | [], _, _, _ =>
    ⟨[], by rw [resetVarsList], by rw [shapeList]; trivial, by rw [assocList]; trivial,
      by rw [AllL]; trivial, rfl, rfl⟩
  | nd :: rest, hs, ha, hw => by
    rw [shapeList] at hs
    rw [assocList_cons] at ha
    rw [WFL, AllL] at hw
    obtain ⟨nd', a1, a2, a3, a4, a5⟩ := resetVarsNode_ok I vals all hnd hall nd hs.1 ha.1 hw.1
    obtain ⟨l', b1, b2, b3, b4, b5, b6⟩ := resetVarsList_ok I vals all hnd hall rest hs.2 ha.2 hw.2
    refine ⟨nd' :: l', ?_, by rw [shapeList]; exact ⟨a2, b2⟩,
      by rw [assocList_cons]; exact ⟨a3, b3⟩, by rw [AllL]; exact ⟨a4, b4⟩, ?_, by simp [b6]⟩
    · rw [resetVarsList, a1, b1]
    · rw [evalNodeList, evalNodeList, a5, b5]
end

/-- `compile` of an expression all of whose groups carry `all` yields one carrying `all` -/
theorem compile_vars {α} (I : Interp α) (all : List Str) (e e' : DeepEx α)
    (h : e.compile I = .ok e') (ha : VarsE all e) : e'.vars = all := by
  obtain ⟨h1, -⟩ := compile_all I _ _ e e' h ha
  obtain ⟨nodes, ops, un, vars⟩ := e'
  rw [AllE] at h1
  exact h1.1

end ToDeep
end Exmex
