/-
  Helper lemmas for C08 (call notation): the comma scan `findOpOfComma` skips every canonical
  token list of an expression (its parentheses are properly nested), so at the comma of
  `op ( a ,` it finds exactly the operator token in front of the opening parenthesis.
-/
import Exmex.Model.Lex
import Exmex.Spec.Surface
namespace Exmex.CallTokens

/-- `Skip l`: the right-to-left scan of `find_op_of_comma`, entering `l` (from its right end) with
    a running count `≤ 0`, leaves `l` with the same count and without having stopped inside.
    This is what "the parentheses of `l` are properly nested" means for the scan. -/
def Skip {α} (l : List (Tok α)) : Prop :=
  ∀ (cnt : Int), cnt ≤ 0 → ∀ (i : Nat) (rest : List (Tok α)),
    findOpOfCommaRev (l.reverse ++ rest) cnt i = findOpOfCommaRev rest cnt (i + l.length)

theorem skip_nil {α} : Skip ([] : List (Tok α)) := by
  intro cnt _ i rest; simp

theorem skip_append {α} {l₁ l₂ : List (Tok α)} (h₁ : Skip l₁) (h₂ : Skip l₂) : Skip (l₁ ++ l₂) := by
  intro cnt hc i rest
  rw [List.reverse_append, List.append_assoc, h₂ cnt hc, h₁ cnt hc, List.length_append]
  congr 1; omega

theorem skip_num {α} (v : α) : Skip [Tok.num v] := by
  intro cnt _ i rest; simp [findOpOfCommaRev, parenDelta]

theorem skip_var {α} (x : Str) : Skip ([Tok.var x] : List (Tok α)) := by
  intro cnt _ i rest; simp [findOpOfCommaRev, parenDelta]

theorem skip_op {α} (o : Nat) : Skip ([Tok.op o] : List (Tok α)) := by
  intro cnt hc i rest
  have : ¬ cnt = 1 := by omega
  simp [findOpOfCommaRev, parenDelta, this]

theorem skip_wrap {α} {l : List (Tok α)} (h : Skip l) : Skip (Tok.popen :: (l ++ [Tok.pclose])) := by
  intro cnt hc i rest
  have e : (Tok.popen :: (l ++ [Tok.pclose])).reverse ++ rest
      = Tok.pclose :: (l.reverse ++ (Tok.popen :: rest)) := by simp
  rw [e]
  simp only [findOpOfCommaRev, parenDelta]
  rw [h (cnt + -1) (by omega)]
  simp only [findOpOfCommaRev, parenDelta, List.length_cons, List.length_append, List.length_nil]
  congr 1
  · omega
  · omega

mutual
theorem atom_skip {α} (I : Interp α) : (a : Atom α) → Skip (a.toks I)
  | .lit _ v => by simpa [Atom.toks] using skip_num v
  | .var x _ => by simpa [Atom.toks] using skip_var x
  | .const k => by simpa [Atom.toks] using skip_num (I.const k)
  | .par c => by
    have := skip_wrap (chain_skip I c)
    simpa [Atom.toks] using this
  | .call o a b => by
    have ha := skip_wrap (chain_skip I a)
    have hb := skip_wrap (chain_skip I b)
    have := skip_wrap (skip_append (skip_append ha (skip_op o)) hb)
    simpa [Atom.toks] using this
  | .un u a => by
    have := skip_append (skip_op u) (atom_skip I a)
    simpa [Atom.toks] using this
theorem chain_skip {α} (I : Interp α) : (c : Chain α) → Skip (c.toks I)
  | .single a => by simpa [Chain.toks] using atom_skip I a
  | .cons a o rest => by
    have := skip_append (skip_append (atom_skip I a) (skip_op o)) (chain_skip I rest)
    simpa [Chain.toks] using this
end

/-- at the comma of `pre op ( ta ,` the scan finds the operator token -/
theorem findOpOfComma_call {α} (pre ta : List (Tok α)) (o : Nat) (h : Skip ta) :
    findOpOfComma (pre ++ [Tok.op o, Tok.popen] ++ ta) = some pre.length := by
  unfold findOpOfComma
  have e : (pre ++ [Tok.op o, Tok.popen] ++ ta).reverse
      = ta.reverse ++ (Tok.popen :: Tok.op o :: pre.reverse) := by simp
  rw [e, h 0 (by omega)]
  simp [findOpOfCommaRev, parenDelta]

theorem getElem?_call {α} (pre ta : List (Tok α)) (o : Nat) :
    (pre ++ [Tok.op o, Tok.popen] ++ ta)[pre.length]? = some (Tok.op o) := by
  simp

theorem set_call {α} (pre ta : List (Tok α)) (o : Nat) :
    (pre ++ [Tok.op o, Tok.popen] ++ ta).set pre.length Tok.popen
      = pre ++ [Tok.popen, Tok.popen] ++ ta := by
  simp

/-- no owed entry at the top equals `depth` when all are smaller -/
theorem getLast?_ne {owed : List Int} {depth : Int} (h : ∀ d ∈ owed, d < depth) :
    (owed.getLast? == some depth) = false := by
  cases hl : owed.getLast? with
  | none => rfl
  | some x =>
    have hx : x ∈ owed := List.mem_of_getLast? hl
    have := h x hx
    simp only [beq_eq_false_iff_ne, ne_eq, Option.some.injEq]
    omega

end Exmex.CallTokens
