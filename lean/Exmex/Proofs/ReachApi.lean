/-
  `Reach.reach_inv`: the invariant `Good` of reachable expressions (the invariant of the theorem plus
  `SS`) is preserved by the calculation API, differentiation and `compile`.
-/
import Exmex.Proofs.ReachDiff
namespace Exmex.ReachLemmas
open Exmex.C10 Exmex.C05 Exmex.Shortcut Exmex.CalcLemmas Exmex.DeepCompile Exmex.Diff

/-- the invariant of reachable expressions -/
structure Good {K : Type} (t : Table) (d : DeepEx K) : Prop where
  named : Named d.vars d
  strict : d.vars.Pairwise (fun x y => strLt x y = true)
  oi : OI t d.vars d
  ss : SS d

section
variable {K : Type} (I : Interp K) (C : CalcOps K) (t : Table)
  (hA : C01.FlaggedAssoc I t) (hP : TblPrio t)

/-! ### `OI` is closed under the API -/

theorem ss_un_change (nodes : List (DeepNode K)) (ops ops' : List DBin) (us us' : List Nat)
    (vars : List Str) (h : SS (DeepEx.mk nodes ops us vars)) : SS (DeepEx.mk nodes ops' us' vars) := by
  rw [SS] at h ⊢; exact h

include hA hP in
theorem oi_closed (T : List Str) : Closed I C t (OI t T) where
  lit := fun x => lit_oi t T x [] (qv_nil T)
  add := fun a b r ha hb h => (add_res I C t T hA hP a b r ha hb h).oi
  sub := fun a b r ha hb h => (sub_res I t T hA hP a b r ha hb h).oi
  mul := fun a b r ha hb h => (mul_res I C t T hA hP a b r ha hb h).oi
  div := fun a b r ha hb h => (div_res I C t T hA hP a b r ha hb h).oi
  pow := fun a b r ha hb h => (pow_res I C t T hA hP a b r ha hb h).oi
  neg := fun a r ha h => (neg_res I t T hA hP a r ha h).oi
  opBin := fun a b r repr ha hb h => (operateBin_res I t T hA hP a b r repr ha hb h).oi
  opUn := fun a r repr ha h => (operateUnary_res I t T hA hP a r repr ha h).oi
  unSub := by
    intro nodes ops us us' vars h hsub
    obtain ⟨L, hL⟩ := h.named
    refine ⟨⟨L, ?_⟩, ?_, ?_⟩
    · rw [Named] at hL ⊢; exact hL
    · have := h.so
      unfold SO at this ⊢
      rw [OpE] at this ⊢
      exact ⟨this.1, fun u hu => this.2.1 u (hsub u hu), this.2.2⟩
    · have := h.folded
      rw [Folded] at this ⊢
      refine ⟨?_, this.2⟩
      intro a ha
      have hus := this.1 a ha
      subst hus
      cases us' with
      | nil => rfl
      | cons u rest => exact absurd (hsub u List.mem_cons_self) (by simp)
  union := fun a b a' b' ha hb hu => (union_res I t T a b a' b' ha hb hu).1.oi
  subExpr := by
    intro nodes ops us vars sub h hm
    obtain ⟨L, hL⟩ := h.named
    refine ⟨⟨L, ?_⟩, ?_, ?_⟩
    · have := genEx_nodes _ ((named_iff_gen L _).1 hL) _ hm
      rw [GenNode] at this
      exact (named_iff_gen L sub).2 this
    · have := opE_nodes _ _ _ _ _ h.so _ hm
      rw [OpN] at this
      exact this
    · have := (foldedList_iff _).1 (folded_nodes _ h.folded) _ hm
      rw [FoldedNode] at this
      exact this.2
  subVar := by
    intro nodes ops us vars j nm h hm
    obtain ⟨L, hL⟩ := h.named
    have hj : L[j]? = some nm := by
      have := genEx_nodes _ ((named_iff_gen L _).1 hL) _ hm
      rw [GenNode] at this
      exact this
    have hnm : nm ∈ T := by
      have := opE_nodes _ _ _ _ _ h.so _ hm
      rw [OpN] at this
      exact this
    refine ⟨⟨L, ?_⟩, ?_, ?_⟩
    · rw [Named, namedList, namedList, NamedNode]
      have hlt : j < L.length := (List.getElem?_eq_some_iff.1 hj).1
      exact ⟨rfl, by simp only [List.length_cons, List.length_nil]; omega, hj, trivial⟩
    · unfold SO
      rw [OpE, opList, opList, OpN]
      refine ⟨(fun _ h => by cases h), (fun _ h => by cases h), ⟨by simp, ?_⟩, hnm, trivial⟩
      intro y hy
      rw [List.mem_singleton] at hy
      rw [hy]
      exact hnm
    · rw [Folded, foldedList, foldedList, FoldedNode]
      exact ⟨fun a ha => (by cases ha), trivial, trivial⟩

/-! ### the constructors -/

omit I in
theorem good_of_res2 (a b r : DeepEx K) (h : Res2 t (unionVars a.vars b.vars) a b r) : Good t r :=
  ⟨h.named, by rw [h.vars]; exact h.strict, by rw [h.vars]; exact h.oi, h.ss⟩

omit I in
theorem oi_left (a b : DeepEx K) (ha : Good t a) : OI t (unionVars a.vars b.vars) a :=
  oi_mono t _ _ (fun x hx => (mem_unionVars _ _ x).2 (.inl hx)) a ha.oi

omit I in
theorem oi_right (a b : DeepEx K) (hb : Good t b) : OI t (unionVars a.vars b.vars) b :=
  oi_mono t _ _ (fun x hx => (mem_unionVars _ _ x).2 (.inr hx)) b hb.oi

theorem good_fromNum (x : K) (d : DeepEx K) (h : DeepEx.fromNum I x = .ok d) : Good t d := by
  rw [fromNum_eq] at h
  cases h
  exact ⟨named_of_full _ _ (lit_gen x []), List.Pairwise.nil, lit_oi t [] x [] (qv_nil []),
    ss_of_gen _ _ _ (lit_gen x [])⟩

include hA hP

theorem good_operateBin (a b r : DeepEx K) (repr : Str) (ha : Good t a) (hb : Good t b)
    (h : a.operateBin I t b repr = .ok r) : Good t r :=
  good_of_res2 t a b r (operateBin_res I t _ hA hP a b r repr (oi_left t a b ha) (oi_right t a b hb) h)

theorem good_add (a b r : DeepEx K) (ha : Good t a) (hb : Good t b) (h : a.add I C t b = .ok r) :
    Good t r :=
  good_of_res2 t a b r (add_res I C t _ hA hP a b r (oi_left t a b ha) (oi_right t a b hb) h)

theorem good_sub (a b r : DeepEx K) (ha : Good t a) (hb : Good t b) (h : a.sub I t b = .ok r) :
    Good t r :=
  good_of_res2 t a b r (sub_res I t _ hA hP a b r (oi_left t a b ha) (oi_right t a b hb) h)

theorem good_mul (a b r : DeepEx K) (ha : Good t a) (hb : Good t b) (h : a.mul I C t b = .ok r) :
    Good t r :=
  good_of_res2 t a b r (mul_res I C t _ hA hP a b r (oi_left t a b ha) (oi_right t a b hb) h)

theorem good_div (a b r : DeepEx K) (ha : Good t a) (hb : Good t b) (h : a.div I C t b = .ok r) :
    Good t r :=
  good_of_res2 t a b r (div_res I C t _ hA hP a b r (oi_left t a b ha) (oi_right t a b hb) h)

theorem good_pow (a b r : DeepEx K) (ha : Good t a) (hb : Good t b) (h : a.pow I C t b = .ok r) :
    Good t r :=
  good_of_res2 t a b r (pow_res I C t _ hA hP a b r (oi_left t a b ha) (oi_right t a b hb) h)

theorem good_operateUnary (a r : DeepEx K) (repr : Str) (ha : Good t a)
    (h : a.operateUnary I t repr = .ok r) : Good t r := by
  have hr := operateUnary_res I t a.vars hA hP a r repr ha.oi h
  have hss : SS r := by
    unfold DeepEx.operateUnary at h
    split at h
    · cases h
    rename_i u hu
    obtain ⟨nodes, ops, un, vars⟩ := a
    exact (compile_ss I _ r h (ss_un_change nodes ops ops un (u :: un) vars ha.ss)).1
  exact ⟨by rw [hr.vars]; exact hr.named _ ha.named, by rw [hr.vars]; exact ha.strict,
    by rw [hr.vars]; exact hr.oi, hss⟩

theorem good_neg (a r : DeepEx K) (ha : Good t a) (h : a.neg I t = .ok r) : Good t r :=
  good_operateUnary I t hA hP a r _ ha h

theorem good_compile (a r : DeepEx K) (ha : Good t a) (h : a.compile I = .ok r) : Good t r := by
  have _ := hP
  obtain ⟨hss, hv⟩ := compile_ss I a r h ha.ss
  obtain ⟨s1, -⟩ := compile_op _ _ _ _ I a r h ha.oi.so
  have hf := compile_folded I a r h (weakList_of_folded _ (folded_nodes a ha.oi.folded))
  obtain ⟨g, -⟩ := compile_gen' I t hA a.vars a.vars _ _ a r ha.named ha.oi.so
    ((named_iff_gen a.vars a).1 ha.named) h
  have hn : Named a.vars r := (named_iff_gen a.vars r).2 g
  exact ⟨by rw [hv]; exact hn, by rw [hv]; exact ha.strict,
    by rw [hv]; exact ⟨⟨a.vars, hn⟩, s1, hf⟩, hss⟩

theorem good_partial (d d' : DeepEx K) (i fuel : Nat) (hd : Good t d)
    (h : partialDeepex I C t i fuel d = .ok d') : Good t d' ∧ d'.vars = d.vars := by
  obtain ⟨inner, outer, ri, ro, vin, hm⟩ :=
    partial_closed I C t (OI t d.vars) (oi_closed I C t hA hP d.vars) i d d' fuel hd.oi h
  have hr := mul_res I C t d.vars hA hP inner outer d' ri ro hm
  have hv : d'.vars = d.vars := by
    rw [hr.vars]
    apply ParseAssembly.strict_ext _ _ hr.strict hd.strict
    intro y
    rw [mem_unionVars]
    constructor
    · rintro (hy | hy)
      · exact ri.so.sub y hy
      · exact ro.so.sub y hy
    · intro hy
      exact .inl (vin y hy)
  exact ⟨⟨hr.named, by rw [hr.vars]; exact hr.strict, by rw [hv]; exact hr.oi, hr.ss⟩, hv⟩

theorem good_go : ∀ (idxs : List Nat) (d r : DeepEx K), Good t d →
    DeepEx.partialIter.go I C t idxs d = .ok r → Good t r := by
  intro idxs
  induction idxs with
  | nil =>
    intro d r hd h
    rw [go_nil] at h
    cases h
    exact hd
  | cons i is ih =>
    intro d r hd h
    rw [go_cons] at h
    split at h
    · cases h
    rename_i d' hd'
    exact ih d' r (good_partial I C t hA hP d d' i _ hd hd').1 h

theorem good_partialIter (d r : DeepEx K) (idxs : List Nat) (hd : Good t d)
    (h : d.partialIter I C t idxs = .ok r) : Good t r := by
  have hin := partialIter_ok_inrange I C t d r idxs h
  rw [partialIter_inrange I C t d idxs hin] at h
  split at h
  · cases h
  rename_i dk hgo
  exact good_compile I t hA hP dk r (good_go I C t hA hP idxs d dk hd hgo) h

end
end Exmex.ReachLemmas
