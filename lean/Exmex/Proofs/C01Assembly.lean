/-
  Assembly of C01 from L3 (SortSplit), L4 (Bump), L5 (FlatDenote), C14 (any-order evaluation) and
  the agreement of the two formulations of the specification (ReduceSplit):

    FlatEx.eval  =  evalNumbers over the stable priority order          (definition)
                 =  reduceByOrder in that order                          (C14)
                 =  splitEval by the real sort key over positions        (L3)
                 =  splitEval by the priority alone over positions       (L4)
                 =  splitEval by the priority over operator records      (`splitEval_map`)
                 =  denoteS                                              (L5)
                 =  denote                                               (ReduceSplit)
-/
import Exmex.Proofs.FlatDenote
import Exmex.Proofs.Bump
import Exmex.Proofs.SortSplit
import Exmex.Proofs.ReduceSplit
import Exmex.Proofs.Vars
import Exmex.Props.C14
namespace Exmex
namespace C01Assembly

/-! ### variables: every occurring name has a slot -/

theorem mem_dedupAdj {β} [DecidableEq β] (x : β) : ∀ l : List β, x ∈ dedupAdj l ↔ x ∈ l
  | [] => by simp [dedupAdj]
  | [a] => by simp [dedupAdj]
  | a :: b :: rest => by
    have ih := mem_dedupAdj x (b :: rest)
    simp only [dedupAdj]
    split
    · next h =>
      subst h
      rw [ih]
      simp
    · rw [List.mem_cons, ih, List.mem_cons (a := x) (b := a)]

theorem mem_sortDedup (x : Str) (l : List Str) : x ∈ sortDedup l ↔ x ∈ l := by
  unfold sortDedup
  rw [mem_dedupAdj]
  exact (Exmex.sortBy_perm strLe l).mem_iff

/-- the environment built from the value vector is what the nodes read -/
theorem envOf_spec {α} (vars : List Str) (vals : List α) (dflt : α) (x : Str)
    (hlen : vals.length = vars.length) (hx : x ∈ vars) :
    vals[varIndex vars x]? = some (envOf vars vals dflt x) := by
  unfold varIndex envOf
  cases h : vars.idxOf? x with
  | none => exact absurd hx (List.idxOf?_eq_none_iff.1 h)
  | some i =>
    obtain ⟨hi, -⟩ := List.idxOf?_eq_some_iff.1 h
    have hi' : i < vals.length := by omega
    simp [List.getD_eq_getElem?_getD, List.getElem?_eq_getElem hi']

theorem chain_env {α} (c : Chain α) (vals : List α) (dflt : α)
    (hlen : vals.length = c.vars.length) :
    ∀ x ∈ c.varOcc, vals[varIndex c.vars x]? = some (envOf c.vars vals dflt x) :=
  fun x hx => envOf_spec c.vars vals dflt x hlen ((mem_sortDedup x c.varOcc).2 hx)

/-! ### `splitEval` only looks at the operators of its list -/

theorem splitEval_congr {α ω : Type} (apply apply' : ω → α → α → α) (key : ω → Int) :
    ∀ (fuel : Nat) (vs : List α) (os : List ω), (∀ o ∈ os, apply o = apply' o) →
      splitEval apply key fuel vs os = splitEval apply' key fuel vs os := by
  intro fuel
  induction fuel with
  | zero =>
    intro vs os _
    by_cases h : ∃ v, vs = [v] ∧ os = []
    · obtain ⟨v, rfl, rfl⟩ := h
      simp [splitEval.eq_1]
    · rw [splitEval.eq_2, splitEval.eq_2]
      · intro v h1 h2; exact h ⟨v, h1, h2⟩
      · intro v h1 h2; exact h ⟨v, h1, h2⟩
  | succ fuel ih =>
    intro vs os hos
    by_cases h : ∃ v, vs = [v] ∧ os = []
    · obtain ⟨v, rfl, rfl⟩ := h
      simp [splitEval.eq_1]
    · rw [splitEval.eq_3, splitEval.eq_3]
      · rw [ih _ (os.take _) (fun o ho => hos o (List.mem_of_mem_take ho)),
          ih _ (os.drop _) (fun o ho => hos o (List.mem_of_mem_drop ho))]
        cases ho : os[argminR (List.map key os)]? with
        | none => rfl
        | some o => simp only [hos o (List.mem_of_getElem? ho)]
      · intro v h1 h2; exact h ⟨v, h1, h2⟩
      · intro v h1 h2; exact h ⟨v, h1, h2⟩

theorem range_map_getD {β} [Inhabited β] (l : List β) :
    (List.range l.length).map (fun k => l.getD k default) = l := by
  apply List.ext_getElem
  · simp
  · intro i h1 h2
    simp [List.getD_eq_getElem?_getD, List.getElem?_eq_getElem h2]

/-! ### the commutativity flag of a flattened operator comes from the table -/

/-- a flagged flat operator is flagged in the table -/
def FlagOK (t : Table) (o : FlatOp) : Prop :=
  o.comm = true → ∃ b, (t[o.idx]?).bind (·.bin) = some b ∧ b.comm = true

theorem mkFlatOp_flagOK (t : Table) (o : Nat) (d : Int) : FlagOK t (mkFlatOp t o d) := by
  unfold FlagOK mkFlatOp
  cases h : (t[o]?).bind (·.bin) with
  | none => simp
  | some b => intro hc; exact ⟨b, h, hc⟩

theorem forall_mem_modify {β} (P : β → Prop) (f : β → β) (hf : ∀ x, P x → P (f x)) :
    ∀ (l : List β) (k : Nat), (∀ x ∈ l, P x) → ∀ x ∈ l.modify k f, P x
  | [], k, _ => by simp
  | a :: l, 0, h => by
    intro x hx
    rw [List.modify_zero_cons] at hx
    rcases List.mem_cons.1 hx with rfl | hx
    · exact hf a (h a (List.mem_cons_self ..))
    · exact h x (List.mem_cons_of_mem _ hx)
  | a :: l, k + 1, h => by
    intro x hx
    rw [List.modify_succ_cons] at hx
    rcases List.mem_cons.1 hx with rfl | hx
    · exact h _ (List.mem_cons_self ..)
    · exact forall_mem_modify P f hf l k (fun y hy => h y (List.mem_cons_of_mem _ hy)) x hx

theorem attachUnary_flagOK {α} (t : Table) (us : List Nat) (g : List (FlatNode α) × List FlatOp)
    (h : ∀ o ∈ g.2, FlagOK t o) : ∀ o ∈ (attachUnary us g).2, FlagOK t o := by
  unfold attachUnary
  split
  · exact h
  · split
    · exact forall_mem_modify (FlagOK t) (fun o => { o with un := us ++ o.un })
        (fun x hx => hx) _ _ h
    · split
      · exact h
      · exact h

theorem forall_mem_join {β} (P : β → Prop) (A : List β) (x : β) (B : List β)
    (hA : ∀ o ∈ A, P o) (hx : P x) (hB : ∀ o ∈ B, P o) : ∀ o ∈ A ++ [x] ++ B, P o := by
  intro o ho
  simp only [List.mem_append, List.mem_singleton] at ho
  rcases ho with (ho | rfl) | ho
  · exact hA o ho
  · exact hx
  · exact hB o ho

mutual
theorem atom_flagOK {α} (I : Interp α) (t : Table) (vars : List Str) :
    ∀ (a : Atom α) (us : List Nat) (d : Int), ∀ o ∈ (a.flat I t vars us d).2, FlagOK t o
  | .lit _ _, us, d => by simp [Atom.flat]
  | .var _ _, us, d => by simp [Atom.flat]
  | .const _, us, d => by simp [Atom.flat]
  | .par c, us, d => by
    rw [Atom.flat]
    exact attachUnary_flagOK t us _ (chain_flagOK I t vars c (d + 1))
  | .call o a b, us, d => by
    rw [Atom.flat]
    exact attachUnary_flagOK t us _
      (forall_mem_join _ _ _ _ (chain_flagOK I t vars a (d + 2)) (mkFlatOp_flagOK t o (d + 1))
        (chain_flagOK I t vars b (d + 2)))
  | .un u a, us, d => by
    rw [Atom.flat]
    exact atom_flagOK I t vars a (us ++ [u]) d
theorem chain_flagOK {α} (I : Interp α) (t : Table) (vars : List Str) :
    ∀ (c : Chain α) (d : Int), ∀ o ∈ (c.flat I t vars d).2, FlagOK t o
  | .single a, d => by
    rw [Chain.flat]
    exact atom_flagOK I t vars a [] d
  | .cons a o rest, d => by
    rw [Chain.flat]
    exact forall_mem_join _ _ _ _ (atom_flagOK I t vars a [] d) (mkFlatOp_flagOK t o d)
      (chain_flagOK I t vars rest d)
end

/-! ### from positions back to operator records -/

/-- `splitEval` over positions with the priority key = `splitEval` over the operator records -/
theorem splitEval_positions {α} (I : Interp α) (ops : List FlatOp) (fuel : Nat) (vs : List α) :
    splitEval (flatApplyT I ops) (fun k => (ops.getD k default).prio) fuel vs
        (List.range ops.length) =
      splitEval (FlatOp.act I) (fun o => o.prio) fuel vs ops := by
  have h1 := splitEval_map (fun k => ops.getD k default) (FlatOp.act I) (fun o => o.prio) fuel vs
    (List.range ops.length)
  rw [range_map_getD] at h1
  rw [h1]
  apply splitEval_congr
  intro k hk
  have hk' : k < ops.length := List.mem_range.1 hk
  funext a b
  simp [flatApplyT, FlatOp.act, List.getElem?_eq_getElem hk', List.getD_eq_getElem?_getD]

/-! ### the assembled statement -/

/-- the evaluation of a flat expression with the structure of a well-formed chain -/
theorem eval_flat {α} (I : Interp α) (t : Table)
    (hA : ∀ o b, (t[o]?).bind (·.bin) = some b → b.comm = true →
      ∀ x y z, I.bin o (I.bin o x y) z = I.bin o x (I.bin o y z))
    (c : Chain α) (hc : c.WF t) (vals : List α) (hlen : vals.length = c.vars.length)
    (f : FlatEx α) (hnodes : f.nodes = (c.flat I t c.vars 0).1)
    (hops : f.ops = (c.flat I t c.vars 0).2)
    (hprio : f.prioIdx = prioIdxFlat f.ops f.nodes) (hvars : f.vars = c.vars) :
    ∃ v, c.denote I t (envOf c.vars vals I.dflt) = some v ∧ f.eval I vals = .ok v := by
  obtain ⟨nodes, ops, prioIdx, fvars, text⟩ := f
  simp only at hnodes hops hprio hvars
  subst hprio hvars
  obtain ⟨hl, hU, -, numbers, v, hn, hv, hs⟩ := flat_denote I t c hc c.vars vals
    (envOf c.vars vals I.dflt) (chain_env c vals I.dflt hlen) 0
  have hflag := chain_flagOK I t c.vars c 0
  rw [← hnodes] at hl hn
  rw [← hops] at hl hU hs hflag
  have hnl : numbers.length = ops.length + 1 := by
    rw [FlatDenoteAux.nodeValues_length I vals hn, hl]
  have hne : numbers ≠ [] := by
    intro h; rw [h] at hnl; simp at hnl
  have hB : BumpOK I ops :=
    ⟨fun o ho hcomm => by
      obtain ⟨b, hb, hbc⟩ := hflag o ho hcomm
      exact hA o.idx b hb hbc, hU⟩
  refine ⟨v, by rw [← denoteS_eq_denote]; exact hv, ?_⟩
  -- the implementation side
  obtain ⟨v1, hr1, he⟩ := C14.evalNumbers_any_order I numbers ops
    (orderByKey (sortKey ops nodes) ops.length) hnl (orderByKey_valid _ _)
  obtain ⟨v2, hr2, hs2⟩ := reduceByOrder_sorted_eq_splitEval (flatApplyT I ops)
    (sortKey ops nodes) numbers hne
  have hm : numbers.length - 1 = ops.length := by omega
  rw [hm] at hr2 hs2
  rw [hr1] at hr2
  rw [splitEval_bump I ops nodes numbers hnl hB, splitEval_positions,
    splitEval_fuel_mono _ _ numbers.length ops.length numbers ops hnl (by omega) (Nat.le_refl _),
    hs] at hs2
  have hv12 : v1 = v := by
    injection hr2 with h1
    injection hs2 with h2
    rw [h1, ← h2]
  unfold FlatEx.eval evalCloning
  simp only [hn]
  simp only [hlen, bne_self_eq_false, Bool.false_eq_true, if_false]
  rw [← hv12]
  exact he

end C01Assembly
end Exmex
