/-
  Auxiliary lemmas for `ReduceSplit`: specification of `argmaxL` / `argminR`, fuel independence of
  `splitEval`, and the one-step lemma "merging at a local maximum commutes with `splitEval`".
-/
import Exmex.Spec.Surface
import Exmex.Spec.Split
namespace Exmex
namespace ReduceSplitAux



theorem argminR_lt : ∀ (l : List Int), l ≠ [] → argminR l < l.length
  | [], h => absurd rfl h
  | [_], _ => by simp [argminR]
  | a :: b :: r, _ => by
    have ih := argminR_lt (b :: r) (by simp)
    simp only [argminR]
    split <;> simp_all <;> omega

theorem argminR_le : ∀ (l : List Int) (j : Nat), j < l.length →
    l.getD (argminR l) 0 ≤ l.getD j 0
  | [], j, h => by simp at h
  | [_], j, h => by
    have : j = 0 := by simpa using h
    subst this; simp [argminR]
  | a :: b :: r, j, h => by
    have ih := argminR_le (b :: r)
    simp only [argminR]
    split
    · rename_i hle
      cases j with
      | zero => simpa using hle
      | succ j => simpa using ih j (by simpa using h)
    · rename_i hle
      cases j with
      | zero => simp
      | succ j =>
        have := ih j (by simpa using h)
        simp at hle this ⊢
        omega

theorem argminR_lt_right : ∀ (l : List Int) (j : Nat), argminR l < j → j < l.length →
    l.getD (argminR l) 0 < l.getD j 0
  | [], j, _, h => by simp at h
  | [_], j, h1, h => by simp at h; omega
  | a :: b :: r, j, h1, h => by
    have ih := argminR_lt_right (b :: r)
    have ih2 := argminR_le (b :: r)
    simp only [argminR] at h1 ⊢
    split
    · rename_i hle
      rw [if_pos hle] at h1
      cases j with
      | zero => omega
      | succ j => simpa using ih j (by omega) (by simpa using h)
    · rename_i hle
      cases j with
      | zero => omega
      | succ j =>
        have := ih2 j (by simpa using h)
        simp at hle this ⊢
        omega

theorem argminR_unique (l : List Int) (p : Nat) (hp : p < l.length)
    (h1 : ∀ j, j < l.length → l.getD p 0 ≤ l.getD j 0)
    (h2 : ∀ j, p < j → j < l.length → l.getD p 0 < l.getD j 0) : argminR l = p := by
  have hne : l ≠ [] := by intro h; simp [h] at hp
  have q1 := argminR_lt l hne
  have q2 := argminR_le l
  have q3 := argminR_lt_right l
  rcases Nat.lt_trichotomy (argminR l) p with h | h | h
  · have := q3 p h hp; have := h1 _ q1; omega
  · exact h
  · have := h2 _ h q1; have := q2 p hp; omega

theorem argmaxL_lt : ∀ (l : List Int), l ≠ [] → argmaxL l < l.length
  | [], h => absurd rfl h
  | [_], _ => by simp [argmaxL]
  | a :: b :: r, _ => by
    have ih := argmaxL_lt (b :: r) (by simp)
    simp only [argmaxL]
    split <;> simp_all <;> omega

theorem argmaxL_ge : ∀ (l : List Int) (j : Nat), j < l.length →
    l.getD j 0 ≤ l.getD (argmaxL l) 0
  | [], j, h => by simp at h
  | [_], j, h => by
    have : j = 0 := by simpa using h
    subst this; simp [argmaxL]
  | a :: b :: r, j, h => by
    have ih := argmaxL_ge (b :: r)
    simp only [argmaxL]
    split
    · rename_i hle
      cases j with
      | zero => simp at hle ⊢; omega
      | succ j => simpa using ih j (by simpa using h)
    · rename_i hle
      cases j with
      | zero => simp
      | succ j =>
        have := ih j (by simpa using h)
        simp at hle this ⊢
        omega

theorem argmaxL_gt_left : ∀ (l : List Int) (j : Nat), j < argmaxL l →
    l.getD j 0 < l.getD (argmaxL l) 0
  | [], j, h => by simp [argmaxL] at h
  | [_], j, h => by simp [argmaxL] at h
  | a :: b :: r, j, h => by
    have ih := argmaxL_gt_left (b :: r)
    have ih2 := argmaxL_ge (b :: r)
    have ih3 := argmaxL_lt (b :: r) (by simp)
    simp only [argmaxL] at h ⊢
    split
    · rename_i hle
      rw [if_pos hle] at h
      cases j with
      | zero => simpa using hle
      | succ j => simpa using ih j (by omega)
    · rename_i hle
      rw [if_neg hle] at h
      omega




theorem splitEval_cons {α ω : Type} (apply : ω → α → α → α) (key : ω → Int)
    (fuel : Nat) (vs : List α) (os : List ω) (h : os ≠ []) :
    splitEval apply key (fuel + 1) vs os =
      match os[argminR (os.map key)]? with
      | none => none
      | some o =>
        match splitEval apply key fuel (vs.take (argminR (os.map key) + 1)) (os.take (argminR (os.map key))),
              splitEval apply key fuel (vs.drop (argminR (os.map key) + 1)) (os.drop (argminR (os.map key) + 1)) with
        | some l, some r => some (apply o l r)
        | _, _ => none := by
  rw [splitEval.eq_3 _ _ _ _ _ (by intro v _ h2; exact h h2)]
  rfl

theorem splitEval_fuel_mono_aux {α ω : Type} (apply : ω → α → α → α) (key : ω → Int) :
    ∀ (fuel fuel' : Nat) (vs : List α) (os : List ω), vs.length = os.length + 1 →
    os.length ≤ fuel → os.length ≤ fuel' →
    splitEval apply key fuel vs os = splitEval apply key fuel' vs os := by
  intro fuel
  induction fuel with
  | zero =>
    intro fuel' vs os h hf hf'
    have : os = [] := by simpa using hf
    subst this
    match vs, h with
    | [v], _ => simp [splitEval.eq_1]
  | succ f ih =>
    intro fuel' vs os h hf hf'
    by_cases hos : os = []
    · subst hos
      match vs, h with
      | [v], _ => simp [splitEval.eq_1]
    · have hpos : 0 < os.length := List.length_pos_iff.mpr hos
      obtain ⟨f', rfl⟩ : ∃ f', fuel' = f' + 1 := ⟨fuel' - 1, by omega⟩
      have hp := argminR_lt (os.map key) (by simpa using hos)
      simp only [List.length_map] at hp
      rw [splitEval_cons _ _ _ _ _ hos, splitEval_cons _ _ _ _ _ hos]
      rw [ih f' (vs.take _) (os.take _) (by simp; omega) (by simp; omega) (by simp; omega)]
      rw [ih f' (vs.drop _) (os.drop _) (by simp; omega) (by simp; omega) (by simp; omega)]
/-- `k` is a strict local maximum to the left and a weak one to the right -/
def LocalMax (l : List Int) (k : Nat) : Prop :=
  (∀ j, j + 1 = k → l.getD j 0 < l.getD k 0) ∧ (k + 1 < l.length → l.getD (k + 1) 0 ≤ l.getD k 0)

theorem LocalMax.ne_argminR {l : List Int} {k : Nat} (h : LocalMax l k) (hk : k < l.length)
    (h2 : 2 ≤ l.length) : k ≠ argminR l := by
  intro e
  have q2 := argminR_le l
  have q3 := argminR_lt_right l
  rw [← e] at q2 q3
  cases k with
  | zero =>
    have := h.2 (by omega)
    simp only [Nat.zero_add] at this
    have := q3 1 (by omega) (by omega)
    omega
  | succ k =>
    have := h.1 k rfl
    have := q2 k (by omega)
    omega

theorem getD_eraseIdx (l : List Int) (k j : Nat) :
    (l.eraseIdx k).getD j 0 = if j < k then l.getD j 0 else l.getD (j + 1) 0 := by
  simp only [List.getD_eq_getElem?_getD, List.getElem?_eraseIdx]
  split <;> rfl

theorem argminR_eraseIdx (l : List Int) (k : Nat) (hk : k < l.length) (hne : k ≠ argminR l) :
    argminR (l.eraseIdx k) = if k < argminR l then argminR l - 1 else argminR l := by
  have q1 := argminR_lt l (by intro h; simp [h] at hk)
  have q2 := argminR_le l
  have q3 := argminR_lt_right l
  have hlen : (l.eraseIdx k).length = l.length - 1 := List.length_eraseIdx_of_lt hk
  apply argminR_unique
  · rw [hlen]; split <;> omega
  · intro j hj
    rw [hlen] at hj
    rw [getD_eraseIdx, getD_eraseIdx]
    split
    · rw [if_neg (by omega), show argminR l - 1 + 1 = argminR l by omega]
      split
      · exact q2 _ (by omega)
      · exact q2 _ (by omega)
    · rw [if_pos (by omega)]
      split
      · exact q2 _ (by omega)
      · exact q2 _ (by omega)
  · intro j hpj hj
    rw [hlen] at hj
    rw [getD_eraseIdx, getD_eraseIdx]
    split
    · rename_i hkp
      rw [if_neg (by omega), show argminR l - 1 + 1 = argminR l by omega]
      rw [if_pos hkp] at hpj
      split
      · exact q3 _ (by omega) (by omega)
      · exact q3 _ (by omega) (by omega)
    · rename_i hkp
      rw [if_neg hkp] at hpj
      rw [if_pos (by omega)]
      split
      · exact q3 _ (by omega) (by omega)
      · exact q3 _ (by omega) (by omega)



theorem map_eraseIdx' {α β} (f : α → β) (l : List α) (k : Nat) :
    (l.eraseIdx k).map f = (l.map f).eraseIdx k := by
  apply List.ext_getElem?
  intro i
  grind

theorem LocalMax.take {l : List Int} {k p : Nat} (h : LocalMax l k) (hk : k < p) :
    LocalMax (l.take p) k := by
  constructor
  · intro j hj
    have := h.1 j hj
    simp only [List.getD_eq_getElem?_getD, List.getElem?_take] at this ⊢
    rwa [if_pos (by omega), if_pos (by omega)]
  · intro hk1
    have hk1' : k + 1 < p ∧ k + 1 < l.length := by
      simp only [List.length_take] at hk1; omega
    have := h.2 hk1'.2
    simp only [List.getD_eq_getElem?_getD, List.getElem?_take] at this ⊢
    rwa [if_pos (by omega), if_pos (by omega)]

theorem LocalMax.drop {l : List Int} {k q : Nat} (h : LocalMax l k) (hk : q ≤ k) :
    LocalMax (l.drop q) (k - q) := by
  constructor
  · intro j hj
    have := h.1 (q + j) (by omega)
    simp only [List.getD_eq_getElem?_getD, List.getElem?_drop] at this ⊢
    rwa [show q + (k - q) = k by omega]
  · intro hk1
    have hk1' : k + 1 < l.length := by
      simp only [List.length_drop] at hk1; omega
    have := h.2 hk1'
    simp only [List.getD_eq_getElem?_getD, List.getElem?_drop] at this ⊢
    rwa [show q + (k - q) = k by omega, show q + (k - q + 1) = k + 1 by omega]


section
variable {α : Type} (vs : List α) (x : α) (k p : Nat)

theorem mg_take_lt (h : k < p) :
    ((vs.eraseIdx (k + 1)).set k x).take (p - 1 + 1) = ((vs.take (p + 1)).eraseIdx (k + 1)).set k x := by
  apply List.ext_getElem?; intro i; grind
theorem er_take_lt (h : k < p) : (vs.eraseIdx k).take (p - 1) = (vs.take p).eraseIdx k := by
  apply List.ext_getElem?; intro i; grind
theorem mg_drop_lt (h : k < p) (_hk : k + 1 < vs.length) :
    ((vs.eraseIdx (k + 1)).set k x).drop (p - 1 + 1) = vs.drop (p + 1) := by
  apply List.ext_getElem?; intro i; grind
theorem er_drop_lt (h : k < p) (_hk : k < vs.length) :
    (vs.eraseIdx k).drop (p - 1 + 1) = vs.drop (p + 1) := by
  apply List.ext_getElem?; intro i; grind
theorem mg_take_gt (h : p < k) :
    ((vs.eraseIdx (k + 1)).set k x).take (p + 1) = vs.take (p + 1) := by
  apply List.ext_getElem?; intro i; grind
theorem er_take_gt (h : p < k) : (vs.eraseIdx k).take p = vs.take p := by
  apply List.ext_getElem?; intro i; grind
theorem mg_drop_gt (h : p < k) :
    ((vs.eraseIdx (k + 1)).set k x).drop (p + 1) =
      ((vs.drop (p + 1)).eraseIdx (k - (p + 1) + 1)).set (k - (p + 1)) x := by
  apply List.ext_getElem?; intro i; grind
theorem er_drop_gt (h : p < k) :
    (vs.eraseIdx k).drop (p + 1) = (vs.drop (p + 1)).eraseIdx (k - (p + 1)) := by
  apply List.ext_getElem?; intro i; grind
end
theorem splitEval_merge {α ω : Type} (apply : ω → α → α → α) (key : ω → Int) :
    ∀ (f : Nat) (vs : List α) (os : List ω) (k : Nat) (o : ω) (a b : α),
    vs.length = os.length + 1 → os.length ≤ f + 1 → os[k]? = some o → vs[k]? = some a →
    vs[k + 1]? = some b → LocalMax (os.map key) k →
    splitEval apply key f ((vs.eraseIdx (k + 1)).set k (apply o a b)) (os.eraseIdx k) =
      splitEval apply key (f + 1) vs os := by
  intro f
  induction f with
  | zero =>
    intro vs os k o a b hlen hf ho ha hb hloc
    have hk : k < os.length := (List.getElem?_eq_some_iff.mp ho).1
    have h1 : os.length = 1 := by omega
    obtain ⟨o', rfl⟩ := List.length_eq_one_iff.mp h1
    have hk0 : k = 0 := by simpa using hk
    subst hk0
    match vs, hlen with
    | [a', b'], _ =>
      simp at ho ha hb
      subst ho ha hb
      simp [splitEval_cons, splitEval.eq_1, argminR]
  | succ f ih =>
    intro vs os k o a b hlen hf ho ha hb hloc
    have hk : k < os.length := (List.getElem?_eq_some_iff.mp ho).1
    by_cases h1 : os.length = 1
    · obtain ⟨o', rfl⟩ := List.length_eq_one_iff.mp h1
      have hk0 : k = 0 := by simpa using hk
      subst hk0
      match vs, hlen with
      | [a', b'], _ =>
        simp at ho ha hb
        subst ho ha hb
        simp [splitEval_cons, splitEval.eq_1, argminR]
    · have h2 : 2 ≤ os.length := by omega
      have hos : os ≠ [] := by intro h; simp [h] at hk
      have hos' : os.eraseIdx k ≠ [] := by
        intro h
        have := congrArg List.length h
        rw [List.length_eraseIdx_of_lt hk] at this
        simp at this; omega
      have hp : argminR (os.map key) < os.length := by
        simpa using argminR_lt (os.map key) (by simpa using hos)
      have hkp : k ≠ argminR (os.map key) := hloc.ne_argminR (by simpa using hk) (by simpa using h2)
      have hp' := argminR_eraseIdx (os.map key) k (by simpa using hk) hkp
      rw [← map_eraseIdx'] at hp'
      rw [splitEval_cons _ _ _ _ _ hos', splitEval_cons _ _ _ _ _ hos, hp']
      generalize argminR (os.map key) = p at *
      have hk1 : k + 1 < vs.length := by omega
      by_cases hlt : k < p
      · rw [if_pos hlt]
        have e0 : (os.eraseIdx k)[p - 1]? = os[p]? := by
          rw [List.getElem?_eraseIdx_of_ge (by omega), show p - 1 + 1 = p by omega]
        have e1 : splitEval apply key f (List.take (p - 1 + 1) ((vs.eraseIdx (k + 1)).set k (apply o a b)))
              (List.take (p - 1) (os.eraseIdx k)) =
            splitEval apply key (f + 1) (List.take (p + 1) vs) (List.take p os) := by
          rw [← ih (vs.take (p + 1)) (os.take p) k o a b (by simp; omega) (by simp; omega)
            (by rw [List.getElem?_take, if_pos hlt]; exact ho)
            (by rw [List.getElem?_take, if_pos (by omega)]; exact ha)
            (by rw [List.getElem?_take, if_pos (by omega)]; exact hb)
            (by rw [List.map_take]; exact hloc.take hlt)]
          rw [mg_take_lt _ _ _ _ hlt, er_take_lt _ _ _ hlt]
        have e2 : splitEval apply key f (List.drop (p - 1 + 1) ((vs.eraseIdx (k + 1)).set k (apply o a b)))
              (List.drop (p - 1 + 1) (os.eraseIdx k)) =
            splitEval apply key (f + 1) (List.drop (p + 1) vs) (List.drop (p + 1) os) := by
          rw [mg_drop_lt _ _ _ _ hlt hk1, er_drop_lt _ _ _ hlt hk]
          exact splitEval_fuel_mono_aux apply key f (f + 1) _ _ (by simp; omega) (by simp; omega) (by simp; omega)
        rw [e0, e1, e2]
      · rw [if_neg hlt]
        have hgt : p < k := by omega
        have e0 : (os.eraseIdx k)[p]? = os[p]? := List.getElem?_eraseIdx_of_lt hgt
        have e1 : splitEval apply key f (List.take (p + 1) ((vs.eraseIdx (k + 1)).set k (apply o a b)))
              (List.take p (os.eraseIdx k)) =
            splitEval apply key (f + 1) (List.take (p + 1) vs) (List.take p os) := by
          rw [mg_take_gt _ _ _ _ hgt, er_take_gt _ _ _ hgt]
          exact splitEval_fuel_mono_aux apply key f (f + 1) _ _ (by simp; omega) (by simp; omega) (by simp; omega)
        have e2 : splitEval apply key f (List.drop (p + 1) ((vs.eraseIdx (k + 1)).set k (apply o a b)))
              (List.drop (p + 1) (os.eraseIdx k)) =
            splitEval apply key (f + 1) (List.drop (p + 1) vs) (List.drop (p + 1) os) := by
          rw [← ih (vs.drop (p + 1)) (os.drop (p + 1)) (k - (p + 1)) o a b (by simp; omega) (by simp; omega)
            (by rw [List.getElem?_drop, show p + 1 + (k - (p + 1)) = k by omega]; exact ho)
            (by rw [List.getElem?_drop, show p + 1 + (k - (p + 1)) = k by omega]; exact ha)
            (by rw [List.getElem?_drop, show p + 1 + (k - (p + 1) + 1) = k + 1 by omega]; exact hb)
            (by rw [List.map_drop]; exact hloc.drop hgt)]
          rw [mg_drop_gt _ _ _ _ hgt, er_drop_gt _ _ _ hgt]
        rw [e0, e1, e2]

theorem merge_eq {α} (vs : List α) (x : α) (k : Nat) (_h : k + 1 < vs.length) :
    vs.take k ++ [x] ++ vs.drop (k + 2) = (vs.eraseIdx (k + 1)).set k x := by
  apply List.ext_getElem?; intro i; grind

theorem localMax_argmaxL (l : List Int) : LocalMax l (argmaxL l) :=
  ⟨fun j hj => argmaxL_gt_left l j (by omega), fun h => argmaxL_ge l _ h⟩

end ReduceSplitAux
end Exmex
