/-
  Regression checks and counterexamples around `C07.unbalanced_text_rejected` /
  `C07.accepted_balanced`. Everything here is checked by kernel evaluation of the model
  (`decide +kernel`: kernel reduction only, no extra axioms).

  1. `repaired₁`, `repaired₂` (REGRESSION; formerly the counterexamples `repair₁`, `repair₂`):
     the comma rewrite used to repair unmatched closing parentheses,
       `1+max 1)*((1,2)`              ↦ `1+(1)*((1)max(2))`                     = 3
       `max(max 1)))*max(1,(2,(3,4))` ↦ `(((1)))*((1)max((2)max((3)max(4))))`   = 4
     (the second text has 4 opening and 5 closing parentheses). With the repaired tokenizer (a
     comma after an unmatched `)` is an error) all three parsers REJECT both texts, with the
     error kind `comma_after_unmatched_paren`.
  2. `emptyLit`: a literal matcher matching the empty string — `1+?)))` is accepted as `1+0`,
     the tokenizer never looks at `)))`.
  3. `emptyOp`: an operator (here a constant) with an empty name — same effect.
  2 and 3 show that the hypothesis `NonemptyTokens` cannot be dropped (`nonempty_needed`).
-/
import Exmex.Props.C07Balance
namespace Exmex.BalanceCex
open Exmex Exmex.C07

def tbl : Table := [
  { repr := ['+'], bin := some { prio := 1, comm := false } },
  { repr := ['-'], bin := some { prio := 1, comm := false }, unary := true },
  { repr := ['*'], bin := some { prio := 2, comm := false } },
  { repr := ['m', 'a', 'x'], bin := some { prio := 3, comm := false } }]

/-- `tbl` plus a constant with an empty name -/
def tblE : Table := tbl ++ [{ repr := [], const := true }]

def II : Interp Int where
  bin := fun i x y => match i with
    | 0 => x + y | 1 => x - y | 2 => x * y | _ => if x ≤ y then y else x
  un := fun _ x => -x
  const := fun _ => 0
  ofLit := fun s => some (s.foldl (fun acc c => acc * 10 + ((c.toNat : Int) - 48)) 0)
  dflt := 0

/-- the numeric literal matcher, plus: a text starting with `?` starts with an empty literal -/
def lmE (s : Str) : Option Nat := if s.head? = some '?' then some 0 else isNumericText s

def text₁ : Str := "1+max 1)*((1,2)".toList
def text₂ : Str := "max(max 1)))*max(1,(2,(3,4))".toList
def text₃ : Str := "1+?)))".toList

/-- evaluation of a closed expression -/
def value (r : Res (FlatEx Int)) : Option Int :=
  match r with
  | .ok f => (match f.eval II [] with | .ok v => some v | .error _ => none)
  | .error _ => none

/-- the error kind of a rejected text -/
def errKind {β} : Res β → Option String
  | .error (.err k) => some k
  | _ => none

/-! ### the hypotheses of the theorems hold for the tables and matchers used here -/

theorem numeric_clean (c : Char) (h : (isAsciiDigit c || c == '.') = true) : parenChar c = false := by
  cases hp : parenChar c with
  | false => rfl
  | true =>
    simp only [parenChar, Bool.or_eq_true, beq_iff_eq] at hp
    rcases hp with ((rfl | rfl) | rfl) | rfl <;> revert h <;> decide

theorem isNumericText_clean (s : Str) (n : Nat) (h : isNumericText s = some n) :
    0 < n ∧ ∀ c ∈ s.take n, parenChar c = false := by
  unfold isNumericText at h
  simp only at h
  split at h
  · rename_i hcond
    cases h
    refine ⟨?_, ?_⟩
    · simp only [Bool.or_eq_true, Bool.and_eq_true, decide_eq_true_eq, beq_iff_eq] at hcond
      omega
    · rw [take_length_takeWhile]
      intro c hc
      exact numeric_clean c (mem_takeWhile_imp _ c hc)
  · cases h

theorem clean_tbl : CleanTokens tbl isNumericText :=
  ⟨by decide, fun s n h => (isNumericText_clean s n h).2⟩

theorem nonempty_tbl : NonemptyTokens tbl isNumericText :=
  ⟨by decide, fun s n h => (isNumericText_clean s n h).1⟩

theorem clean_tblE : CleanTokens tblE isNumericText :=
  ⟨by decide, fun s n h => (isNumericText_clean s n h).2⟩

theorem clean_lmE : CleanTokens tbl lmE := by
  refine ⟨by decide, fun s n h => ?_⟩
  unfold lmE at h
  split at h
  · cases h; simp
  · exact (isNumericText_clean s n h).2

/-! ### 1. regression: the comma rewrite no longer repairs unmatched closing parentheses -/

theorem text₁_unbalanced : ¬ Balanced text₁ := by unfold Balanced; decide +kernel
theorem text₂_unbalanced : ¬ Balanced text₂ := by unfold Balanced; decide +kernel
theorem text₃_unbalanced : ¬ Balanced text₃ := by unfold Balanced; decide +kernel

/-- `1+max 1)*((1,2)` (formerly accepted with value 3) is rejected by all three parsers, at the
    first comma after the unmatched `)` -/
theorem repaired₁ :
    errKind (Flat.parse II tbl isNumericText text₁) = some "comma_after_unmatched_paren" ∧
    errKind (Flat.parseWoCompile II tbl isNumericText text₁) = some "comma_after_unmatched_paren" ∧
    errKind (Deep.parse II tbl isNumericText text₁) = some "comma_after_unmatched_paren" := by
  decide +kernel

/-- `max(max 1)))*max(1,(2,(3,4))` (formerly accepted with value 4) is rejected by all three
    parsers, at the first comma after the unmatched `)` -/
theorem repaired₂ :
    errKind (Flat.parse II tbl isNumericText text₂) = some "comma_after_unmatched_paren" ∧
    errKind (Flat.parseWoCompile II tbl isNumericText text₂) = some "comma_after_unmatched_paren" ∧
    errKind (Deep.parse II tbl isNumericText text₂) = some "comma_after_unmatched_paren" := by
  decide +kernel

/-- in the form of the former acceptance statements: no value, no parser accepts -/
theorem repaired_not_ok :
    value (Flat.parse II tbl isNumericText text₁) = none ∧
    (Flat.parseWoCompile II tbl isNumericText text₁).isOk = false ∧
    (Deep.parse II tbl isNumericText text₁).isOk = false ∧
    value (Flat.parse II tbl isNumericText text₂) = none ∧
    (Flat.parseWoCompile II tbl isNumericText text₂).isOk = false ∧
    (Deep.parse II tbl isNumericText text₂).isOk = false := by decide +kernel

/-- the tokenizer itself stops at that comma (it no longer returns the repaired token list
    `(((1)))*((1)max((2)max((3)max(4))))` for `text₂`) -/
theorem repaired_tokens :
    errKind (tokenize II tbl isNumericText text₁) = some "comma_after_unmatched_paren" ∧
    errKind (tokenize II tbl isNumericText text₂) = some "comma_after_unmatched_paren" := by
  decide +kernel

/-- the same, as instances of the general theorem (no evaluation needed) -/
theorem repaired_by_theorem (text : Str) (h : text = text₁ ∨ text = text₂) :
    (∃ e, Flat.parse II tbl isNumericText text = .error e) ∧
    (∃ e, Flat.parseWoCompile II tbl isNumericText text = .error e) ∧
    (∃ e, Deep.parse II tbl isNumericText text = .error e) := by
  rcases h with rfl | rfl
  · exact unbalanced_text_rejected II tbl isNumericText clean_tbl nonempty_tbl _ text₁_unbalanced
  · exact unbalanced_text_rejected II tbl isNumericText clean_tbl nonempty_tbl _ text₂_unbalanced

/- HISTORY. Against the tokenizer before the repair this file proved
     `repair₁ : value (Flat.parse II tbl isNumericText text₁) = some 3 ∧ …isOk = true ∧ …isOk = true`,
     `repair₂ : value (Flat.parse II tbl isNumericText text₂) = some 4 ∧ …` and from them
     `original_statement_false : ¬ (∀ I t lm, CleanTokens t lm → NonemptyTokens t lm →
         ∀ text, ¬ Balanced text → ∃ e, Flat.parse I t lm text = .error e)`,
   i.e. that `C07.unbalanced_text_rejected` was false without the extra hypothesis
   `CommasBeforeDip text` (no comma after the first unmatched `)`). After the repair of the
   tokenizer (`LexSt.dipped`, error `comma_after_unmatched_paren`) the quantified statement is
   TRUE — it is `C07.unbalanced_text_rejected` — so `original_statement_false` has been removed and
   `repair₁`/`repair₂` have become the regression theorems `repaired₁`/`repaired₂` above. -/

/-- both texts do have a comma after the first unmatched `)` (the former hypothesis
    `CommasBeforeDip` fails for them): they exercise exactly the repaired branch -/
theorem text₁_commas : ¬ CommasBeforeDip text₁ := by
  intro h
  exact h "1+max 1)".toList "*((1,2)".toList (by decide +kernel) (by decide +kernel) (by decide +kernel)

/-! ### 2./3. tokens of length 0 make the tokenizer ignore the rest of the text -/

theorem emptyLit :
    value (Flat.parse II tbl lmE text₃) = some 1 ∧
    (Deep.parse II tbl lmE text₃).isOk = true := by decide +kernel

theorem emptyOp :
    value (Flat.parse II tblE isNumericText text₃) = some 1 ∧
    (Deep.parse II tblE isNumericText text₃).isOk = true := by decide +kernel

/-- `text₃` contains no comma: `NonemptyTokens` cannot be dropped from
    `unbalanced_commafree_rejected` -/
theorem nonempty_needed :
    ¬ (∀ (I : Interp Int) (t : Table) (lm : Str → Option Nat), CleanTokens t lm →
        ∀ text, ¬ Balanced text → ',' ∉ text → ∃ e, Flat.parse I t lm text = .error e) := by
  intro h
  obtain ⟨e, he⟩ := h II tbl lmE clean_lmE text₃ text₃_unbalanced (by decide +kernel)
  have := emptyLit.1
  rw [he] at this
  cases this

end Exmex.BalanceCex
