/-
  Generic lemmas on `argminR` / `splitEval`: fuel irrelevance and evaluation of a concatenation
  split at a right-most minimal operator.
-/
import Exmex.Spec.Split
namespace Exmex
namespace SplitLemmas

theorem argminR_cons (x : Int) {ks : List Int} (h : ks ≠ []) :
    argminR (x :: ks) = if ks.getD (argminR ks) 0 ≤ x then argminR ks + 1 else 0 := by
  cases ks with
  | nil => exact absurd rfl h
  | cons k ks => simp [argminR]

theorem argminR_lt : ∀ {ks : List Int}, ks ≠ [] → argminR ks < ks.length
  | [], h => absurd rfl h
  | [_], _ => by simp [argminR]
  | x :: k :: ks, _ => by
    have ih := argminR_lt (ks := k :: ks) (by simp)
    rw [argminR_cons x (by simp)]
    split <;> simp at * <;> omega

/-- the split position of a list decomposed at a right-most minimum -/
theorem argminR_eq (L : List Int) (k : Int) (R : List Int)
    (hL : ∀ x ∈ L, k ≤ x) (hR : ∀ x ∈ R, k < x) : argminR (L ++ k :: R) = L.length := by
  induction L with
  | nil =>
    cases R with
    | nil => simp [argminR]
    | cons r R =>
      rw [List.nil_append, argminR_cons k (by simp)]
      have hlt := argminR_lt (ks := r :: R) (by simp)
      have hmem : (r :: R).getD (argminR (r :: R)) 0 ∈ (r :: R) := by
        rw [List.getD_eq_getElem?_getD, List.getElem?_eq_getElem hlt, Option.getD_some]
        exact List.getElem_mem _
      have := hR _ hmem
      rw [if_neg (by omega)]; rfl
  | cons x L ih =>
    have ih := ih (fun y hy => hL y (List.mem_cons_of_mem _ hy))
    rw [List.cons_append, argminR_cons x (by simp), ih]
    have : (L ++ k :: R).getD L.length 0 = k := by simp [List.getD]
    rw [this, if_pos (hL x (List.mem_cons_self ..))]; rfl

/-- every non-empty list splits at a right-most minimum -/
theorem exists_split_min {ω : Type} (key : ω → Int) :
    ∀ (os : List ω), os ≠ [] → ∃ L o R, os = L ++ o :: R ∧
      (∀ x ∈ L, key o ≤ key x) ∧ (∀ x ∈ R, key o < key x)
  | [], h => absurd rfl h
  | [o], _ => ⟨[], o, [], rfl, by simp, by simp⟩
  | a :: b :: os, _ => by
    obtain ⟨L, o, R, he, hL, hR⟩ := exists_split_min key (b :: os) (by simp)
    by_cases h : key o ≤ key a
    · refine ⟨a :: L, o, R, by rw [he]; rfl, ?_, hR⟩
      intro x hx
      rcases List.mem_cons.1 hx with rfl | hx
      · exact h
      · exact hL x hx
    · refine ⟨[], a, b :: os, rfl, by simp, ?_⟩
      intro x hx
      rw [he] at hx
      rcases List.mem_append.1 hx with hx | hx
      · have := hL x hx; omega
      · rcases List.mem_cons.1 hx with rfl | hx
        · omega
        · have := hR x hx; omega

variable {α ω : Type} (apply : ω → α → α → α) (key : ω → Int)

theorem splitEval_single (n : Nat) (v : α) : splitEval apply key n [v] [] = some v := by
  cases n <;> simp [splitEval]

theorem splitEval_succ (n : Nat) (vs : List α) {os : List ω} (h : os ≠ []) :
    splitEval apply key (n + 1) vs os =
      (os[argminR (os.map key)]?).bind fun o =>
        (splitEval apply key n (vs.take (argminR (os.map key) + 1))
                (os.take (argminR (os.map key)))).bind fun l =>
        (splitEval apply key n (vs.drop (argminR (os.map key) + 1))
                (os.drop (argminR (os.map key) + 1))).map fun r => apply o l r := by
  cases os with
  | nil => exact absurd rfl h
  | cons o os =>
    simp only [splitEval]
    generalize argminR (List.map key (o :: os)) = p
    cases (o :: os)[p]? with
    | none => rfl
    | some x =>
      simp only [Option.bind_some]
      cases splitEval apply key n (List.take (p + 1) vs) (List.take p (o :: os)) with
      | none => rfl
      | some l =>
        cases splitEval apply key n (List.drop (p + 1) vs) (List.drop (p + 1) (o :: os)) with
        | none => rfl
        | some r => rfl

theorem splitEval_nil_fuel (n m : Nat) (vs : List α) :
    splitEval apply key n vs [] = splitEval apply key m vs [] := by
  have key1 : ∀ n, splitEval apply key n vs [] = match vs with | [v] => some v | _ => none := by
    intro n
    match vs with
    | [] => cases n <;> simp [splitEval]
    | [v] => simp [splitEval_single]
    | a :: b :: vs => cases n <;> simp [splitEval]
  rw [key1 n, key1 m]

/-- any fuel `≥ os.length` gives the same result -/
theorem splitEval_fuel : ∀ (n m : Nat) (vs : List α) (os : List ω),
    os.length ≤ n → os.length ≤ m → splitEval apply key n vs os = splitEval apply key m vs os
  | n, m, vs, [], _, _ => splitEval_nil_fuel apply key n m vs
  | 0, _, _, _ :: _, h, _ => by simp at h
  | _, 0, _, _ :: _, _, h => by simp at h
  | n + 1, m + 1, vs, o :: os, hn, hm => by
    have hp := argminR_lt (ks := (o :: os).map key) (by simp)
    rw [splitEval_succ apply key n vs (by simp), splitEval_succ apply key m vs (by simp)]
    simp only [List.length_map, List.length_cons] at hp hn hm
    rw [splitEval_fuel n m _ ((o :: os).take _)
        (by simp only [List.length_take, List.length_cons]; omega)
        (by simp only [List.length_take, List.length_cons]; omega),
      splitEval_fuel n m _ ((o :: os).drop _)
        (by simp only [List.length_drop, List.length_cons]; omega)
        (by simp only [List.length_drop, List.length_cons]; omega)]

/-- **splitEval over a concatenation** split at a right-most minimal operator -/
theorem splitEval_append (n : Nat) (vsL vsR : List α) (osL : List ω) (o : ω) (osR : List ω)
    (hlen : vsL.length = osL.length + 1)
    (hL : ∀ x ∈ osL, key o ≤ key x) (hR : ∀ x ∈ osR, key o < key x) :
    splitEval apply key (n + 1) (vsL ++ vsR) (osL ++ o :: osR) =
      (splitEval apply key n vsL osL).bind fun l =>
        (splitEval apply key n vsR osR).map fun r => apply o l r := by
  have hp : argminR ((osL ++ o :: osR).map key) = osL.length := by
    rw [List.map_append, List.map_cons, argminR_eq]
    · simp
    · intro x hx; obtain ⟨y, hy, rfl⟩ := List.mem_map.1 hx; exact hL y hy
    · intro x hx; obtain ⟨y, hy, rfl⟩ := List.mem_map.1 hx; exact hR y hy
  rw [splitEval_succ apply key n _ (by simp), hp]
  have h1 : (osL ++ o :: osR)[osL.length]? = some o := by simp
  have h2 : (vsL ++ vsR).take (osL.length + 1) = vsL := by rw [← hlen]; simp
  have h3 : (vsL ++ vsR).drop (osL.length + 1) = vsR := by rw [← hlen]; simp
  have h4 : (osL ++ o :: osR).take osL.length = osL := by simp
  have h5 : (osL ++ o :: osR).drop (osL.length + 1) = osR := by simp
  rw [h1, h2, h3, h4, h5]; rfl

/-- the same with exactly the fuels used by the callers -/
theorem splitEval_append' (vsL vsR : List α) (osL : List ω) (o : ω) (osR : List ω)
    (hlen : vsL.length = osL.length + 1)
    (hL : ∀ x ∈ osL, key o ≤ key x) (hR : ∀ x ∈ osR, key o < key x) :
    splitEval apply key (osL ++ o :: osR).length (vsL ++ vsR) (osL ++ o :: osR) =
      (splitEval apply key osL.length vsL osL).bind fun l =>
        (splitEval apply key osR.length vsR osR).map fun r => apply o l r := by
  have : (osL ++ o :: osR).length = (osL.length + osR.length) + 1 := by simp; omega
  rw [this, splitEval_append apply key _ vsL vsR osL o osR hlen hL hR,
    splitEval_fuel apply key (osL.length + osR.length) osL.length vsL osL (by omega) (by omega),
    splitEval_fuel apply key (osL.length + osR.length) osR.length vsR osR (by omega) (by omega)]

/-- with matching lengths and enough fuel the evaluation is defined -/
theorem splitEval_isSome : ∀ (n : Nat) (vs : List α) (os : List ω), os.length ≤ n →
    vs.length = os.length + 1 → ∃ v, splitEval apply key os.length vs os = some v
  | _, vs, [], _, hlen => by
    match vs, hlen with
    | [v], _ => exact ⟨v, splitEval_single apply key _ v⟩
  | 0, _, _ :: _, h, _ => by simp at h
  | n + 1, vs, o0 :: os0, hn, hlen => by
    obtain ⟨L, o, R, he, hL, hR⟩ := exists_split_min key (o0 :: os0) (by simp)
    rw [he] at hn hlen ⊢
    simp only [List.length_append, List.length_cons] at hn hlen
    have hsplit : vs = vs.take (L.length + 1) ++ vs.drop (L.length + 1) :=
      (List.take_append_drop _ _).symm
    have htl : (vs.take (L.length + 1)).length = L.length + 1 := by
      rw [List.length_take]; omega
    have hdl : (vs.drop (L.length + 1)).length = R.length + 1 := by
      rw [List.length_drop]; omega
    obtain ⟨l, hl⟩ := splitEval_isSome n _ L (by omega) htl
    obtain ⟨r, hr⟩ := splitEval_isSome n _ R (by omega) hdl
    rw [hsplit, splitEval_append' apply key _ _ L o R htl hL hR, hl, hr]
    exact ⟨_, rfl⟩

end SplitLemmas
end Exmex

