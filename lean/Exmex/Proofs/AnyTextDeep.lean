/-
  What acceptance by the deep parser says about the token stream: every operator token that the
  recursive-descent parser walks over has a binary or a unary role in the table
  (`deep_roles`; an operator without any role is rejected with `unary_missing`), and the top-level
  call walks over every token of an accepted token list.
-/
import Exmex.Proofs.AnyTextFlat
namespace Exmex.AnyText
open Exmex.ReachLemmas Exmex.Diff

variable {α : Type}

/-- the operator has a binary or a unary role -/
def Role (t : Table) (o : Nat) : Prop := tblHasBin t o = true ∨ tblHasUnary t o = true

theorem hasBin_of_tblBin (t : Table) (o : Nat) (b : DBin) (h : tblBin t o = some b) :
    tblHasBin t o = true := by
  unfold tblBin at h
  unfold tblHasBin
  cases ht : t[o]? with
  | none => rw [ht] at h; cases h
  | some s =>
    rw [ht] at h
    simp only [Option.any, OpSpec.hasBin]
    cases hb : s.bin with
    | none => simp [hb] at h
    | some b' => rfl

theorem su_role (t : Table) : ∀ (l : List (Tok α)) (j : Nat),
    j < (subsequentUnaries t l).length → ∀ o, l[j]? = some (.op o) → tblHasUnary t o = true
  | [], j, h, _, _ => by simp [subsequentUnaries] at h
  | .op u :: rest, j, h, o, ho => by
    rw [subsequentUnaries] at h
    split at h
    · rename_i hu
      cases j with
      | zero =>
        simp at ho
        subst ho
        exact hu
      | succ j =>
        simp only [List.length_cons] at h
        exact su_role t rest j (by omega) o (by simpa using ho)
    · simp at h
  | .num _ :: _, j, h, _, _ => by simp [subsequentUnaries] at h
  | .var _ :: _, j, h, _, _ => by simp [subsequentUnaries] at h
  | .popen :: _, j, h, _, _ => by simp [subsequentUnaries] at h
  | .pclose :: _, j, h, _, _ => by simp [subsequentUnaries] at h

section
variable (I : Interp α) (t : Table) (V : List Str)

def MakeR (fuel : Nat) : Prop :=
  ∀ (toks : List (Tok α)) (un : List Nat) (d : DeepEx α) (k : Nat),
    deepMake I t V fuel toks un = .ok (d, k) →
    ∀ j o, j < k → toks[j]? = some (.op o) → Role t o

def LoopR (fuel : Nat) : Prop :=
  ∀ (toks : List (Tok α)) (idx : Nat) (nodes : List (DeepNode α)) (ops : List DBin)
    (nodes' : List (DeepNode α)) (ops' : List DBin) (idx' : Nat),
    deepLoop I t V fuel toks idx nodes ops = .ok (nodes', ops', idx') →
    ∀ j o, idx ≤ j → j < idx' → toks[j]? = some (.op o) → Role t o

def UnR (fuel : Nat) : Prop :=
  ∀ (toks : List (Tok α)) (idx o : Nat) (node : DeepNode α) (fwd : Nat),
    processUnary I t V fuel toks idx o = .ok (node, fwd) →
    ∀ j o', idx < j → j < idx + fwd → toks[j]? = some (.op o') → Role t o'

theorem makeR_step (fuel : Nat) (hL : LoopR I t V fuel) : MakeR I t V (fuel + 1) := by
  intro toks un d k h
  rw [deepMake] at h
  split at h
  · cases h
  rename_i nodes ops idx hloop
  split at h
  · cases h
  cases h
  intro j o hj ho
  exact hL toks 0 [] [] nodes ops k hloop j o (Nat.zero_le _) hj ho

theorem unR_step (fuel : Nat) (hM : MakeR I t V fuel) : UnR I t V (fuel + 1) := by
  intro toks idx o node fwd h
  rw [processUnary] at h
  simp only [] at h
  obtain ⟨su, hsu⟩ : ∃ su, su = subsequentUnaries t (toks.drop (idx + 1)) := ⟨_, rfl⟩
  rw [← hsu] at h
  have hrun : ∀ j o', idx < j → j < idx + (o :: su).length → toks[j]? = some (.op o') →
      Role t o' := by
    intro j o' hj1 hj2 ho'
    simp only [List.length_cons] at hj2
    refine .inr (su_role t (toks.drop (idx + 1)) (j - (idx + 1)) (by rw [← hsu]; omega) o' ?_)
    rw [List.getElem?_drop, ← ho']
    congr 1
    omega
  obtain ⟨n, hn⟩ : ∃ n, n = (o :: su).length := ⟨_, rfl⟩
  rw [← hn] at h hrun
  have paren : ∀ (tk : Tok α) (e : DeepEx α) (fwd' : Nat), toks[idx + n]? = some tk →
      (tk = .popen ∨ tk = .pclose) →
      deepMake I t V fuel (toks.drop (idx + n + 1)) (o :: su) = .ok (e, fwd') →
      ∀ j o', idx < j → j < idx + (fwd' + n + 1) → toks[j]? = some (.op o') → Role t o' := by
    intro tk e fwd' htk hpar hmake j o' hj1 hj2 ho'
    rcases Nat.lt_or_ge j (idx + n) with hl | hg
    · exact hrun j o' hj1 hl ho'
    · rcases Nat.eq_or_lt_of_le hg with rfl | hgt
      · rw [htk] at ho'
        rcases hpar with rfl | rfl <;> cases ho'
      · have : (toks.drop (idx + n + 1))[j - (idx + n + 1)]? = some (.op o') := by
          rw [List.getElem?_drop, ← ho']; congr 1; omega
        exact hM _ _ e fwd' hmake _ o' (by omega) this
  have leaf : ∀ (tk : Tok α), toks[idx + n]? = some tk → (∀ u, tk ≠ .op u) →
      ∀ j o', idx < j → j < idx + (n + 1) → toks[j]? = some (.op o') → Role t o' := by
    intro tk htk hno j o' hj1 hj2 ho'
    rcases Nat.lt_or_ge j (idx + n) with hl | hg
    · exact hrun j o' hj1 hl ho'
    · have hje : j = idx + n := by omega
      subst hje
      rw [htk] at ho'
      cases ho'
      exact absurd rfl (hno o')
  split at h
  · cases h
  · rename_i htk
    split at h
    · cases h
    rename_i e fwd' hmake
    cases h
    exact paren _ e fwd' htk (.inl rfl) hmake
  · rename_i htk
    split at h
    · cases h
    rename_i e fwd' hmake
    cases h
    exact paren _ e fwd' htk (.inr rfl) hmake
  · rename_i name htk
    split at h
    · cases h
    split at h
    · cases h
    cases h
    exact leaf _ htk (fun u hu => by cases hu)
  · rename_i a htk
    cases h
    exact leaf _ htk (fun u hu => by cases hu)
  · cases h

theorem loopR_step (fuel : Nat) (hM : MakeR I t V fuel) (hL : LoopR I t V fuel)
    (hU : UnR I t V fuel) : LoopR I t V (fuel + 1) := by
  intro toks idx nodes ops nodes' ops' idx' h j o' hj1 hj2 ho'
  rw [deepLoop] at h
  split at h
  · cases h
    omega
  · -- an operator
    rename_i o htk
    split at h
    · cases h
    · split at h
      · cases h
      rename_i b hb'
      rcases Nat.eq_or_lt_of_le hj1 with rfl | hgt
      · rw [htk] at ho'
        cases ho'
        exact .inl (hasBin_of_tblBin t _ b hb')
      · exact hL _ _ _ _ _ _ _ h j o' (by omega) hj2 ho'
    · split at h
      · cases h
      rename_i hun
      have hpu : tblHasUnary t o = true := by simpa using hun
      split at h
      · cases h
      rename_i node fwd hproc
      rcases Nat.eq_or_lt_of_le hj1 with rfl | hgt
      · rw [htk] at ho'
        cases ho'
        exact .inr hpu
      · rcases Nat.lt_or_ge j (idx + fwd) with hl | hg
        · exact hU toks idx o node fwd hproc j o' hgt hl ho'
        · exact hL _ _ _ _ _ _ _ h j o' hg hj2 ho'
  · rename_i a htk
    rcases Nat.eq_or_lt_of_le hj1 with rfl | hgt
    · rw [htk] at ho'
      cases ho'
    · exact hL _ _ _ _ _ _ _ h j o' (by omega) hj2 ho'
  · rename_i name htk
    split at h
    · cases h
    rcases Nat.eq_or_lt_of_le hj1 with rfl | hgt
    · rw [htk] at ho'
      cases ho'
    · exact hL _ _ _ _ _ _ _ h j o' (by omega) hj2 ho'
  · rename_i htk
    split at h
    · cases h
    rename_i e fwd hmake
    rcases Nat.eq_or_lt_of_le hj1 with rfl | hgt
    · rw [htk] at ho'
      cases ho'
    · rcases Nat.lt_or_ge j (idx + 1 + fwd) with hl | hg
      · have : (toks.drop (idx + 1))[j - (idx + 1)]? = some (.op o') := by
          rw [List.getElem?_drop, ← ho']; congr 1; omega
        exact hM _ _ e fwd hmake _ o' (by omega) this
      · exact hL _ _ _ _ _ _ _ h j o' hg hj2 ho'
  · rename_i htk
    cases h
    have hje : j = idx := by omega
    subst hje
    rw [htk] at ho'
    cases ho'

theorem walkR : ∀ fuel, MakeR I t V fuel ∧ LoopR I t V fuel ∧ UnR I t V fuel := by
  intro fuel
  induction fuel with
  | zero =>
    refine ⟨?_, ?_, ?_⟩
    · intro toks un d k h
      rw [deepMake] at h
      cases h
    · intro toks idx nodes ops nodes' ops' idx' h
      rw [deepLoop] at h
      cases h
    · intro toks idx o node fwd h
      rw [processUnary] at h
      cases h
  | succ fuel ih =>
    obtain ⟨hM, hL, hU⟩ := ih
    exact ⟨makeR_step I t V fuel hL, loopR_step I t V fuel hM hL hU, unR_step I t V fuel hM⟩

end

/-- **every operator token of a token list accepted by the deep parser has a role** -/
theorem deep_roles (I : Interp α) (t : Table) (hA : C01.FlaggedAssoc I t) (hP : TblPrio t)
    (toks : List (Tok α)) (V : List Str) (fuel : Nat) (d : DeepEx α) (k : Nat)
    (hpre : checkPre t toks = .ok ()) (h : deepMake I t V fuel toks [] = .ok (d, k)) :
    ∀ (j o : Nat), toks[j]? = some (Tok.op o) → Role t o := by
  obtain ⟨hne, hstart, hprefix⟩ := checkPre_facts t toks hpre
  obtain ⟨-, -, hb, -⟩ := (walk_ok I t V hA hP fuel).1 toks [] d k h hne
    (fun _ h => by cases h) (.inr hstart)
  have hk : k = toks.length := by
    rcases hb with hb | hb
    · exact hb
    · have := hprefix k
      omega
  intro j o ho
  have hjl : j < toks.length := (List.getElem?_eq_some_iff.1 ho).1
  exact (walkR I t V fuel).1 toks [] d k h j o (by omega) ho

end Exmex.AnyText
