/-
  C03 (conversions, every accepted text): the operators of a flattened deep expression are
  operators of the table (`flatten_tbl`), and the facts about what `FlatEx::parse` returns that
  `ToDeep.toDeep_core` needs (`parse_facts`).

  `ToDeep.toDeep_core` itself does not use `BumpOK` / `UnaryOK`: `flatex_to_deepex` replays the
  order `prioritized_indices_flat` (the bumped keys) and builds one two-node group per operator,
  inside which no "+5" can matter; so it applies to the flat expressions of sloppy texts as well.
-/
import Exmex.Props.Reach
import Exmex.Props.C02Any
import Exmex.Props.C03
import Exmex.Props.C03ToDeep
namespace Exmex.ConvAny
open Exmex

variable {α : Type}

/-- a flat operator whose binary part is in the table, with the table's flag -/
def InTbl (t : Table) (o : FlatOp) : Prop := ∃ b, tblBin t o.idx = some b ∧ b.comm = o.comm

def nodeTbl (t : Table) : DeepNode α → Prop
  | .expr e => C12.FromTable t e
  | _ => True

theorem fromTableList_cons (t : Table) (n : DeepNode α) (rest : List (DeepNode α)) :
    C12.fromTableList t (n :: rest) ↔ nodeTbl t n ∧ C12.fromTableList t rest := by
  cases n <;> simp [C12.fromTableList, nodeTbl]

theorem attach_tbl (t : Table) (un : List Nat) (g : List (FlatNode α) × List FlatOp)
    (h : ∀ o ∈ g.2, InTbl t o) : ∀ o ∈ (FromDeep.flatAttach un g).2, InTbl t o := by
  unfold FromDeep.flatAttach
  split
  · exact h
  · split
    · split
      · intro o ho
        simp only at ho
        rcases ReachFlat.mem_modify _ _ _ _ ho with ho | ⟨y, hy, rfl⟩
        · exact h o ho
        · exact h y hy
      · exact h
    · split
      · exact h
      · exact h

theorem flattenList_cons_ops (off : Int) (n : DeepNode α) (ns : List (DeepNode α))
    (ops : List DBin) :
    (flattenList off (n :: ns) ops).2 =
      (FromDeep.nodeFlat off n).2 ++ (ops.head?.map (FromDeep.mkOp off)).toList ++
        (flattenList off ns ops.tail).2 := by
  cases n <;> cases ops <;> simp [flattenList, FromDeep.nodeFlat, FromDeep.mkOp]

mutual
theorem flatten_tbl (t : Table) : ∀ (off : Int) (d : DeepEx α), C12.FromTable t d →
    ∀ o ∈ (d.flatten off).2, InTbl t o
  | off, .mk nodes ops un vars, h => by
    rw [C12.FromTable] at h
    rw [FromDeep.flatten_eq]
    exact attach_tbl t un _ (list_tbl t off nodes ops h.2.2 h.1)
theorem node_tbl (t : Table) : ∀ (off : Int) (n : DeepNode α), nodeTbl t n →
    ∀ o ∈ (FromDeep.nodeFlat off n).2, InTbl t o
  | off, .num a, _ => by simp [FromDeep.nodeFlat]
  | off, .var i nm, _ => by simp [FromDeep.nodeFlat]
  | off, .expr e, h => by
    rw [FromDeep.nodeFlat]
    exact flatten_tbl t (off + 100) e h
theorem list_tbl (t : Table) : ∀ (off : Int) (nodes : List (DeepNode α)) (ops : List DBin),
    C12.fromTableList t nodes → (∀ o ∈ ops, tblBin t o.idx = some o) →
    ∀ o ∈ (flattenList off nodes ops).2, InTbl t o
  | off, [], ops, _, _ => by simp [flattenList]
  | off, n :: ns, ops, hn, ho => by
    obtain ⟨h1, h2⟩ := (fromTableList_cons t n ns).1 hn
    rw [flattenList_cons_ops]
    intro o hmem
    rcases List.mem_append.1 hmem with hmem | hmem
    · rcases List.mem_append.1 hmem with hmem | hmem
      · exact node_tbl t off n h1 o hmem
      · cases ops with
        | nil => simp at hmem
        | cons b bs =>
          simp only [List.head?_cons, Option.map_some, Option.toList_some, List.mem_singleton] at hmem
          subst hmem
          exact ⟨b, ho b List.mem_cons_self, rfl⟩
    · exact list_tbl t off ns ops.tail h2
        (fun o' ho' => ho o' (List.mem_of_mem_tail ho')) o hmem
end

/-- what `FlatEx::parse` guarantees for every accepted text -/
theorem parse_facts (I : Interp α) (t : Table) (lm : Str → Option Nat)
    (ht : Reach.TblOK I t) (text : Str) (f : FlatEx α) (hf : Flat.parse I t lm text = .ok f) :
    f.nodes.length = f.ops.length + 1 ∧ f.prioIdx = prioIdxFlat f.ops f.nodes ∧
      FoldAny.AssocOps I f.ops ∧ (∀ o ∈ f.ops, InTbl t o) ∧ f.vars.Nodup ∧
      (∀ nd ∈ f.nodes, ∀ i, nd.kind = .var i → i < f.vars.length) := by
  have hf0 := hf
  unfold Flat.parse at hf0
  split at hf0
  · cases hf0
  rename_i w hw
  obtain ⟨hok, hA⟩ := C02.parseWoCompile_facts I t lm ht text w hw
  have hidx0 : ∀ nd ∈ w.nodes, ∀ i, nd.kind = .var i →
      i < (List.replicate w.vars.length I.dflt).length := by
    simpa using hok.vidx
  obtain ⟨f', h1, l1, p1, a1, i1, v1, -⟩ :=
    FoldAny.compile_any I w hok.len hok.prio hA (List.replicate w.vars.length I.dflt) hidx0
  rw [hf0] at h1
  cases h1
  obtain ⟨hstrict, hops, -⟩ := ReachFlat.parse_ok I t lm text f hf
  refine ⟨l1, p1, a1, ?_, Diff.nodup_of_strict _ hstrict, ?_⟩
  · intro o ho
    obtain ⟨⟨b, hb, hc⟩, -⟩ := hops o ho
    refine ⟨{ idx := o.idx, prio := b.prio, comm := b.comm }, ?_, hc.symm⟩
    unfold tblBin
    rw [hb]
    rfl
  · rw [v1]
    simpa using i1

end Exmex.ConvAny
