/-
  Auxiliary facts for C02 (`FlatEx::compile` is sound): generic list lemmas, the operand vector as a
  total map, evaluation = split evaluation (the chain L2–L4), and the bump lemma for a
  sub-sequence of the operators carrying the bump flags of the full sequence.
-/
import Exmex.Proofs.Bump
import Exmex.Proofs.SortSplit
import Exmex.Proofs.SplitLemmas
import Exmex.Props.C14
namespace Exmex
namespace CompileSound
open BumpAux

/-! ### `splitEval`: congruence, re-indexing -/

theorem splitEval_congr {α ω : Type} (ap ap' : ω → α → α → α) (key key' : ω → Int) :
    ∀ (fuel : Nat) (vs : List α) (os : List ω),
      (∀ o ∈ os, ∀ a b, ap o a b = ap' o a b) → (∀ o ∈ os, key o = key' o) →
      splitEval ap key fuel vs os = splitEval ap' key' fuel vs os := by
  intro fuel
  induction fuel with
  | zero =>
    intro vs os _ _
    by_cases h : ∃ v, vs = [v] ∧ os = []
    · obtain ⟨v, rfl, rfl⟩ := h
      simp [splitEval.eq_1]
    · rw [splitEval.eq_2, splitEval.eq_2]
      · intro v h1 h2; exact h ⟨v, h1, h2⟩
      · intro v h1 h2; exact h ⟨v, h1, h2⟩
  | succ fuel ih =>
    intro vs os hap hkey
    by_cases h : ∃ v, vs = [v] ∧ os = []
    · obtain ⟨v, rfl, rfl⟩ := h
      simp [splitEval.eq_1]
    · rw [splitEval.eq_3, splitEval.eq_3]
      · have e : os.map key = os.map key' := List.map_congr_left hkey
        simp only [e]
        rw [ih _ (os.take _) (fun o ho => hap o (List.mem_of_mem_take ho))
              (fun o ho => hkey o (List.mem_of_mem_take ho)),
            ih _ (os.drop _) (fun o ho => hap o (List.mem_of_mem_drop ho))
              (fun o ho => hkey o (List.mem_of_mem_drop ho))]
        cases hq : os[argminR (List.map key' os)]? with
        | none => rfl
        | some o =>
          have ho : o ∈ os := List.mem_of_getElem? hq
          simp only [hap o ho]
      · intro v h1 h2; exact h ⟨v, h1, h2⟩
      · intro v h1 h2; exact h ⟨v, h1, h2⟩

theorem map_getD_range {β : Type} (l : List β) (d : β) :
    (List.range l.length).map (fun q => l.getD q d) = l := by
  apply List.ext_getElem?
  intro i
  by_cases hi : i < l.length
  · simp [hi, List.getD_eq_getElem?_getD]
  · simp [hi]

/-- a chain over an arbitrary operator list = the chain over positions -/
theorem splitEval_reindex {α ω : Type} (ap : ω → α → α → α) (key : ω → Int) (fuel : Nat)
    (vs : List α) (os : List ω) (d : ω) :
    splitEval ap key fuel vs os =
      splitEval (fun q => ap (os.getD q d)) (fun q => key (os.getD q d)) fuel vs
        (List.range os.length) := by
  rw [← splitEval_map (fun q => os.getD q d) ap key fuel vs (List.range os.length),
    map_getD_range]

/-! ### the abstract form of L4 as an equation between `splitEval`s -/

theorem splitEval_bumpAbs {α : Type} {apply : Nat → α → α → α} {N : Nat} {prio : Nat → Int}
    {bmp : Nat → Bool} {idx : Nat → Nat} {g : Nat → α → α → α}
    (H : BumpAbs apply N prio bmp idx g) (key1 : Nat → Int)
    (hkey : ∀ k, k < N → key1 k = prio k * 10 + (if bmp k = true then 5 else 0))
    (vals : List α) (hlen : vals.length = N + 1) :
    splitEval apply key1 vals.length vals (List.range N) =
      splitEval apply prio vals.length vals (List.range N) := by
  obtain ⟨a, ha⟩ := Ev.total apply vals key1 N 0 N rfl (Nat.zero_le _) (by omega)
  have ha0 := H.ev hkey ha (Nat.le_refl _)
  have e1 := ha.splitEval_eq vals.length (by omega)
  have e0 := ha0.splitEval_eq vals.length (by omega)
  have ev : (vals.drop 0).take (N - 0 + 1) = vals := by
    rw [List.drop_zero, Nat.sub_zero, ← hlen, List.take_length]
  rw [ev, Nat.sub_zero, ← List.range_eq_range'] at e1 e0
  rw [e1, e0]

/-! ### the operand vector -/

/-- total version of one entry of `nodeValues` -/
def nodeVal {α : Type} (I : Interp α) (vals : List α) (nd : FlatNode α) : α :=
  match nd.kind with
  | .num a => applyUn I nd.un a
  | .var i => applyUn I nd.un (vals.getD i I.dflt)

theorem nodeVal_num {α : Type} (I : Interp α) (vals : List α) {nd : FlatNode α} {a : α}
    (h : nd.kind = .num a) : nodeVal I vals nd = applyUn I nd.un a := by
  unfold nodeVal; rw [h]

theorem nodeVal_var {α : Type} (I : Interp α) (vals : List α) {nd : FlatNode α} {i : Nat}
    (h : nd.kind = .var i) : nodeVal I vals nd = applyUn I nd.un (vals.getD i I.dflt) := by
  unfold nodeVal; rw [h]

theorem nodeValues_eq {α : Type} (I : Interp α) (vals : List α) :
    ∀ (nodes : List (FlatNode α)), (∀ nd ∈ nodes, ∀ i, nd.kind = .var i → i < vals.length) →
      nodeValues I nodes vals = some (nodes.map (nodeVal I vals)) := by
  intro nodes
  induction nodes with
  | nil => intro _; rfl
  | cons nd nds ih =>
    intro h
    have ih' := ih (fun x hx => h x (List.mem_cons_of_mem _ hx))
    unfold nodeValues at ih' ⊢
    rw [List.mapM_cons, ih']
    have hnd := h nd List.mem_cons_self
    cases hk : nd.kind with
    | num a => simp [nodeVal_num I vals hk]
    | var i =>
      have := hnd i hk
      simp [nodeVal_var I vals hk, List.getD_eq_getElem?_getD, List.getElem?_eq_getElem this]

/-- the operator record at a position -/
abbrev opAt (ops : List FlatOp) (k : Nat) : FlatOp := ops.getD k default

theorem flatApplyT_eq_act {α : Type} (I : Interp α) (ops : List FlatOp) (k : Nat)
    (hk : k < ops.length) (a b : α) :
    flatApplyT I ops k a b = FlatOp.act I (opAt ops k) a b := by
  simp [flatApplyT, FlatOp.act, opAt, List.getD_eq_getElem?_getD, List.getElem?_eq_getElem hk]

/-- split by position with the priority key = split over the operator records -/
theorem splitEval_positions {α : Type} (I : Interp α) (ops : List FlatOp) (fuel : Nat)
    (vs : List α) :
    splitEval (flatApplyT I ops) (fun k => (opAt ops k).prio) fuel vs (List.range ops.length) =
      splitEval (FlatOp.act I) (fun o => o.prio) fuel vs ops := by
  rw [splitEval_reindex (FlatOp.act I) (fun o => o.prio) fuel vs ops default]
  apply splitEval_congr
  · intro k hk a b
    exact flatApplyT_eq_act I ops k (List.mem_range.1 hk) a b
  · intro k _; rfl

/-- **evaluation = split evaluation by the sort key** (L2 + L3) -/
theorem evalCloning_eq_splitKey {α : Type} (I : Interp α) (f : FlatEx α)
    (hlen : f.nodes.length = f.ops.length + 1) (hprio : f.prioIdx = prioIdxFlat f.ops f.nodes)
    (vals : List α) (hidx : ∀ nd ∈ f.nodes, ∀ i, nd.kind = .var i → i < vals.length) :
    ∃ v, nodeValues I f.nodes vals = some (f.nodes.map (nodeVal I vals)) ∧
      splitEval (flatApplyT I f.ops) (sortKey f.ops f.nodes) (f.ops.length + 1)
        (f.nodes.map (nodeVal I vals)) (List.range f.ops.length) = some v ∧
      evalCloning I f vals = .ok v := by
  have hnv := nodeValues_eq I vals f.nodes hidx
  have hnl : (f.nodes.map (nodeVal I vals)).length = f.ops.length + 1 := by
    rw [List.length_map, hlen]
  have hπ : ValidOrder f.prioIdx f.ops.length := by
    rw [hprio]; exact orderByKey_valid _ _
  obtain ⟨v, hv1, hv2⟩ := C14.evalNumbers_any_order I _ f.ops f.prioIdx hnl hπ
  have hne : f.nodes.map (nodeVal I vals) ≠ [] := by
    intro h; rw [h] at hnl; simp at hnl
  obtain ⟨w, hw1, hw2⟩ := reduceByOrder_sorted_eq_splitEval (flatApplyT I f.ops)
    (sortKey f.ops f.nodes) _ hne
  rw [hnl, Nat.add_sub_cancel] at hw1 hw2
  have hπe : f.prioIdx = orderByKey (sortKey f.ops f.nodes) f.ops.length := hprio
  rw [← hπe, hv1] at hw1
  cases hw1
  refine ⟨v, hnv, hw2, ?_⟩
  unfold evalCloning
  rw [hnv]
  exact hv2

/-- **split evaluation by the sort key = split evaluation by priority** (L4 + re-indexing) -/
theorem splitKey_eq_splitPrio {α : Type} (I : Interp α) (ops : List FlatOp)
    (nodes : List (FlatNode α)) (vs : List α) (hlen : vs.length = ops.length + 1)
    (h : BumpOK I ops) :
    splitEval (flatApplyT I ops) (sortKey ops nodes) (ops.length + 1) vs (List.range ops.length) =
      splitEval (FlatOp.act I) (fun o => o.prio) ops.length vs ops := by
  have := splitEval_bump I ops nodes vs hlen h
  rw [hlen] at this
  rw [this, splitEval_positions]
  exact SplitLemmas.splitEval_fuel _ _ _ _ _ _ (by omega) (by omega)

end CompileSound
end Exmex
