/-
  Token-level lemmas for C07Balance: prefix sums of paren deltas (`parenBalance`), what
  `findOpOfComma` finds, a case description of `lexStep`, and the invariant of the tokenizer state
  that holds as long as the source depth has never been negative, and what happens afterwards
  (the flag `dipped` is set, every comma is an error, the token list only grows).
-/
import Exmex.Props.C07
namespace Exmex.Balance
open Exmex

variable {α : Type}

/-- sum of the paren deltas of a token list -/
def psum (l : List (Tok α)) : Int := (l.map parenDelta).sum

@[simp] theorem psum_nil : psum ([] : List (Tok α)) = 0 := rfl
@[simp] theorem psum_cons (x : Tok α) (l : List (Tok α)) : psum (x :: l) = parenDelta x + psum l := by
  simp [psum]
@[simp] theorem psum_append (a b : List (Tok α)) : psum (a ++ b) = psum a + psum b := by
  simp [psum, List.sum_append]

theorem psum_reverse (l : List (Tok α)) : psum l.reverse = psum l := by
  induction l with
  | nil => rfl
  | cons x xs ih => simp [ih]; omega

/-! ### `parenBalance` -/

theorem pb_sum : ∀ (toks : List (Tok α)) (n m : Int), parenBalance toks n = some m → m = n + psum toks
  | [], n, m, h => by simp [parenBalance] at h; simp [h]
  | tk :: ts, n, m, h => by
    simp only [parenBalance] at h
    split at h
    · cases h
    · have := pb_sum ts _ _ h
      simp only [psum_cons]
      omega

theorem pb_prefix : ∀ (a b : List (Tok α)) (n m : Int), 0 ≤ n → parenBalance (a ++ b) n = some m →
    0 ≤ n + psum a
  | [], _, n, _, hn, _ => by simpa using hn
  | tk :: ts, b, n, m, _, h => by
    simp only [List.cons_append, parenBalance] at h
    split at h
    · cases h
    · have := pb_prefix ts b _ _ (by omega) h
      simp only [psum_cons]
      omega

/-- a negative prefix sum makes the balance check fail -/
theorem not_balanced_of_prefix (a b : List (Tok α)) (h : psum a < 0) : parenBalance (a ++ b) 0 ≠ some 0 := by
  intro hb
  have := pb_prefix a b 0 0 (by omega) hb
  omega

/-- a non-zero total makes the balance check fail -/
theorem not_balanced_of_sum (l : List (Tok α)) (h : psum l ≠ 0) : parenBalance l 0 ≠ some 0 := by
  intro hb
  have := pb_sum l 0 0 hb
  omega

/-! ### non-negative prefix sums -/

/-- every prefix of the token list has a non-negative paren sum -/
def NN (l : List (Tok α)) : Prop := ∀ k, 0 ≤ psum (l.take k)

theorem NN_nil : NN ([] : List (Tok α)) := by intro k; simp

theorem NN_snoc (l : List (Tok α)) (x : Tok α) (h : NN l) (hx : 0 ≤ psum l + parenDelta x) :
    NN (l ++ [x]) := by
  intro k
  rw [List.take_append]
  by_cases hk : k ≤ l.length
  · have : k - l.length = 0 := by omega
    simpa [this] using h k
  · obtain ⟨j, hj⟩ : ∃ j, k - l.length = j + 1 := ⟨k - l.length - 1, by omega⟩
    rw [hj, List.take_of_length_le (by omega)]
    simpa using hx

theorem psum_set (l : List (Tok α)) (i : Nat) (x y : Tok α) (h : l[i]? = some y) :
    psum (l.set i x) = psum l - parenDelta y + parenDelta x :=
  sum_map_set parenDelta x y l i h

theorem NN_set (l : List (Tok α)) (i : Nat) (x y : Tok α) (h : l[i]? = some y)
    (hxy : parenDelta y ≤ parenDelta x) (hl : NN l) : NN (l.set i x) := by
  intro k
  rw [List.take_set]
  by_cases hik : i < k
  · have : (l.take k)[i]? = some y := by rw [List.getElem?_take, if_pos hik, h]
    rw [psum_set _ _ _ _ this]
    have := hl k
    omega
  · rw [List.set_eq_of_length_le (by rw [List.length_take]; omega)]
    exact hl k

/-! ### what `find_op_of_comma` finds: the last operator whose token suffix has balance 1 -/

theorem findOpOfCommaRev_sum : ∀ (l : List (Tok α)) (cnt : Int) (i r : Nat),
    findOpOfCommaRev l cnt i = some r → i ≤ r ∧ cnt + psum (l.take (r - i + 1)) = 1
  | [], _, _, _, h => by simp [findOpOfCommaRev] at h
  | tk :: ts, cnt, i, r, h => by
    have key : findOpOfCommaRev ts (cnt + parenDelta tk) (i + 1) = some r →
        i ≤ r ∧ cnt + psum ((tk :: ts).take (r - i + 1)) = 1 := by
      intro h'
      obtain ⟨h1, h2⟩ := findOpOfCommaRev_sum ts _ _ _ h'
      refine ⟨by omega, ?_⟩
      have : r - i = (r - (i + 1)) + 1 := by omega
      rw [List.take_succ_cons, psum_cons, this]
      omega
    cases tk with
    | op o =>
      simp only [findOpOfCommaRev] at h
      split at h
      · rename_i h1
        simp at h
        subst h
        refine ⟨Nat.le_refl _, ?_⟩
        simp
        simpa [parenDelta] using h1
      · exact key h
    | num a => simp only [findOpOfCommaRev] at h; exact key h
    | popen => simp only [findOpOfCommaRev] at h; exact key h
    | pclose => simp only [findOpOfCommaRev] at h; exact key h
    | var n => simp only [findOpOfCommaRev] at h; exact key h

/-- the tokens before the operator found have paren sum (total - 1) -/
theorem findOpOfComma_sum (toks : List (Tok α)) (i : Nat) (h : findOpOfComma toks = some i) :
    psum (toks.take i) = psum toks - 1 := by
  obtain ⟨o, ho⟩ := findOpOfComma_isOp toks i h
  have hi : i < toks.length := (List.getElem?_eq_some_iff.mp ho).1
  unfold findOpOfComma at h
  rw [Option.map_eq_some_iff] at h
  obtain ⟨r, hr, rfl⟩ := h
  obtain ⟨_, h2⟩ := findOpOfCommaRev_sum _ _ _ _ hr
  simp only [Nat.sub_zero, List.take_reverse, psum_reverse, Int.zero_add] at h2
  have hlen : toks.length - (r + 1) = toks.length - 1 - r := by omega
  rw [hlen] at h2
  have := congrArg psum (List.take_append_drop (toks.length - 1 - r) toks)
  rw [psum_append] at this
  omega

/-! ### case description of `lexStep` -/

/-- the token kinds of `lexStep` other than parentheses, comma and braced variable -/
inductive Plain (I : Interp α) (t : Table) (lm : Str → Option Nat) (rest : Str) (n : Nat) : Prop where
  | lit (h : lm rest = some n)
  | op (idx : Nat) (o : OpSpec) (h : findOps t rest = some (idx, o)) (hn : n = o.repr.length)
  | ident (h : identPrefixLen rest = some n)

theorem lexStep_cases (I : Interp α) (t : Table) (lm : Str → Option Nat) (c : Char) (cs : Str)
    (st st' : LexSt α) (n : Nat) (h : lexStep I t lm (c :: cs) st = .ok (n, st')) :
    (c = '(' ∧ n = 1 ∧ st'.res = st.res ++ [.popen] ∧ st'.owed = st.owed ∧ st'.depth = st.depth + 1) ∨
    (c = ')' ∧ n = 1 ∧ st.owed.getLast? = some (st.depth - 1) ∧
      st'.res = st.res ++ [.pclose, .pclose] ∧ st'.owed = st.owed.dropLast ∧ st'.depth = st.depth - 1) ∨
    (c = ')' ∧ n = 1 ∧ st.owed.getLast? ≠ some (st.depth - 1) ∧
      st'.res = st.res ++ [.pclose] ∧ st'.owed = st.owed ∧ st'.depth = st.depth - 1) ∨
    (c = ',' ∧ n = 1 ∧ ∃ i o, findOpOfComma st.res = some i ∧ st.res[i]? = some (.op o) ∧
      st.owed.getLast? ≠ some (st.depth - 1) ∧
      st'.res = st.res.set i .popen ++ [.pclose, .op o, .popen] ∧
      st'.owed = st.owed ++ [st.depth - 1] ∧ st'.depth = st.depth) ∨
    (c = '{' ∧ n = ((c :: cs).takeWhile (· != '}')).length + 1 ∧
      ∃ name, st'.res = st.res ++ [.var name] ∧ st'.owed = st.owed ∧ st'.depth = st.depth) ∨
    (c ≠ '(' ∧ c ≠ ')' ∧ c ≠ ',' ∧ c ≠ '{' ∧ Plain I t lm (c :: cs) n ∧
      ∃ tk, parenDelta tk = 0 ∧ st'.res = st.res ++ [tk] ∧ st'.owed = st.owed ∧ st'.depth = st.depth) := by
  unfold lexStep at h
  simp only at h
  split at h
  · rename_i hc
    have hc := eq_of_beq hc
    cases h
    exact .inl ⟨hc, rfl, rfl, rfl, rfl⟩
  · rename_i hc1
    have hc1 : c ≠ '(' := fun e => hc1 (by simp [e])
    split at h
    · rename_i hc
      have hc := eq_of_beq hc
      split at h
      · rename_i hd
        have hd := eq_of_beq hd
        cases h
        exact .inr (.inl ⟨hc, rfl, hd, rfl, rfl, rfl⟩)
      · rename_i hd
        have hd : st.owed.getLast? ≠ some (st.depth - 1) := fun e => hd (by simp [e])
        cases h
        exact .inr (.inr (.inl ⟨hc, rfl, hd, rfl, rfl, rfl⟩))
    · rename_i hc2
      have hc2 : c ≠ ')' := fun e => hc2 (by simp [e])
      split at h
      · rename_i hc
        have hc := eq_of_beq hc
        split at h
        · cases h
        split at h
        · cases h
        · rename_i i hi
          split at h
          · cases h
          · rename_i opTok hop
            split at h
            · cases h
            · rename_i hd
              have hd : st.owed.getLast? ≠ some (st.depth - 1) := fun e => hd (by simp [e])
              cases h
              obtain ⟨o, ho⟩ := findOpOfComma_isOp _ _ hi
              rw [ho] at hop
              cases hop
              exact .inr (.inr (.inr (.inl ⟨hc, rfl, i, o, hi, ho, hd, rfl, rfl, rfl⟩)))
      · rename_i hc3
        have hc3 : c ≠ ',' := fun e => hc3 (by simp [e])
        split at h
        · rename_i hc
          have hc := eq_of_beq hc
          cases h
          exact .inr (.inr (.inr (.inr (.inl ⟨hc, rfl, _, rfl, rfl, rfl⟩))))
        · rename_i hc4
          have hc4 : c ≠ '{' := fun e => hc4 (by simp [e])
          refine .inr (.inr (.inr (.inr (.inr ⟨hc1, hc2, hc3, hc4, ?_⟩))))
          split at h
          · rename_i m hm
            split at h
            · cases h
              exact ⟨.lit hm, _, rfl, rfl, rfl, rfl⟩
            · cases h
          · split at h
            · rename_i idx o ho
              cases h
              refine ⟨.op idx o ho rfl, _, ?_, rfl, rfl, rfl⟩
              split <;> rfl
            · split at h
              · rename_i m hm
                cases h
                exact ⟨.ident hm, _, rfl, rfl, rfl, rfl⟩
              · cases h

/-- the flag `dipped` (`unmatched_closing_paren`): set by a `)` that makes the source depth
    negative, never reset; and a successful comma step needs it unset -/
theorem lexStep_dipped (I : Interp α) (t : Table) (lm : Str → Option Nat) (c : Char) (cs : Str)
    (st st' : LexSt α) (n : Nat) (h : lexStep I t lm (c :: cs) st = .ok (n, st')) :
    st'.dipped = (st.dipped || (c == ')' && decide (st.depth - 1 < 0))) ∧
      (c = ',' → st.dipped = false) := by
  unfold lexStep at h
  simp only at h
  split at h
  · rename_i hc
    have hc := eq_of_beq hc
    subst hc
    cases h
    exact ⟨by simp, fun e => by cases e⟩
  · split at h
    · rename_i hc
      have hc := eq_of_beq hc
      subst hc
      refine ⟨?_, fun e => by cases e⟩
      split at h <;> (cases h; simp)
    · rename_i hc2
      have hc2' : (c == ')') = false := by simpa using hc2
      split at h
      · split at h
        · cases h
        · rename_i hdp
          have hdp : st.dipped = false := by simpa using hdp
          split at h
          · cases h
          · split at h
            · cases h
            · split at h
              · cases h
              · cases h
                exact ⟨by simp [hc2'], fun _ => hdp⟩
      · rename_i hc3
        have hc3 : c ≠ ',' := fun e => hc3 (by simp [e])
        refine ⟨?_, fun e => absurd e hc3⟩
        split at h
        · cases h; simp [hc2']
        · split at h
          · split at h
            · cases h; simp [hc2']
            · cases h
          · split at h
            · cases h; simp [hc2']
            · split at h
              · cases h; simp [hc2']
              · cases h

/-! ### the invariant of the tokenizer state while the source depth has never been negative -/

theorem NN_total (l : List (Tok α)) (h : NN l) : 0 ≤ psum l := by
  have := h l.length
  simpa using this

/-- `owed` is strictly increasing with entries in `[0, depth)`, all token prefixes have a
    non-negative paren sum, the token balance is `depth + |owed|`, and the flag `dipped` is unset -/
structure Inv (st : LexSt α) : Prop where
  sorted : st.owed.Pairwise (· < ·)
  lo : ∀ e ∈ st.owed, 0 ≤ e
  hi : ∀ e ∈ st.owed, e < st.depth
  nn : NN st.res
  exc : psum st.res = st.depth + st.owed.length
  nd : st.dipped = false

theorem Inv_init : Inv ({} : LexSt α) :=
  ⟨by simp, by simp, by simp, NN_nil, by simp, rfl⟩

theorem lt_pred (owed : List Int) (D : Int) (hs : owed.Pairwise (· < ·)) (hi : ∀ e ∈ owed, e < D)
    (hl : owed.getLast? ≠ some (D - 1)) : ∀ e ∈ owed, e < D - 1 := by
  intro e he
  cases hg : owed.getLast? with
  | none =>
    rw [List.getLast?_eq_none_iff] at hg
    subst hg
    simp at he
  | some x =>
    obtain ⟨ys, rfl⟩ := List.getLast?_eq_some_iff.mp hg
    have hx : x < D := hi x (by simp)
    have hx' : x ≠ D - 1 := fun e => hl (by rw [hg, e])
    rw [List.pairwise_append] at hs
    rcases List.mem_append.mp he with h | h
    · have := hs.2.2 e h x (by simp)
      omega
    · simp at h
      omega

theorem lexStep_inv (I : Interp α) (t : Table) (lm : Str → Option Nat) (c : Char) (cs : Str)
    (st st' : LexSt α) (n : Nat) (h : lexStep I t lm (c :: cs) st = .ok (n, st'))
    (inv : Inv st) (hd : 0 ≤ st'.depth) : Inv st' := by
  have hT := NN_total _ inv.nn
  -- the depth is still non-negative, so the flag is still unset
  have hnd : st'.dipped = false := by
    rw [(lexStep_dipped I t lm c cs st st' n h).1, inv.nd]
    rcases lexStep_cases I t lm c cs st st' n h with
      ⟨hc, -⟩ | ⟨-, -, -, -, -, hD⟩ | ⟨-, -, -, -, -, hD⟩ | ⟨hc, -⟩ | ⟨hc, -⟩ | ⟨-, hc, -⟩
    · subst hc; rfl
    · have : ¬ (st.depth - 1 < 0) := by omega
      simp [this]
    · have : ¬ (st.depth - 1 < 0) := by omega
      simp [this]
    · subst hc; rfl
    · subst hc; rfl
    · simp [hc]
  rcases lexStep_cases I t lm c cs st st' n h with
    ⟨-, -, hr, ho, hD⟩ | ⟨-, -, hl, hr, ho, hD⟩ | ⟨-, -, hl, hr, ho, hD⟩ |
    ⟨-, -, i, o, hf, hi, hl, hr, ho, hD⟩ | ⟨-, -, name, hr, ho, hD⟩ | ⟨-, -, -, -, -, tk, htk, hr, ho, hD⟩
  · refine ⟨by rw [ho]; exact inv.sorted, by rw [ho]; exact inv.lo, ?_, ?_, ?_, hnd⟩
    · rw [ho, hD]; intro e he; have := inv.hi e he; omega
    · rw [hr]; exact NN_snoc _ _ inv.nn (by simp [parenDelta]; omega)
    · rw [hr, ho, hD]; simp [parenDelta]; have := inv.exc; omega
  · obtain ⟨ys, hys⟩ := List.getLast?_eq_some_iff.mp hl
    have hsorted := inv.sorted
    have hlo := inv.lo
    have hexc := inv.exc
    rw [hys] at hsorted hlo hexc
    rw [hys, List.dropLast_concat] at ho
    rw [List.pairwise_append] at hsorted
    have hexc' : psum st.res = st.depth + ys.length + 1 := by
      simpa [Int.add_assoc] using hexc
    refine ⟨by rw [ho]; exact hsorted.1, ?_, ?_, ?_, ?_, hnd⟩
    · rw [ho]; intro e he; exact hlo e (by simp [he])
    · rw [ho, hD]; intro e he; exact hsorted.2.2 e he _ (by simp)
    · rw [hr]
      have : st.res ++ [Tok.pclose, Tok.pclose] = (st.res ++ [Tok.pclose]) ++ [Tok.pclose] := by simp
      rw [this]
      refine NN_snoc _ _ (NN_snoc _ _ inv.nn ?_) ?_
      · simp [parenDelta]; omega
      · simp [parenDelta]; omega
    · rw [hr, ho, hD]; simp [parenDelta]; omega
  · have hlt := lt_pred _ _ inv.sorted inv.hi hl
    have hexc := inv.exc
    refine ⟨by rw [ho]; exact inv.sorted, by rw [ho]; exact inv.lo, ?_, ?_, ?_, hnd⟩
    · rw [ho, hD]; exact hlt
    · rw [hr]; exact NN_snoc _ _ inv.nn (by simp [parenDelta]; omega)
    · rw [hr, ho, hD]; simp [parenDelta]; omega
  · have hlt := lt_pred _ _ inv.sorted inv.hi hl
    have hexc := inv.exc
    have hsum := findOpOfComma_sum _ _ hf
    have hpre := inv.nn i
    -- the comma is at source depth ≥ 1
    have hdep : 1 ≤ st.depth := by
      cases hO : st.owed with
      | nil => rw [hO] at hexc; simp at hexc; omega
      | cons e es =>
        have h1 := inv.lo e (by simp [hO])
        have h2 := inv.hi e (by simp [hO])
        omega
    have hset : psum (st.res.set i Tok.popen) = psum st.res + 1 := by
      rw [psum_set _ _ _ _ hi]; simp [parenDelta]
    have hnnset : NN (st.res.set i Tok.popen) :=
      NN_set _ _ _ _ hi (by simp [parenDelta]) inv.nn
    refine ⟨?_, ?_, ?_, ?_, ?_, hnd⟩
    · rw [ho, List.pairwise_append]
      refine ⟨inv.sorted, by simp, ?_⟩
      intro a ha b hb
      simp at hb
      subst hb
      exact hlt a ha
    · rw [ho]; intro e he
      rcases List.mem_append.mp he with h | h
      · exact inv.lo e h
      · simp at h; omega
    · rw [ho, hD]; intro e he
      rcases List.mem_append.mp he with h | h
      · exact inv.hi e h
      · simp at h; omega
    · rw [hr]
      have : st.res.set i Tok.popen ++ [Tok.pclose, Tok.op o, Tok.popen] =
          ((st.res.set i Tok.popen ++ [Tok.pclose]) ++ [Tok.op o]) ++ [Tok.popen] := by simp
      rw [this]
      refine NN_snoc _ _ (NN_snoc _ _ (NN_snoc _ _ hnnset ?_) ?_) ?_
      · rw [hset]; simp [parenDelta]; omega
      · rw [psum_append, hset]; simp [parenDelta]; omega
      · rw [psum_append, psum_append, hset]; simp [parenDelta]; omega
    · rw [hr, ho, hD, psum_append, hset]; simp [parenDelta]; omega
  · refine ⟨by rw [ho]; exact inv.sorted, by rw [ho]; exact inv.lo, by rw [ho, hD]; exact inv.hi, ?_, ?_, hnd⟩
    · rw [hr]; exact NN_snoc _ _ inv.nn (by simp [parenDelta]; omega)
    · rw [hr, ho, hD]; simp [parenDelta]; exact inv.exc
  · refine ⟨by rw [ho]; exact inv.sorted, by rw [ho]; exact inv.lo, by rw [ho, hD]; exact inv.hi, ?_, ?_, hnd⟩
    · rw [hr]; exact NN_snoc _ _ inv.nn (by rw [htk]; omega)
    · rw [hr, ho, hD]; simp [htk]; exact inv.exc

/-- the first unmatched `)`: nothing is owed at depth 0, so the token balance becomes negative;
    and the flag `dipped` is set -/
theorem lexStep_dip (I : Interp α) (t : Table) (lm : Str → Option Nat) (cs : Str)
    (st st' : LexSt α) (n : Nat) (h : lexStep I t lm (')' :: cs) st = .ok (n, st'))
    (inv : Inv st) (hd : st.depth = 0) : n = 1 ∧ psum st'.res < 0 ∧ st'.dipped = true := by
  have hdip : st'.dipped = true := by
    rw [(lexStep_dipped I t lm _ cs st st' n h).1, hd]
    simp
  have hnil : st.owed = [] := by
    cases hO : st.owed with
    | nil => rfl
    | cons e es =>
      have h1 := inv.lo e (by simp [hO])
      have h2 := inv.hi e (by simp [hO])
      omega
  have hexc := inv.exc
  rw [hnil, hd] at hexc
  rcases lexStep_cases I t lm _ cs st st' n h with
    ⟨hc, -⟩ | ⟨-, -, hl, -⟩ | ⟨-, hn, -, hr, -, -⟩ | ⟨hc, -⟩ | ⟨hc, -⟩ | ⟨-, hc, -⟩
  · cases hc
  · rw [hnil] at hl; simp at hl
  · refine ⟨hn, ?_, hdip⟩
    rw [hr]; simp [parenDelta] at hexc ⊢; omega
  · cases hc
  · cases hc
  · exact absurd rfl hc

/-! ### without a (successful) comma step the token list only grows -/

theorem lexStep_append (I : Interp α) (t : Table) (lm : Str → Option Nat) (c : Char) (cs : Str)
    (st st' : LexSt α) (n : Nat) (h : lexStep I t lm (c :: cs) st = .ok (n, st')) (hc : c ≠ ',') :
    ∃ more, st'.res = st.res ++ more := by
  rcases lexStep_cases I t lm c cs st st' n h with
    ⟨-, -, hr, -⟩ | ⟨-, -, -, hr, -⟩ | ⟨-, -, -, hr, -⟩ |
    ⟨hc', -⟩ | ⟨-, -, name, hr, -⟩ | ⟨-, -, -, -, -, tk, -, hr, -⟩
  · exact ⟨_, hr⟩
  · exact ⟨_, hr⟩
  · exact ⟨_, hr⟩
  · exact absurd hc' hc
  · exact ⟨_, hr⟩
  · exact ⟨_, hr⟩

theorem lexLoop_append (I : Interp α) (t : Table) (lm : Str → Option Nat) :
    ∀ (text : Str) (skip : Nat) (st st' : LexSt α), ',' ∉ text →
      lexLoop I t lm text skip st = .ok st' → ∃ more, st'.res = st.res ++ more
  | [], _, st, st', _, h => by
    simp [lexLoop] at h
    exact ⟨[], by simp [h]⟩
  | _ :: cs, skip + 1, st, st', hn, h => by
    simp only [lexLoop] at h
    exact lexLoop_append I t lm cs skip st st' (fun hm => hn (by simp [hm])) h
  | c :: cs, 0, st, st', hn, h => by
    have hcs : ',' ∉ cs := fun hm => hn (by simp [hm])
    have hc : c ≠ ',' := fun e => hn (by simp [e])
    simp only [lexLoop] at h
    split at h
    · exact lexLoop_append I t lm cs 0 st st' hcs h
    · split at h
      · cases h
      · rename_i n st1 hs
        obtain ⟨m1, h1⟩ := lexStep_append I t lm c cs st st1 n hs hc
        split at h
        · cases h; exact ⟨m1, h1⟩
        · obtain ⟨m2, h2⟩ := lexLoop_append I t lm cs (n - 1) st1 st' hcs h
          exact ⟨m1 ++ m2, by rw [h2, h1, List.append_assoc]⟩

/-! ### after an unmatched `)` every comma is an error, so the token list only grows -/

theorem lexStep_dipped_append (I : Interp α) (t : Table) (lm : Str → Option Nat) (c : Char) (cs : Str)
    (st st' : LexSt α) (n : Nat) (h : lexStep I t lm (c :: cs) st = .ok (n, st'))
    (hd : st.dipped = true) : st'.dipped = true ∧ ∃ more, st'.res = st.res ++ more := by
  obtain ⟨h1, h2⟩ := lexStep_dipped I t lm c cs st st' n h
  refine ⟨by rw [h1, hd]; rfl, lexStep_append I t lm c cs st st' n h ?_⟩
  intro hc
  rw [h2 hc] at hd
  cases hd

theorem lexLoop_dipped_append (I : Interp α) (t : Table) (lm : Str → Option Nat) :
    ∀ (text : Str) (skip : Nat) (st st' : LexSt α), st.dipped = true →
      lexLoop I t lm text skip st = .ok st' → st'.dipped = true ∧ ∃ more, st'.res = st.res ++ more
  | [], _, st, st', hd, h => by
    simp [lexLoop] at h
    subst h
    exact ⟨hd, [], by simp⟩
  | _ :: cs, skip + 1, st, st', hd, h => by
    simp only [lexLoop] at h
    exact lexLoop_dipped_append I t lm cs skip st st' hd h
  | c :: cs, 0, st, st', hd, h => by
    simp only [lexLoop] at h
    split at h
    · exact lexLoop_dipped_append I t lm cs 0 st st' hd h
    · split at h
      · cases h
      · rename_i n st1 hs
        obtain ⟨hd1, m1, h1⟩ := lexStep_dipped_append I t lm c cs st st1 n hs hd
        split at h
        · cases h; exact ⟨hd1, m1, h1⟩
        · obtain ⟨hd2, m2, h2⟩ := lexLoop_dipped_append I t lm cs (n - 1) st1 st' hd1 h
          exact ⟨hd2, m1 ++ m2, by rw [h2, h1, List.append_assoc]⟩

/-- once the token balance is negative in a state with `dipped` set, the final tokens (if the
    tokenizer succeeds at all) fail the balance check -/
theorem lexLoop_dipped_unbalanced (I : Interp α) (t : Table) (lm : Str → Option Nat)
    (text : Str) (skip : Nat) (st st' : LexSt α) (hd : st.dipped = true) (hneg : psum st.res < 0)
    (h : lexLoop I t lm text skip st = .ok st') : parenBalance st'.res 0 ≠ some 0 := by
  obtain ⟨-, more, hm⟩ := lexLoop_dipped_append I t lm text skip st st' hd h
  rw [hm]
  exact not_balanced_of_prefix _ _ hneg

end Exmex.Balance
