/-
  Model of the calculation API on deep expressions (deep.rs, calculate.rs): `var_names_union`,
  `operate_bin`, `operate_unary`, the overloaded arithmetic with neutral-element shortcuts
  (`+ * / pow`), `subs`, `from_num`.
-/
import Exmex.Model.Conv
namespace Exmex

/-- what the calculus needs beyond `Interp`: `From<u8>` (0, 1), `From<f32>` (2.0, 10.0), `PartialEq` -/
structure CalcOps (α : Type) where
  zero : α
  one : α
  two : α
  ten : α
  eqv : α → α → Bool

/-- `find_op`: index of the first operator with this name -/
def findOp (t : Table) (repr : Str) : Option Nat := t.findIdx? (fun o => o.repr == repr)

/-- `find_bin_op` -/
def findBinOp (t : Table) (repr : Str) : Res DBin :=
  match findOp t repr with
  | none => .error (.err "opname")
  | some i =>
    match tblBin t i with
    | some b => .ok b
    | none => .error (.err "not_binary")

/-- `find_unary_op` -/
def findUnaryOp (t : Table) (repr : Str) : Res Nat :=
  match findOp t repr with
  | none => .error (.err "opname")
  | some i => if tblHasUnary t i then .ok i else .error (.err "not_unary")

section
variable {α : Type} (I : Interp α) (C : CalcOps α) (t : Table)

/-- `is_num` -/
def DeepEx.isNum : DeepEx α → α → Bool
  | .mk [.num n] _ un _, x => C.eqv (applyUn I un n) x
  | .mk [.expr e] _ _ _, x => e.isNum x
  | _, _ => false

def DeepEx.isZero (e : DeepEx α) : Bool := e.isNum I C C.zero
def DeepEx.isOne (e : DeepEx α) : Bool := e.isNum I C C.one

/-- `from_num` / `from_node` -/
def DeepEx.fromNum (x : α) : Res (DeepEx α) :=
  match DeepEx.new I [.num x] [] [] with
  | .ok e => .ok e
  | .error _ => .error (.panic "deep.rs:from_node unwrap")

/-- `var_names_union` -/
def varNamesUnion (a b : DeepEx α) : Res (DeepEx α × DeepEx α) :=
  let all := sortBy strLe (b.vars.foldl pushNew a.vars)
  match a.resetVars all, b.resetVars all with
  | some a', some b' => .ok (a', b')
  | _, _ => .error (.panic "deep.rs:reset_vars unwrap")

/-- `detail::operate_bin` -/
def operateBinOp (a b : DeepEx α) (op : DBin) : Res (DeepEx α) :=
  match varNamesUnion a b with
  | .error e => .error e
  | .ok (a', b') =>
    match DeepEx.new I [.expr a', .expr b'] [op] [] with
    | .error _ => .error (.panic "deep.rs:operate_bin unwrap")
    | .ok r => r.compile I

/-- `DeepEx::operate_bin` -/
def DeepEx.operateBin (a b : DeepEx α) (repr : Str) : Res (DeepEx α) :=
  match findBinOp t repr with
  | .error e => .error e
  | .ok op => operateBinOp I a b op

/-- `DeepEx::operate_unary` -/
def DeepEx.operateUnary (a : DeepEx α) (repr : Str) : Res (DeepEx α) :=
  match findUnaryOp t repr with
  | .error e => .error e
  | .ok u => (DeepEx.mk a.nodes a.ops (u :: a.un) a.vars).compile I

def DeepEx.zeroLike (other : DeepEx α) : Res (DeepEx α) :=
  match DeepEx.fromNum I C.zero with
  | .ok z => .ok (z.withVars other.vars)
  | .error e => .error e

def DeepEx.oneLike (other : DeepEx α) : Res (DeepEx α) :=
  match DeepEx.fromNum I C.one with
  | .ok z => .ok (z.withVars other.vars)
  | .error e => .error e

/-- `impl Add` -/
def DeepEx.add (a b : DeepEx α) : Res (DeepEx α) :=
  match varNamesUnion a b with
  | .error e => .error e
  | .ok (s1, s2) =>
    if s1.isZero I C then .ok s2
    else if s2.isZero I C then .ok s1
    else s1.operateBin I t s2 "+".toList

/-- `impl Sub` -/
def DeepEx.sub (a b : DeepEx α) : Res (DeepEx α) := a.operateBin I t b "-".toList

/-- `impl Mul` -/
def DeepEx.mul (a b : DeepEx α) : Res (DeepEx α) :=
  match varNamesUnion a b with
  | .error e => .error e
  | .ok (f1, f2) =>
    if f1.isZero I C || f2.isZero I C then DeepEx.zeroLike I C f1
    else if f1.isOne I C then .ok f2
    else if f2.isOne I C then .ok f1
    else f1.operateBin I t f2 "*".toList

/-- `impl Div` -/
def DeepEx.div (a b : DeepEx α) : Res (DeepEx α) :=
  match varNamesUnion a b with
  | .error e => .error e
  | .ok (n, d) =>
    if n.isZero I C && !d.isZero I C then DeepEx.zeroLike I C n
    else if d.isOne I C then .ok n
    else n.operateBin I t d "/".toList

/-- `DeepEx::pow` -/
def DeepEx.pow (a b : DeepEx α) : Res (DeepEx α) :=
  match varNamesUnion a b with
  | .error e => .error e
  | .ok (base, ex) =>
    if base.isZero I C && ex.isZero I C then .error (.err "zero_pow_zero")
    else if base.isZero I C then DeepEx.zeroLike I C base
    else if ex.isZero I C then DeepEx.oneLike I C base
    else if ex.isOne I C then .ok base
    else base.operateBin I t ex "^".toList

/-- `impl Neg` -/
def DeepEx.neg (a : DeepEx α) : Res (DeepEx α) := a.operateUnary I t "-".toList

/-- `without_latest_unary` (panics on an empty chain: `remove(0)`) -/
def DeepEx.withoutLatestUnary (a : DeepEx α) : Res (DeepEx α) :=
  match a.un with
  | [] => .error (.panic "operators.rs:remove_latest")
  | _ :: rest => .ok (.mk a.nodes a.ops rest a.vars)

end

/-! ### `subs` -/

section
variable {α : Type} (I : Interp α)

mutual
/-- `DeepNode::contains_var` -/
def nodeContainsVar (name : Str) : DeepNode α → Bool
  | .num _ => false
  | .var _ v => v == name
  | .expr (.mk nodes _ _ _) => nodesContainVar name nodes
def nodesContainVar (name : Str) : List (DeepNode α) → Bool
  | [] => false
  | n :: ns => nodeContainsVar name n || nodesContainVar name ns
end

mutual
/-- `DeepEx::subs` with the substitution given as a finite map from names to expressions -/
def DeepEx.subs (σ : Str → Option (DeepEx α)) : DeepEx α → Res (DeepEx α)
  | .mk nodes ops un vars =>
    match subsList σ nodes with
    | .error e => .error e
    | .ok (ns, names) =>
      -- variables that do not occur in any node are kept unless they are substituted
      let names := vars.foldl (fun acc v =>
        if nodesContainVar v nodes then acc else
        match σ v with
        | none => pushNew acc v
        | some r => r.vars.foldl pushNew acc) names
      let all := sortBy strLe names
      match (DeepEx.mk ns ops un []).resetVars all with
      | none => .error (.panic "deep.rs:reset_vars unwrap")
      | some e' => e'.compile I
/-- nodes after substitution, and the variable names pushed (in order, without duplicates) -/
def subsList (σ : Str → Option (DeepEx α)) : List (DeepNode α) → Res (List (DeepNode α) × List Str)
  | [] => .ok ([], [])
  | n :: ns =>
    let here : Res (DeepNode α × List Str) := match n with
      | .var i v =>
        match σ v with
        | some r => .ok (.expr r, r.vars)
        | none => .ok (.var i v, [v])
      | .expr e =>
        match e.subs σ with
        | .error err => .error err
        | .ok e' => .ok (.expr e', e'.vars)
      | .num a => .ok (.num a, [])
    match here, subsList σ ns with
    | .ok (n', vs), .ok (ns', ws) => .ok (n' :: ns', ws.foldl pushNew (vs.foldl pushNew []) )
    | .error e, _ => .error e
    | _, .error e => .error e
end

end
end Exmex
