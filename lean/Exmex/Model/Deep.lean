/-
  Model of src/expression/deep.rs: `DeepEx`/`DeepNode`, the recursive parser (`make_expression`,
  `process_unary`), `lift_nodes`, `DeepEx::compile`, `DeepEx::new`, `prioritized_indices`,
  evaluation, `unparse_raw`, operator listings.
-/
import Exmex.Model.Flat
namespace Exmex

/-- binary operator of a deep expression (`BinOpWithIdx`): table index, priority, flag -/
structure DBin where
  idx : Nat
  prio : Int
  comm : Bool
deriving Repr, DecidableEq, Inhabited

mutual
inductive DeepNode (α : Type) where
  | num (a : α)
  | var (i : Nat) (name : Str)
  | expr (e : DeepEx α)
inductive DeepEx (α : Type) where
  | mk (nodes : List (DeepNode α)) (ops : List DBin) (un : List Nat) (vars : List Str)
end

instance {α} : Inhabited (DeepEx α) := ⟨.mk [] [] [] []⟩

def DeepEx.nodes {α} : DeepEx α → List (DeepNode α) | .mk n _ _ _ => n
def DeepEx.ops {α} : DeepEx α → List DBin | .mk _ o _ _ => o
def DeepEx.un {α} : DeepEx α → List Nat | .mk _ _ u _ => u
def DeepEx.vars {α} : DeepEx α → List Str | .mk _ _ _ v => v
def DeepEx.withVars {α} (e : DeepEx α) (vs : List Str) : DeepEx α := .mk e.nodes e.ops e.un vs

def DeepNode.isNum {α} : DeepNode α → Bool
  | .num _ => true
  | _ => false

/-! ### priority order of one group -/

def deepIsNumAt {α} (nodes : List (DeepNode α)) (k : Nat) : Bool := (nodes[k]?).any (·.isNum)

/-- `left_is_compatible`: the operator directly on the left has lower priority or is the same -/
def deepLeftCompatible (ops : List DBin) (k : Nat) : Bool :=
  k == 0 ||
    match ops[k]?, ops[k - 1]? with
    | some op, some l => l.prio < op.prio || (l.prio == op.prio && l.idx == op.idx)
    | _, _ => false

def deepBumped {α} (ops : List DBin) (nodes : List (DeepNode α)) (k : Nat) : Bool :=
  match ops[k]? with
  | none => false
  | some op => deepIsNumAt nodes k && deepIsNumAt nodes (k + 1) && op.comm && deepLeftCompatible ops k

def deepSortKey {α} (ops : List DBin) (nodes : List (DeepNode α)) (k : Nat) : Int :=
  match ops[k]? with
  | none => 0
  | some op => op.prio * 10 + (if deepBumped ops nodes k then 5 else 0)

/-- `prioritized_indices` -/
def prioIdxDeep {α} (ops : List DBin) (nodes : List (DeepNode α)) : List Nat :=
  orderByKey (deepSortKey ops nodes) ops.length

/-! ### `lift_nodes` -/

mutual
def DeepEx.liftNodes {α} : DeepEx α → DeepEx α
  | .mk nodes ops un vars =>
    if nodes.length == 1 && un.isEmpty then
      match nodes with
      | [.expr e] => e
      | _ => .mk nodes ops un vars
    else .mk (liftNodeList nodes) ops un vars
def DeepNode.liftNode {α} : DeepNode α → DeepNode α
  | .expr (.mk [inner] ops' [] vars') =>
    match inner with
    | .num a => .num a
    | .var i v => .var i v
    | .expr ed =>
      let ed' := ed.liftNodes
      if ed'.nodes.length == 1 && ed'.un.isEmpty then .expr ed'
      else .expr (.mk [.expr ed'] ops' [] vars')
  | other => other
def liftNodeList {α} : List (DeepNode α) → List (DeepNode α)
  | [] => []
  | n :: ns => n.liftNode :: liftNodeList ns
end

/-! ### `DeepEx::compile` -/

structure DCompileSt (α : Type) where
  nodes : List (DeepNode α)
  declined : List Bool
  used : List Nat := []

def deepApply {α} (I : Interp α) (ops : List DBin) (k : Nat) (a b : α) : Option α :=
  (ops[k]?).map (fun op => I.bin op.idx a b)

def dcompileStep {α} (I : Interp α) (ops : List DBin) (st : DCompileSt α) (binOpIdx numIdx : Nat)
    (restInds : List Nat) : Res (DCompileSt α × List Nat) :=
  match st.nodes[numIdx]?, st.nodes[numIdx + 1]? with
  | some n1, some n2 =>
    match n1, n2 with
    | .num a, .num b =>
      if !(st.declined.getD numIdx false || st.declined.getD (numIdx + 1) false) then
        match deepApply I ops binOpIdx a b with
        | none => .error (.panic "deep.rs:compile bin_ops.ops[bin_op_idx]")
        | some v =>
          .ok ({ nodes := (st.nodes.set numIdx (.num v)).eraseIdx (numIdx + 1),
                 declined := st.declined.eraseIdx (numIdx + 1),
                 used := st.used ++ [binOpIdx] },
               restInds.map (fun j => if j > numIdx then j - 1 else j))
      else
        .ok ({ st with declined := (st.declined.set numIdx true).set (numIdx + 1) true }, restInds)
    | _, _ =>
      .ok ({ st with declined := (st.declined.set numIdx true).set (numIdx + 1) true }, restInds)
  | _, _ => .error (.panic "deep.rs:compile nodes[num_idx]")

def dcompileLoop {α} (I : Interp α) (ops : List DBin) :
    List Nat → List Nat → DCompileSt α → Res (DCompileSt α)
  | [], _, st => .ok st
  | _ :: _, [], _ => .error (.panic "deep.rs:compile num_inds[i]")
  | b :: bs, n :: ns, st =>
    match dcompileStep I ops st b n ns with
    | .error e => .error e
    | .ok (st', ns') => dcompileLoop I ops bs ns' st'

/-- `DeepEx::compile` -/
def DeepEx.compile {α} (I : Interp α) (e : DeepEx α) : Res (DeepEx α) :=
  let e1 := e.liftNodes
  let prio := prioIdxDeep e1.ops e1.nodes
  match dcompileLoop I e1.ops prio prio
      { nodes := e1.nodes, declined := List.replicate e1.nodes.length false } with
  | .error err => .error err
  | .ok st =>
    let ops' := (e1.ops.zipIdx.filter (fun p => !st.used.contains p.2)).map (·.1)
    match st.nodes with
    | [.num a] => .ok (.mk [.num (applyUn I e1.un a)] ops' [] e1.vars)
    | ns => .ok (.mk ns ops' e1.un e1.vars)

/-- the variable names `DeepEx::new` collects from its nodes -/
def foundVars {α} (nodes : List (DeepNode α)) : List Str :=
  sortBy strLe (nodes.foldl (fun acc n => match n with
    | .num _ => acc
    | .var _ name => pushNew acc name
    | .expr e => e.vars.foldl pushNew acc) [])

/-- `DeepEx::new` -/
def DeepEx.new {α} (I : Interp α) (nodes : List (DeepNode α)) (ops : List DBin) (un : List Nat) :
    Res (DeepEx α) :=
  if nodes.length + ops.length + un.length == 0 then .ok (.mk [] [] [] [])
  else if nodes.length != ops.length + 1 then .error (.err "count")
  else (DeepEx.mk nodes ops un (foundVars nodes)).compile I

/-! ### the recursive parser -/

def subsequentUnaries {α} (t : Table) : List (Tok α) → List Nat
  | .op o :: rest => if tblHasUnary t o then o :: subsequentUnaries t rest else []
  | _ => []

def tblBin (t : Table) (o : Nat) : Option DBin :=
  ((t[o]?).bind (·.bin)).map (fun b => { idx := o, prio := b.prio, comm := b.comm })

mutual
/-- `make_expression` on a token slice; returns the expression and the number of tokens consumed -/
def deepMake {α} (I : Interp α) (t : Table) (vars : List Str) :
    Nat → List (Tok α) → List Nat → Res (DeepEx α × Nat)
  | 0, _, _ => .error (.panic "model: out of fuel")
  | fuel + 1, toks, un =>
    match deepLoop I t vars fuel toks 0 [] [] with
    | .error e => .error e
    | .ok (nodes, ops, idx) =>
      match DeepEx.new I nodes ops un with
      | .error e => .error e
      | .ok d => .ok (d, idx)
/-- the `while idx_tkn < parsed_tokens.len()` loop -/
def deepLoop {α} (I : Interp α) (t : Table) (vars : List Str) :
    Nat → List (Tok α) → Nat → List (DeepNode α) → List DBin →
    Res (List (DeepNode α) × List DBin × Nat)
  | 0, _, _, _, _ => .error (.panic "model: out of fuel")
  | fuel + 1, toks, idx, nodes, ops =>
    match toks[idx]? with
    | none => .ok (nodes, ops, idx)
    | some (.op o) =>
      match isOperatorBinary t o (if idx == 0 then none else toks[idx - 1]?) with
      | .error e => .error e
      | .ok true =>
        match tblBin t o with
        | none => .error (.err "bin_missing")
        | some b => deepLoop I t vars fuel toks (idx + 1) nodes (ops ++ [b])
      | .ok false =>
        if !tblHasUnary t o then .error (.err "unary_missing") else
        match processUnary I t vars fuel toks idx o with
        | .error e => .error e
        | .ok (node, fwd) => deepLoop I t vars fuel toks (idx + fwd) (nodes ++ [node]) ops
    | some (.num a) => deepLoop I t vars fuel toks (idx + 1) (nodes ++ [.num a]) ops
    | some (.var name) =>
      match findVarIndex name vars with
      | .error e => .error e
      | .ok vi => deepLoop I t vars fuel toks (idx + 1) (nodes ++ [.var vi name]) ops
    | some .popen =>
      match deepMake I t vars fuel (toks.drop (idx + 1)) [] with
      | .error e => .error e
      | .ok (e, fwd) => deepLoop I t vars fuel toks (idx + 1 + fwd) (nodes ++ [.expr e]) ops
    | some .pclose => .ok (nodes, ops, idx + 1)
/-- `process_unary` -/
def processUnary {α} (I : Interp α) (t : Table) (vars : List Str) :
    Nat → List (Tok α) → Nat → Nat → Res (DeepNode α × Nat)
  | 0, _, _, _ => .error (.panic "model: out of fuel")
  | fuel + 1, toks, idx, o =>
    let uops := o :: subsequentUnaries t (toks.drop (idx + 1))
    let n := uops.length
    match toks[idx + n]? with
    | none => .error (.panic "deep.rs:process_unary parsed_tokens[token_idx + n_uops]")
    | some .popen | some .pclose =>
      match deepMake I t vars fuel (toks.drop (idx + n + 1)) uops with
      | .error e => .error e
      | .ok (e, fwd) => .ok (.expr e, fwd + n + 1)
    | some (.var name) =>
      match findVarIndex name vars with
      | .error e => .error e
      | .ok vi =>
        match DeepEx.new I [.var vi name] [] uops with
        | .error e => .error e
        | .ok e => .ok (.expr e, n + 1)
    | some (.num a) => .ok (.num (applyUn I uops a), n + 1)
    | some (.op _) => .error (.err "invalid_token_configuration")
end

/-- `DeepEx::parse` -/
def Deep.parse {α} (I : Interp α) (t : Table) (lm : Str → Option Nat) (text : Str) :
    Res (DeepEx α) :=
  match tokenize I t lm text with
  | .error e => .error e
  | .ok toks =>
    match checkPre t toks with
    | .error e => .error e
    | .ok () =>
      match deepMake I t (findVars toks) (2 * toks.length + 4) toks [] with
      | .error e => .error e
      | .ok (d, _) => .ok d

/-! ### evaluation -/

mutual
def DeepNode.evalNode {α} (I : Interp α) (vars : List α) : DeepNode α → Res α
  | .num a => .ok a
  | .var i _ =>
    match vars[i]? with
    | some v => .ok v
    | none => .error (.panic "deep.rs:eval_relaxed vars[idx]")
  | .expr e => e.evalRelaxed I vars
/-- `eval_relaxed` -/
def DeepEx.evalRelaxed {α} (I : Interp α) (vars : List α) : DeepEx α → Res α
  | .mk nodes ops un vs =>
    if vs.length > vars.length then .error (.err "arity") else
    match evalNodeList I vars nodes with
    | .error e => .error e
    | .ok numbers =>
      match evalBinary wordsTracker I.dflt (deepApply I ops) numbers (prioIdxDeep ops nodes)
          (List.replicate (1 + numbers.length / 64) (0#64)) with
      | .error e => .error e
      | .ok v => .ok (applyUn I un v)
def evalNodeList {α} (I : Interp α) (vars : List α) : List (DeepNode α) → Res (List α)
  | [] => .ok []
  | n :: ns =>
    match n.evalNode I vars with
    | .error e => .error e
    | .ok v =>
      match evalNodeList I vars ns with
      | .error e => .error e
      | .ok vs => .ok (v :: vs)
end

/-- `Express::eval` for `DeepEx` -/
def DeepEx.eval {α} (I : Interp α) (e : DeepEx α) (vars : List α) : Res α :=
  if e.vars.length != vars.length then .error (.err "arity") else e.evalRelaxed I vars

/-! ### printing -/

def joinWithOps (t : Table) : List Str → List DBin → Str
  | [], _ => []
  | [s], _ => s
  | s :: rest, [] => s ++ (rest.foldl (· ++ ·) [])
  | s :: rest, o :: os => s ++ reprOf t o.idx ++ joinWithOps t rest os

mutual
/-- `unparse_raw` -/
def DeepEx.unparse {α} (I : Interp α) (t : Table) : DeepEx α → Str
  | .mk nodes ops un _ =>
    let body := joinWithOps t (unparseNodeList I t nodes) ops
    if un.isEmpty then body
    else (un.foldl (fun acc u => acc ++ reprOf t u ++ ['(']) []) ++ body ++ List.replicate un.length ')'
def DeepNode.unparseNode {α} (I : Interp α) (t : Table) : DeepNode α → Str
  | .num a => I.dbg a
  | .var _ name => ['{'] ++ name ++ ['}']
  | .expr e => if e.un.isEmpty then ['('] ++ e.unparse I t ++ [')'] else e.unparse I t
def unparseNodeList {α} (I : Interp α) (t : Table) : List (DeepNode α) → List Str
  | [] => []
  | n :: ns => n.unparseNode I t :: unparseNodeList I t ns
end

/-! ### listings -/

mutual
def DeepEx.binOpsAll {α} : DeepEx α → List Nat
  | .mk nodes ops _ _ => binOpsNodes nodes ++ ops.map (·.idx)
def binOpsNodes {α} : List (DeepNode α) → List Nat
  | [] => []
  | .expr e :: ns => e.binOpsAll ++ binOpsNodes ns
  | _ :: ns => binOpsNodes ns
end

mutual
def DeepEx.unOpsAll {α} : DeepEx α → List Nat
  | .mk nodes _ un _ => unOpsNodes nodes ++ un
def unOpsNodes {α} : List (DeepNode α) → List Nat
  | [] => []
  | .expr e :: ns => e.unOpsAll ++ unOpsNodes ns
  | _ :: ns => unOpsNodes ns
end

def DeepEx.binaryReprs {α} (t : Table) (e : DeepEx α) : List Str := sortDedup (e.binOpsAll.map (reprOf t))
def DeepEx.unaryReprs {α} (t : Table) (e : DeepEx α) : List Str := sortDedup (e.unOpsAll.map (reprOf t))
def DeepEx.operatorReprs {α} (t : Table) (e : DeepEx α) : List Str :=
  sortDedup (e.binaryReprs t ++ e.unaryReprs t)

mutual
def DeepEx.nodeCount {α} : DeepEx α → Nat
  | .mk nodes _ _ _ => nodeCountList nodes
def nodeCountList {α} : List (DeepNode α) → Nat
  | [] => 0
  | .expr e :: ns => e.nodeCount + nodeCountList ns
  | _ :: ns => 1 + nodeCountList ns
end

end Exmex
