/-
  Model of the conversions between the two forms: `flatex_to_deepex` (flat.rs) and
  `flatten_vecs` / `from_deepex` (flat.rs), plus `reset_vars` (deep.rs).
-/
import Exmex.Model.Deep
namespace Exmex

/-! ### `reset_vars` -/

mutual
/-- `reset_vars`: re-index every variable by name against `all`; `none` = `unwrap` panic -/
def DeepEx.resetVars {α} (all : List Str) : DeepEx α → Option (DeepEx α)
  | .mk nodes ops un _ =>
    match resetVarsList all nodes with
    | none => none
    | some ns => some (.mk ns ops un all)
def DeepNode.resetVarsNode {α} (all : List Str) : DeepNode α → Option (DeepNode α)
  | .num a => some (.num a)
  | .var _ v =>
    match all.idxOf? v with
    | some i => some (.var i v)
    | none => none
  | .expr e => (e.resetVars all).map .expr
def resetVarsList {α} (all : List Str) : List (DeepNode α) → Option (List (DeepNode α))
  | [] => some []
  | n :: ns =>
    match n.resetVarsNode all, resetVarsList all ns with
    | some n', some ns' => some (n' :: ns')
    | _, _ => none
end

/-! ### flat → deep -/

/-- `convert_node` -/
def convertNode {α} (I : Interp α) (vars : List Str) (n : FlatNode α) : Res (DeepNode α) :=
  let base : Res (DeepNode α) := match n.kind with
    | .num a => .ok (.num a)
    | .var i =>
      match vars[i]? with
      | some name => .ok (.var i name)
      | none => .error (.panic "flat.rs:convert_node var_names[var_idx]")
  match base with
  | .error e => .error e
  | .ok d =>
    if n.un.isEmpty then .ok d
    else
      match DeepEx.new I [d] [] n.un with
      | .error _ => .error (.panic "flat.rs:convert_node unwrap")
      | .ok e => .ok (.expr e)

def convertNodes {α} (I : Interp α) (vars : List Str) : List (FlatNode α) → Res (List (DeepNode α))
  | [] => .ok []
  | n :: ns =>
    match convertNode I vars n, convertNodes I vars ns with
    | .ok d, .ok ds => .ok (d :: ds)
    | .error e, _ => .error e
    | _, .error e => .error e

def dummyNode {α} : DeepNode α := .var (2 ^ 64 - 1) []

/-- one iteration of the `for &idx in &prio_inds` loop of `flatex_to_deepex` -/
def toDeepStep {α} (I : Interp α) (t : Table) (ops : List FlatOp)
    (st : List (DeepNode α) × Words) (idx : Nat) : Res (List (DeepNode α) × Words) :=
  let (nodes, tr) := st
  match Words.getPrevious tr idx, Words.getNext tr idx with
  | some l, some r =>
    match Words.ignore tr (idx + r) with
    | none => .error (.panic "number_tracker.rs:ignore index")
    | some tr' =>
      if l > idx then .error (.panic "flat.rs:flatex_to_deepex idx - shift_left underflow") else
      let i1 := idx - l
      let i2 := idx + r
      match nodes[i1]?, nodes[i2]?, ops[idx]? with
      | some a, some b, some fo =>
        match tblBin t fo.idx with
        | none => .error (.err "bin_missing")
        | some origBin =>
          match DeepEx.new I [a, b] [{ idx := fo.idx, prio := origBin.prio, comm := fo.comm }] fo.un with
          | .error e => .error e
          | .ok e => .ok (((nodes.set i2 dummyNode).set i1 (.expr e)), tr')
      | _, _, _ => .error (.panic "flat.rs:flatex_to_deepex assert")
  | _, _ => .error (.panic "number_tracker.rs:segment index")

def toDeepLoop {α} (I : Interp α) (t : Table) (ops : List FlatOp) :
    List Nat → List (DeepNode α) × Words → Res (List (DeepNode α) × Words)
  | [], st => .ok st
  | idx :: rest, st =>
    match toDeepStep I t ops st idx with
    | .error e => .error e
    | .ok st' => toDeepLoop I t ops rest st'

/-- `flatex_to_deepex` / `FlatEx::to_deepex` -/
def FlatEx.toDeep {α} (I : Interp α) (t : Table) (f : FlatEx α) : Res (DeepEx α) :=
  if f.ops.any (fun o => (tblBin t o.idx).isNone) then .error (.err "bin_missing") else
  match convertNodes I f.vars f.nodes with
  | .error e => .error e
  | .ok dn =>
    match toDeepLoop I t f.ops (prioIdxFlat f.ops f.nodes)
        (dn, List.replicate (1 + dn.length / 64) (0#64)) with
    | .error e => .error e
    | .ok (dn', _) =>
      match dn' with
      | [] => .error (.err "empty")
      | final :: _ =>
        match DeepEx.new I [final] [] [] with
        | .error e => .error e
        | .ok d =>
          match d.resetVars f.vars with
          | none => .error (.panic "deep.rs:reset_vars unwrap")
          | some d' => d'.compile I

/-! ### deep → flat -/

/-- index of the right-most operator of minimal priority (`iter_mut().rev().min_by_key`) -/
def lowestRightmost (ops : List FlatOp) : Option Nat := lowestTrailing ops (ops.foldl (fun m o => min m o.prio) 0 - 1)

mutual
/-- `flatten_vecs` -/
def DeepEx.flatten {α} (off : Int) : DeepEx α → List (FlatNode α) × List FlatOp
  | .mk nodes ops un _ =>
    let (fn, fo) := flattenList off nodes ops
    if un.isEmpty then (fn, fo)
    else if !fo.isEmpty then
      match lowestRightmost fo with
      | some k => (fn, fo.modify k (fun o => { o with un := un ++ o.un }))
      | none => (fn, fo)
    else
      match fn with
      | n :: rest => ({ n with un := un ++ n.un } :: rest, fo)
      | [] => (fn, fo)
def flattenList {α} (off : Int) : List (DeepNode α) → List DBin → List (FlatNode α) × List FlatOp
  | [], _ => ([], [])
  | n :: ns, ops =>
    let (fn, fo) : List (FlatNode α) × List FlatOp := match n with
      | .num a => ([{ kind := .num a }], [])
      | .var i _ => ([{ kind := .var i }], [])
      | .expr e => e.flatten (off + 100)
    let (opHere, opsRest) : List FlatOp × List DBin := match ops with
      | [] => ([], [])
      | b :: bs => ([{ idx := b.idx, prio := b.prio + off, comm := b.comm }], bs)
    let (fn', fo') := flattenList off ns opsRest
    (fn ++ fn', fo ++ opHere ++ fo')
end

/-- `FlatEx::from_deepex` -/
def FlatEx.fromDeep {α} (I : Interp α) (t : Table) (d : DeepEx α) : FlatEx α :=
  let (nodes, ops) := d.flatten 0
  { nodes := nodes, ops := ops, prioIdx := prioIdxFlat ops nodes, vars := d.vars,
    text := d.unparse I t }

end Exmex
