/-
  Model of src/expression/calculate.rs (`trait Calculate`, default methods) for flat expressions:
  every operation goes through the deep form and back (`to_deepex`, the deep operation,
  `from_deepex`).
-/
import Exmex.Model.Diff
namespace Exmex

section
variable {α : Type} (I : Interp α) (C : CalcOps α) (t : Table)

/-- `Calculate::operate_unary` -/
def FlatEx.operateUnary (a : FlatEx α) (repr : Str) : Res (FlatEx α) :=
  match a.toDeep I t with
  | .error e => .error e
  | .ok d =>
    match d.operateUnary I t repr with
    | .error e => .error e
    | .ok r => .ok (FlatEx.fromDeep I t r)

/-- `Calculate::operate_binary` -/
def FlatEx.operateBin (a b : FlatEx α) (repr : Str) : Res (FlatEx α) :=
  match a.toDeep I t with
  | .error e => .error e
  | .ok da =>
    match b.toDeep I t with
    | .error e => .error e
    | .ok db =>
      match da.operateBin I t db repr with
      | .error e => .error e
      | .ok r => .ok (FlatEx.fromDeep I t r)

/-- `Calculate::subs`: a replacement whose conversion fails counts as "not replaced"
    (`sub(var).and_then(|e| e.to_deepex().ok())`) -/
def FlatEx.subs (a : FlatEx α) (σ : Str → Option (FlatEx α)) : Res (FlatEx α) :=
  match a.toDeep I t with
  | .error e => .error e
  | .ok d =>
    let σ' : Str → Option (DeepEx α) := fun v =>
      match σ v with
      | none => none
      | some f => match f.toDeep I t with | .ok r => some r | .error _ => none
    match d.subs I σ' with
    | .error e => .error e
    | .ok r => .ok (FlatEx.fromDeep I t r)

/-- `Calculate::from_num` -/
def FlatEx.fromNum (x : α) : Res (FlatEx α) :=
  match DeepEx.fromNum I x with
  | .error e => .error e
  | .ok d => .ok (FlatEx.fromDeep I t d)

end
end Exmex
