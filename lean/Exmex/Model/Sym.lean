/-
  The free term algebra used as data type on both sides of the correspondence run: the value
  returned by `eval` *is* the whole applied tree. Mirrors `enum Sym` of the Rust harness.
-/
import Exmex.Model.Basic
namespace Exmex

inductive Sym where
  | hole
  | lit (s : Str)
  | var (i : Nat)
  | const (k : Nat)
  | un (k : Nat) (a : Sym)
  | bin (k : Nat) (a b : Sym)
deriving Repr, DecidableEq, Inhabited

/-- canonical text of a term, identical to the harness' `Display for Sym` -/
def Sym.show : Sym → String
  | .hole => "H"
  | .lit s => "L" ++ String.ofList s
  | .var i => "V" ++ toString i
  | .const k => "K" ++ toString k
  | .un k a => "(U" ++ toString k ++ " " ++ a.show ++ ")"
  | .bin k a b => "(B" ++ toString k ++ " " ++ a.show ++ " " ++ b.show ++ ")"

def symInterp : Interp Sym where
  bin := .bin
  un := .un
  const := .const
  ofLit s := some (.lit s)
  dflt := .hole
  dbg s := match s with
    | .lit t => t
    | other => other.show.toList

/-- `Debug` of a value as the harness prints it: a literal prints as its text, a folded value
    as a re-parseable expression over the operator names of the table. -/
def Sym.dbgT (t : Table) : Sym → Str
  | .hole => "HOLE".toList
  | .lit s => s
  | .var i => ("VAR" ++ toString i).toList
  | .const k => ['('] ++ ((t[k]?).map (·.repr)).getD [] ++ [')']
  | .un k a => ((t[k]?).map (·.repr)).getD [] ++ ['('] ++ a.dbgT t ++ [')']
  | .bin k a b => ['('] ++ a.dbgT t ++ [' '] ++ ((t[k]?).map (·.repr)).getD [] ++ [' '] ++ b.dbgT t ++ [')']

def symInterpT (t : Table) : Interp Sym := { symInterp with dbg := Sym.dbgT t }

def Sym.hasVar : Sym → Bool
  | .var _ => true
  | .un _ a => a.hasVar
  | .bin _ a b => a.hasVar || b.hasVar
  | _ => false

/-- (binary, unary) operators applied to a variable-dependent operand somewhere in the term -/
def Sym.opsVar : Sym → List Nat × List Nat
  | .un k a => (a.opsVar.1, if a.hasVar then k :: a.opsVar.2 else a.opsVar.2)
  | .bin k a b =>
    let l := a.opsVar
    let r := b.opsVar
    (if a.hasVar || b.hasVar then k :: (l.1 ++ r.1) else l.1 ++ r.1, l.2 ++ r.2)
  | _ => ([], [])

def Sym.size : Sym → Nat
  | .un _ a => a.size + 1
  | .bin _ a b => a.size + b.size + 1
  | _ => 1

/-- Normal form for "equal up to re-association of flagged operators": every nest of one flagged
    operator becomes a left-nested comb over its operands (the free model of associativity). -/
partial def Sym.assocNF (flagged : Nat → Bool) : Sym → Sym
  | .un k a => .un k (a.assocNF flagged)
  | .bin k a b =>
    if flagged k then
      let rec collect (s : Sym) (acc : Array Sym) : Array Sym :=
        match s with
        | .bin k' x y => if k' == k then collect y (collect x acc) else acc.push (s.assocNF flagged)
        | _ => acc.push (s.assocNF flagged)
      let leaves := collect (.bin k a b) #[]
      (leaves.toList.drop 1).foldl (fun acc x => .bin k acc x) leaves[0]!
    else .bin k (a.assocNF flagged) (b.assocNF flagged)
  | s => s

end Exmex
