/-
  Basic vocabulary of the model of bertiqwerty/exmex.
  No imports beyond core: everything here is executable and links into the driver.

  Conventions (DESIGN.md §4.2):
  * text is `List Char`; Rust byte offsets always fall on char boundaries in the code paths
    modelled, and byte-wise order of UTF-8 equals code-point order, so `List Char` with
    code-point comparison is a faithful stand-in for `&str`.
  * every place where the Rust code can panic is an explicit `Fail.panic site`.
  * priorities are `Int` (Rust: `i64`, no overflow for priorities in 0..=99 and depth ≤ #tokens).
-/
namespace Exmex

abbrev Str := List Char

/-- Failure of a library call: a regular error value (`ExError`) or a panic at a source site. -/
inductive Fail where
  | err (kind : String)
  | panic (site : String)
deriving Repr, DecidableEq, Inhabited

abbrev Res := Except Fail

def Res.isPanic {α} : Res α → Bool
  | .error (.panic _) => true
  | _ => false

def Res.isErr {α} : Res α → Bool
  | .error (.err _) => true
  | _ => false

def Res.isOk {α} : Res α → Bool
  | .ok _ => true
  | _ => false

/-- Binary part of an operator: priority and the `is_commutative` flag. -/
structure BinSpec where
  prio : Int
  comm : Bool
deriving Repr, DecidableEq, Inhabited

/-- One entry of the operator table (`Operator<'a, T>` without the function pointers;
    the functions live in `Interp`). The index in the table is the operator index. -/
structure OpSpec where
  repr : Str
  bin : Option BinSpec := none
  unary : Bool := false
  const : Bool := false
deriving Repr, DecidableEq, Inhabited

def OpSpec.hasBin (o : OpSpec) : Bool := o.bin.isSome
def OpSpec.hasUnary (o : OpSpec) : Bool := o.unary

abbrev Table := List OpSpec

/-- Interpretation of operator indices over a carrier `α` (the data type `T` of the library). -/
structure Interp (α : Type) where
  bin : Nat → α → α → α
  un : Nat → α → α
  const : Nat → α
  ofLit : Str → Option α
  dflt : α
  /-- `{:?}` of a value, as used by `DeepEx::unparse` -/
  dbg : α → Str := fun _ => []

/-- Composition of unary operators: `UnaryOp::apply` iterates `funcs_to_be_composed` in reverse,
    i.e. the first element of the list is applied last. -/
def applyUn {α} (I : Interp α) (us : List Nat) (x : α) : α :=
  us.foldr (fun u acc => I.un u acc) x

/-- Parsed tokens (`ParsedToken`). Constants have already become numbers. -/
inductive Tok (α : Type) where
  | num (a : α)
  | popen
  | pclose
  | op (idx : Nat)
  | var (name : Str)
deriving Repr, DecidableEq, Inhabited

/-- Code-point lexicographic comparison (= Rust `str` ordering). -/
def strLt : Str → Str → Bool
  | [], [] => false
  | [], _ :: _ => true
  | _ :: _, [] => false
  | a :: as, b :: bs => if a.val < b.val then true else if b.val < a.val then false else strLt as bs

def strLe (a b : Str) : Bool := !strLt b a

/-- Insertion into a list sorted by `le` (stable: the new element goes after equal ones
    when inserted from the right with `foldr`). -/
def insertBy {α} (le : α → α → Bool) (x : α) : List α → List α
  | [] => [x]
  | y :: ys => if le x y then x :: y :: ys else y :: insertBy le x ys

/-- Stable insertion sort: equal elements keep their original order. -/
def sortBy {α} (le : α → α → Bool) (l : List α) : List α :=
  l.foldr (insertBy le) []

def dedupAdj {α} [DecidableEq α] : List α → List α
  | [] => []
  | [x] => [x]
  | x :: y :: rest => if x = y then dedupAdj (y :: rest) else x :: dedupAdj (y :: rest)

/-- `sort_unstable(); dedup()` on names. -/
def sortDedup (l : List Str) : List Str := dedupAdj (sortBy strLe l)

def pushNew {α} [DecidableEq α] (l : List α) (x : α) : List α :=
  if l.contains x then l else l ++ [x]

end Exmex
