/-
  Model of src/value.rs: the value type `Val<i32, F>` and every operator function of
  `ValOpsFactory::make()`. Integers are `Int` with explicit 32-bit range checks where the Rust
  code uses checked arithmetic; primitives that can trap (`-a`, `a.abs()`, `a % b`,
  `NumCast::from(..).unwrap()`) are `Option`-valued and a `none` that reaches an `unwrap` is a
  `.panic`, never a default. Floats are abstract (`FloatOps F`); the driver instantiates `Float`.
-/
import Exmex.Model.Basic
namespace Exmex

/-- what the model needs from the float type `F` (`num::Float`) -/
structure FloatOps (F : Type) where
  add : F → F → F
  sub : F → F → F
  mul : F → F → F
  div : F → F → F
  min : F → F → F
  max : F → F → F
  powf : F → F → F
  powi : F → Int → F
  atan2 : F → F → F
  neg : F → F
  /-- the unary functions that are applied by name (`sin`, `cos`, …, `abs`, `signum`, `sqrt`) -/
  named : String → F → F
  ofInt : Int → F
  /-- `NumCast::from(x)` to `i32`: `none` for NaN, infinities and out-of-range values -/
  toI32 : F → Option Int
  lt : F → F → Bool
  le : F → F → Bool
  eq : F → F → Bool
  zero : F
  one : F

inductive Val (F : Type) where
  | arr (a : List F)
  | int (i : Int)
  | flt (x : F)
  | bool (b : Bool)
  | err
  | none
deriving Repr, Inhabited

abbrev VR (F : Type) := Except String (Val F)

def I32_MIN : Int := -2147483648
def I32_MAX : Int := 2147483647
def inI32 (i : Int) : Bool := I32_MIN ≤ i && i ≤ I32_MAX

/-- checked integer arithmetic: `some` iff the exact result fits -/
def chk (i : Int) : Option Int := if inI32 i then some i else Option.none

/-- Rust `/` on integers truncates toward zero -/
def tdiv (a b : Int) : Int := Int.tdiv a b
/-- Rust `%` on integers: sign of the dividend -/
def tmod (a b : Int) : Int := Int.tmod a b

def checkedDiv (a b : Int) : Option Int := if b == 0 then Option.none else chk (tdiv a b)

/-- two's complement view of an `i32` as a natural number below 2^32 -/
def toU32 (i : Int) : Nat := (i % 4294967296).toNat
def ofU32 (n : Nat) : Int := if n ≥ 2147483648 then (n : Int) - 4294967296 else n

def bitOr (a b : Int) : Int := ofU32 (toU32 a ||| toU32 b)
def bitAnd (a b : Int) : Int := ofU32 (toU32 a &&& toU32 b)
def bitXor (a b : Int) : Int := ofU32 (toU32 a ^^^ toU32 b)
def shl32 (a : Int) (n : Nat) : Int := ofU32 ((toU32 a <<< n) % 4294967296)
/-- arithmetic shift right -/
def shr32 (a : Int) (n : Nat) : Int := a / (2 ^ n : Int)
def swapBytes (a : Int) : Int :=
  let u := toU32 a
  ofU32 (((u &&& 0xFF) <<< 24) ||| ((u &&& 0xFF00) <<< 8) ||| ((u >>> 8) &&& 0xFF00) ||| ((u >>> 24) &&& 0xFF))

section
variable {F : Type} (O : FloatOps F)

def Val.isErr : Val F → Bool
  | .err => true
  | _ => false

/-! ### comparisons (`PartialEq`, `PartialOrd`) -/

def valEq : Val F → Val F → Bool
  | .flt x, .flt y => O.eq x y
  | .int x, .int y => x == y
  | .bool x, .bool y => x == y
  | .flt x, .int y => O.eq x (O.ofInt y)
  | .int x, .flt y => O.eq (O.ofInt x) y
  | _, _ => false

/-- `partial_cmp`: `some (lt, eq)`; `none` for incomparable -/
def valCmp : Val F → Val F → Option (Bool × Bool)
  | .flt x, .flt y => if O.lt x y then some (true, false) else if O.eq x y then some (false, true) else if O.lt y x then some (false, false) else Option.none
  | .int x, .int y => some (x < y, x == y)
  | .flt x, .int y =>
    let y' := O.ofInt y
    if O.lt x y' then some (true, false) else if O.eq x y' then some (false, true) else if O.lt y' x then some (false, false) else Option.none
  | .int x, .flt y =>
    let x' := O.ofInt x
    if O.lt x' y then some (true, false) else if O.eq x' y then some (false, true) else if O.lt y x' then some (false, false) else Option.none
  | _, _ => Option.none

def valLt (a b : Val F) : Bool := match valCmp O a b with | some (l, _) => l | Option.none => false
def valLe (a b : Val F) : Bool := match valCmp O a b with | some (l, e) => l || e | Option.none => false
def valGt (a b : Val F) : Bool := match valCmp O a b with | some (l, e) => !l && !e | Option.none => false
def valGe (a b : Val F) : Bool := match valCmp O a b with | some (l, _) => !l | Option.none => false

/-! ### conversions -/

/-- `Val::to_bool` (`none` = `Err`) -/
def toBool : Val F → Option Bool
  | .bool b => some b
  | .int n => some (n != 0)
  | .flt x => some (!O.eq x O.zero)
  | _ => Option.none

/-- `Val::to_float_val` -/
def toFloatVal : Val F → Val F
  | .bool b => .flt (if b then O.one else O.zero)
  | .int n => .flt (O.ofInt n)
  | .flt x => .flt x
  | _ => .err

/-! ### binary operators -/

/-- `base_arith!`: `fop` on floats, `iop` the checked integer operation -/
def baseArith (fop : F → F → F) (iop : Int → Int → Option Int) : Val F → Val F → VR F
  | .flt x, .flt y => .ok (.flt (fop x y))
  | .flt y, .arr x => .ok (.arr (x.map (fun xi => fop xi y)))
  | .arr x, .flt y => .ok (.arr (x.map (fun xi => fop xi y)))
  | .int y, .arr x => .ok (.arr (x.map (fun xi => fop xi (O.ofInt y))))
  | .arr x, .int y => .ok (.arr (x.map (fun xi => fop xi (O.ofInt y))))
  | .arr x, .arr y => .ok (.arr ((x.zip y).map (fun p => fop p.1 p.2)))
  | .int x, .int y => .ok (match iop x y with | some r => .int r | Option.none => .err)
  | .flt x, .int y => .ok (.flt (fop x (O.ofInt y)))
  | .int x, .flt y => .ok (.flt (fop (O.ofInt x) y))
  | .err, _ => .ok .err
  | _, .err => .ok .err
  | _, _ => .ok .err

def vAdd := baseArith O O.add (fun a b => chk (a + b))
def vSub := baseArith O O.sub (fun a b => chk (a - b))
def vMul := baseArith O O.mul (fun a b => chk (a * b))
def vDivBase := baseArith O O.div checkedDiv
def vMin := baseArith O O.min (fun a b => some (min a b))
def vMax := baseArith O O.max (fun a b => some (max a b))

/-- the closure of `/`: an integer zero divisor is an error whatever the dividend -/
def vDiv (a b : Val F) : VR F :=
  match b with
  | .int 0 => .ok .err
  | _ => vDivBase O a b

/-- `num::checked_pow`: `some` iff the exact power fits (squaring only produces intermediate
    values bounded by the result) -/
def checkedPow (x : Int) (n : Nat) : Option Int :=
  if x == 0 then (if n == 0 then some 1 else some 0)
  else if x == 1 then some 1
  else if x == -1 then some (if n % 2 == 0 then 1 else -1)
  else if n ≥ 32 then Option.none
  else chk (x ^ n)

def vPow : Val F → Val F → VR F
  | .flt x, .flt y => .ok (.flt (O.powf x y))
  | .flt x, .int y => .ok (.flt (O.powi x y))
  | .int x, .int y => .ok (if y < 0 then .err else match checkedPow x y.toNat with | some r => .int r | Option.none => .err)
  | .err, _ => .ok .err
  | _, .err => .ok .err
  | _, _ => .ok .err

/-- `single_type_arith!` on integers -/
def intOnly (f : Int → Int → VR F) : Val F → Val F → VR F
  | .int a, .int b => f a b
  | .err, _ => .ok .err
  | _, .err => .ok .err
  | _, _ => .ok .err

/-- `a % b` traps for `b = 0` and for `MIN % -1`; both are guarded -/
def remPrim (a b : Int) : Option Int :=
  if b == 0 then Option.none else if a == I32_MIN && b == -1 then Option.none else some (tmod a b)

def vRem : Val F → Val F → VR F := intOnly (fun a b =>
  if b == 0 then .ok .err
  else if a == I32_MIN && b == -1 then .ok .err
  else match remPrim a b with
    | some r => .ok (.int r)
    | Option.none => .error "value.rs:rem a % b")

def vBitOr : Val F → Val F → VR F := intOnly (fun a b => .ok (.int (bitOr a b)))
def vBitAnd : Val F → Val F → VR F := intOnly (fun a b => .ok (.int (bitAnd a b)))
def vBitXor : Val F → Val F → VR F := intOnly (fun a b => .ok (.int (bitXor a b)))
def vShr : Val F → Val F → VR F := intOnly (fun a b =>
  .ok (if 0 ≤ b && b < 32 then .int (shr32 a b.toNat) else .err))
def vShl : Val F → Val F → VR F := intOnly (fun a b =>
  .ok (if 0 ≤ b && b < 32 then .int (shl32 a b.toNat) else .err))

def vAnd (a b : Val F) : VR F :=
  match a, b with
  | .bool x, .bool y => .ok (.bool (x && y))
  | _, _ => .ok (if valLe O a b then a else b)

def vOr (a b : Val F) : VR F :=
  match a, b with
  | .bool x, .bool y => .ok (.bool (x || y))
  | _, _ => .ok (if valGe O a b then a else b)

def vAtan2 (a b : Val F) : VR F :=
  match toFloatVal O a, toFloatVal O b with
  | .flt x, .flt y => .ok (.flt (O.atan2 x y))
  | _, _ => .ok .err

def vDot : Val F → Val F → VR F
  | .arr a, .arr b =>
    .ok (if a.length != b.length then .err
         else .flt (((a.zip b).map (fun p => O.mul p.1 p.2)).foldl O.add O.zero))
  | .err, _ => .ok .err
  | _, .err => .ok .err
  | _, _ => .ok .err

def vCross : Val F → Val F → VR F
  | .arr a, .arr b =>
    match a, b with
    | [a0, a1, a2], [b0, b1, b2] =>
      .ok (.arr [O.sub (O.mul a1 b2) (O.mul a2 b1), O.sub (O.mul a2 b0) (O.mul a0 b2), O.sub (O.mul a0 b1) (O.mul a1 b0)])
    | _, _ => .ok .err
  | .err, _ => .ok .err
  | _, .err => .ok .err
  | _, _ => .ok .err

def vComponent : Val F → Val F → VR F
  | .arr a, .int i =>
    if (a.length : Int) ≤ i || i < 0 then .ok .err
    else match a[i.toNat]? with
      | some x => .ok (.flt x)
      | Option.none => .error "value.rs:component a[i]"
  | .err, _ => .ok .err
  | _, .err => .ok .err
  | _, _ => .ok .err

def vIf (v cond : Val F) : VR F :=
  match toBool O cond with
  | Option.none => .ok .err
  | some true => .ok v
  | some false => .ok .none

def vElse : Val F → Val F → VR F
  | .none, v => .ok v
  | r, _ => .ok r

/-! ### unary operators -/

/-- `-a` on `i32` traps (debug) / wraps (release) for `MIN`; guarded -/
def negPrim (a : Int) : Option Int := chk (-a)
def absPrim (a : Int) : Option Int := chk (if a < 0 then -a else a)

def vMinus : Val F → VR F
  | .int a =>
    if a == I32_MIN then .ok .err
    else match negPrim a with
      | some r => .ok (.int r)
      | Option.none => .error "value.rs:minus -a"
  | .flt x => .ok (.flt (O.neg x))
  | .arr a => .ok (.arr (a.map O.neg))
  | .err => .ok .err
  | _ => .ok .err

def vAbs : Val F → VR F
  | .int a =>
    if a == I32_MIN then .ok .err
    else match absPrim a with
      | some r => .ok (.int r)
      | Option.none => .error "value.rs:abs a.abs()"
  | .flt x => .ok (.flt (O.named "abs" x))
  | .err => .ok .err
  | _ => .ok .err

def vSignum : Val F → VR F
  | .flt x => .ok (.flt (O.named "signum" x))
  | .int a => .ok (.int (if a > 0 then 1 else if a < 0 then -1 else 0))
  | .err => .ok .err
  | _ => .ok .err

/-- `unary_name!(name, Float)` -/
def vFloatFn (name : String) : Val F → VR F
  | .flt x => .ok (.flt (O.named name x))
  | .err => .ok .err
  | _ => .ok .err

def vIntFn (f : Int → Int) : Val F → VR F
  | .int a => .ok (.int (f a))
  | .err => .ok .err
  | _ => .ok .err

def factNat : Nat → Nat
  | 0 => 1
  | n + 1 => (n + 1) * factNat n

/-- factorial with checked multiplication: 13! no longer fits in `i32` -/
def factChecked (n : Nat) : Option Int := if n ≥ 13 then Option.none else chk (factNat n)

def vFact : Val F → VR F
  | .int a => .ok (if a == 0 then .int 1 else if a < 0 then .err else match factChecked a.toNat with | some r => .int r | Option.none => .err)
  | .err => .ok .err
  | _ => .ok .err

def vToInt : Val F → VR F
  | .int x => .ok (.int x)
  | .flt x => .ok (match O.toI32 x with | some r => .int r | Option.none => .err)
  | .bool b => .ok (.int (if b then 1 else 0))
  | _ => .ok .err

def vToFloat : Val F → VR F
  | .flt x => .ok (.flt x)
  | .int x => .ok (.flt (O.ofInt x))
  | .bool b => .ok (.flt (if b then O.one else O.zero))
  | _ => .ok .err

def vLength (a : Val F) : VR F :=
  match vDot O a a with
  | .ok (.flt x) => .ok (.flt (O.named "sqrt" x))
  | .ok .err => .ok .err
  | .ok _ => .ok .err
  | .error e => .error e

/-! ### the operator table by name -/

def floatUnaryNames : List String :=
  ["sin", "cos", "tan", "asin", "acos", "atan", "sinh", "cosh", "tanh", "asinh", "acosh", "atanh",
   "floor", "ceil", "trunc", "fract", "exp", "sqrt", "cbrt", "round", "ln", "log10", "log2"]

/-- the binary function of the operator named `name` -/
def valBin (name : String) (a b : Val F) : VR F :=
  match name with
  | "^" => vPow O a b
  | "+" => vAdd O a b
  | "-" => vSub O a b
  | "cross" => vCross O a b
  | "dot" => vDot O a b
  | "*" => vMul O a b
  | "/" => vDiv O a b
  | "atan2" => vAtan2 O a b
  | "%" => vRem a b
  | "|" => vBitOr a b
  | "&" => vBitAnd a b
  | "XOR" => vBitXor a b
  | ">>" => vShr a b
  | "<<" => vShl a b
  | "&&" => vAnd O a b
  | "||" => vOr O a b
  | "==" => .ok (.bool (valEq O a b))
  | ">=" => .ok (.bool (valGe O a b))
  | ">" => .ok (.bool (valGt O a b))
  | "<=" => .ok (.bool (valLe O a b))
  | "<" => .ok (.bool (valLt O a b))
  | "!=" => .ok (.bool (!valEq O a b))
  | "if" => vIf O a b
  | "else" => vElse a b
  | "min" => vMin O a b
  | "max" => vMax O a b
  | "." => vComponent a b
  | _ => .error "unknown binary operator"

/-- the unary function of the operator named `name` -/
def valUn (name : String) (a : Val F) : VR F :=
  match name with
  | "+" => .ok a
  | "-" => vMinus O a
  | "signum" => vSignum O a
  | "abs" => vAbs O a
  | "log" => vFloatFn O "ln" a
  | "swap_bytes" => vIntFn swapBytes a
  | "to_le" => vIntFn id a
  | "to_be" => vIntFn swapBytes a
  | "fact" => vFact a
  | "to_int" => vToInt O a
  | "to_float" => vToFloat O a
  | "length" => vLength O a
  | n => if floatUnaryNames.contains n then vFloatFn O n a else .error "unknown unary operator"

def valBinNames : List String :=
  ["^", "+", "-", "cross", "dot", "*", "/", "atan2", "%", "|", "&", "XOR", ">>", "<<", "&&", "||",
   "==", ">=", ">", "<=", "<", "!=", "if", "else", "min", "max", "."]

def valUnNames : List String :=
  ["+", "-", "signum", "abs"] ++ floatUnaryNames ++ ["log", "swap_bytes", "to_le", "to_be", "fact", "to_int", "to_float", "length"]

end
end Exmex
