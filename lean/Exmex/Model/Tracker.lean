/-
  Model of src/expression/number_tracker.rs: the consumed-operand bookkeeping of `eval_binary`,
  for one machine word (`usize`, at most 64 operands) and for a slice of words (`[usize]`).
  Words are `BitVec 64`; `leading_ones`, `trailing_ones` and `rotate_right` are defined bit-wise.
-/
import Exmex.Model.Basic
namespace Exmex

abbrev Word := BitVec 64

/-- bits of a word, least significant first -/
def Word.bitsLsb (w : Word) : List Bool := (List.range 64).map w.getLsbD

/-- `usize::trailing_ones` -/
def Word.trailingOnes (w : Word) : Nat := (w.bitsLsb.takeWhile id).length

/-- `usize::leading_ones` -/
def Word.leadingOnes (w : Word) : Nat := (w.bitsLsb.reverse.takeWhile id).length

/-- `usize::rotate_right(n as u32)` (the amount is taken modulo 64) -/
def Word.rotr (w : Word) (n : Nat) : Word := w.rotateRight n

/-- `<usize as NumberTracker>::get_previous` -/
def Word.getPrevious (w : Word) (idx : Nat) : Nat := (w.rotr (idx + 1)).leadingOnes

/-- `<usize as NumberTracker>::get_next` -/
def Word.getNext (w : Word) (idx : Nat) : Nat := (w.rotr (idx + 1)).trailingOnes + 1

/-- `<usize as NumberTracker>::ignore`: `*self |= 1 << idx`. For `idx ≥ 64` the Rust shift
    overflows (debug: panic); callers only use `idx < 64`, and the model sets no bit there. -/
def Word.ignore (w : Word) (idx : Nat) : Word := w ||| (1#64 <<< idx)

def Word.allOnes : Word := BitVec.allOnes 64

abbrev Words := List Word

/-- the carry loop of `<[usize]>::get_previous`: words below the segment, nearest first -/
def carryLeading : List Word → Nat → Nat
  | [], acc => acc
  | w :: ws, acc => if w == Word.allOnes then carryLeading ws (acc + 64) else acc + w.leadingOnes

/-- the carry loop of `<[usize]>::get_next`: words above the segment, nearest first -/
def carryTrailing : List Word → Nat → Nat
  | [], acc => acc
  | w :: ws, acc => if w == Word.allOnes then carryTrailing ws (acc + 64) else acc + w.trailingOnes

/-- `<[usize] as NumberTracker>::get_previous`; `none` = index panic (`self[segment]`). -/
def Words.getPrevious (ws : Words) (idx : Nat) : Option Nat :=
  let segment := idx / 64
  let bit := idx % 64
  match ws[segment]? with
  | none => none
  | some w =>
    let ones := min (w.getPrevious bit) (bit + 1)
    if ones == bit + 1 then some (carryLeading (ws.take segment).reverse ones) else some ones

/-- `<[usize] as NumberTracker>::get_next` -/
def Words.getNext (ws : Words) (idx : Nat) : Option Nat :=
  let segment := idx / 64
  let bit := idx % 64
  match ws[segment]? with
  | none => none
  | some w =>
    let ones := min (w.getNext bit) (64 - bit)
    if ones == 64 - bit then some (carryTrailing (ws.drop (segment + 1)) ones) else some ones

/-- `<[usize] as NumberTracker>::ignore` -/
def Words.ignore (ws : Words) (idx : Nat) : Option Words :=
  let segment := idx / 64
  let bit := idx % 64
  match ws[segment]? with
  | none => none
  | some w => some (ws.set segment (w.ignore bit))

/-- Abstract view of a tracker, so that `evalBinary` can be stated once. `none` = panic. -/
structure TrackerOps (τ : Type) where
  getPrevious : τ → Nat → Option Nat
  getNext : τ → Nat → Option Nat
  ignore : τ → Nat → Option τ

def wordTracker : TrackerOps Word where
  getPrevious w i := some (w.getPrevious i)
  getNext w i := some (w.getNext i)
  ignore w i := some (w.ignore i)

def wordsTracker : TrackerOps Words where
  getPrevious := Words.getPrevious
  getNext := Words.getNext
  ignore := Words.ignore

/-- The reference tracker the bit-level ones refine: a plain list of "consumed" flags. -/
abbrev Flags := List Bool

/-- distance to the nearest unconsumed slot at or below `idx` -/
def Flags.getPrevious (f : Flags) (idx : Nat) : Nat :=
  ((f.take (idx + 1)).reverse.takeWhile id).length

/-- distance to the nearest unconsumed slot above `idx` -/
def Flags.getNext (f : Flags) (idx : Nat) : Nat :=
  ((f.drop (idx + 1)).takeWhile id).length + 1

def Flags.ignore (f : Flags) (idx : Nat) : Flags := f.set idx true

def flagsTracker : TrackerOps Flags where
  getPrevious f i := some (f.getPrevious i)
  getNext f i := some (f.getNext i)
  ignore f i := some (f.ignore i)

end Exmex
