/-
  Model of src/parser.rs: `is_numeric_text`, `find_op_of_comma`, `tokenize_and_analyze`
  (with the function-call rewrite `op(a,b)` ↦ `((a)op(b))`), `check_parsed_token_preconditions`,
  `find_parsed_vars`, `is_operator_binary`.
-/
import Exmex.Model.Basic
namespace Exmex

/-! ### character classes of `RE_VAR_NAME` = `^[a-zA-Zα-ωΑ-Ω_]+[a-zA-Zα-ωΑ-Ω_0-9]*` -/

def isIdentStart (c : Char) : Bool :=
  let v := c.val
  (97 ≤ v && v ≤ 122) || (65 ≤ v && v ≤ 90) || (0x3B1 ≤ v && v ≤ 0x3C9) ||
  (0x391 ≤ v && v ≤ 0x3A9) || v == 95

def isAsciiDigit (c : Char) : Bool := 48 ≤ c.val && c.val ≤ 57

def isIdentCont (c : Char) : Bool := isIdentStart c || isAsciiDigit c

/-- `RE_VAR_NAME_EXACT.is_match(s)` -/
def isIdentExact : Str → Bool
  | [] => false
  | c :: cs => isIdentStart c && cs.all isIdentCont

/-- `RE_VAR_NAME.find(s)`: number of chars of the identifier at the start of `s`, if any. -/
def identPrefixLen : Str → Option Nat
  | [] => none
  | c :: cs => if isIdentStart c then some (1 + (cs.takeWhile isIdentCont).length) else none

/-- `is_numeric_text`: length of the numeric literal at the start of the text. -/
def isNumericText (s : Str) : Option Nat :=
  let p := s.takeWhile (fun c => isAsciiDigit c || c == '.')
  let n := p.length
  let dots := (p.filter (· == '.')).length
  if (n > 1 && dots < 2) || (n == 1 && dots == 0) then some n else none

/-! ### operator lookup -/

/-- Operators with their table index, sorted in descending name order
    (`ops_tmp.sort_unstable_by(|a, b| b.repr().partial_cmp(a.repr()))`); names are assumed
    distinct, so the unstable sort is deterministic. -/
def sortedOps (t : Table) : List (Nat × OpSpec) :=
  sortBy (fun a b => strLe b.2.repr a.2.repr) (t.zipIdx.map (fun p => (p.2, p.1)))

/-- `find_ops(byte_offset)`: first operator in descending order whose name is a prefix of the
    rest and which is binary, or ends the text, or is not continued by an identifier character. -/
def findOps (t : Table) (rest : Str) : Option (Nat × OpSpec) :=
  (sortedOps t).find? (fun p =>
    let r := p.2.repr
    r.isPrefixOf rest &&
      (p.2.hasBin ||
        (match rest.drop r.length with
         | [] => true
         | c :: _ => !isIdentExact (r ++ [c]))))

/-! ### comma handling -/

def parenDelta {α} : Tok α → Int
  | .pclose => -1
  | .popen => 1
  | _ => 0

/-- Scan of `find_op_of_comma` over the reversed token list. -/
def findOpOfCommaRev {α} : List (Tok α) → Int → Nat → Option Nat
  | [], _, _ => none
  | tk :: ts, cnt, i =>
    let cnt' := cnt + parenDelta tk
    match tk with
    | .op _ => if cnt' = 1 then some i else findOpOfCommaRev ts cnt' (i + 1)
    | _ => findOpOfCommaRev ts cnt' (i + 1)

def findOpOfComma {α} (toks : List (Tok α)) : Option Nat :=
  (findOpOfCommaRev toks.reverse 0 0).map (fun r => toks.length - 1 - r)

/-! ### the tokenizer loop -/

structure LexSt (α : Type) where
  res : List (Tok α) := []
  /-- `depths_of_additional_parens`: paren depths at which one more `)` is owed (top = last). -/
  owed : List Int := []
  depth : Int := 0
  /-- `unmatched_closing_paren`: a `)` without matching `(` has been seen -/
  dipped : Bool := false
deriving Repr

/-- What happens at a token start; `rest` is the text from this position on (non-empty, and its
    head is not a space). Returns the number of characters the token covers and the new state.
    A token of length 0 (possible only for a literal matcher that matches the empty string)
    makes the Rust loop never reach a token start again. -/
def lexStep {α} (I : Interp α) (t : Table) (lm : Str → Option Nat)
    (rest : Str) (st : LexSt α) : Res (Nat × LexSt α) :=
  match rest with
  | [] => .ok (1, st)
  | c :: _ =>
    if c == '(' then
      .ok (1, { st with res := st.res ++ [.popen], depth := st.depth + 1 })
    else if c == ')' then
      let d := st.depth - 1
      let dip := st.dipped || decide (d < 0)
      if st.owed.getLast? == some d then
        .ok (1, { res := st.res ++ [.pclose, .pclose], owed := st.owed.dropLast, depth := d, dipped := dip })
      else
        .ok (1, { st with res := st.res ++ [.pclose], depth := d, dipped := dip })
    else if c == ',' then
      -- the rewrite must not repair a paren mismatch to the left of the comma
      if st.dipped then .error (.err "comma_after_unmatched_paren") else
      match findOpOfComma st.res with
      | none => .error (.err "comma")
      | some i =>
        match st.res[i]? with
        | none => .error (.panic "parser.rs:find_op_of_comma index")
        | some opTok =>
          -- a second comma inside the same pair of parentheses is rejected
          if st.owed.getLast? == some (st.depth - 1) then .error (.err "second_comma") else
          .ok (1, { res := st.res.set i .popen ++ [.pclose, opTok, .popen],
                    owed := st.owed ++ [st.depth - 1], depth := st.depth, dipped := st.dipped })
    else if c == '{' then
      let k := (rest.takeWhile (· != '}')).length
      let name := (rest.take k).drop 1
      .ok (k + 1, { st with res := st.res ++ [.var name] })
    else
      match lm rest with
      | some n =>
        match I.ofLit (rest.take n) with
        | some a => .ok (n, { st with res := st.res ++ [.num a] })
        | none => .error (.err "literal")
      | none =>
        match findOps t rest with
        | some (idx, op) =>
          .ok (op.repr.length,
            { st with res := st.res ++ [if op.const then .num (I.const idx) else .op idx] })
        | none =>
          match identPrefixLen rest with
          | some n => .ok (n, { st with res := st.res ++ [.var (rest.take n)] })
          | none => .error (.err "unknown")

/-- The `for (i, c) in text.char_indices()` loop: `skip` is the number of characters still
    covered by the previous token (`i < cur_byte_offset`). -/
def lexLoop {α} (I : Interp α) (t : Table) (lm : Str → Option Nat) :
    Str → Nat → LexSt α → Res (LexSt α)
  | [], _, st => .ok st
  | _ :: cs, skip + 1, st => lexLoop I t lm cs skip st
  | c :: cs, 0, st =>
    if c == ' ' then lexLoop I t lm cs 0 st
    else
      match lexStep I t lm (c :: cs) st with
      | .error e => .error e
      | .ok (n, st') =>
        if n = 0 then .ok st' else lexLoop I t lm cs (n - 1) st'

/-- `tokenize_and_analyze` -/
def tokenize {α} (I : Interp α) (t : Table) (lm : Str → Option Nat) (text : Str) :
    Res (List (Tok α)) :=
  match lexLoop I t lm text 0 {} with
  | .ok st => .ok st.res
  | .error e => .error e

/-! ### pre-conditions -/

def tblHasBin (t : Table) (i : Nat) : Bool := (t[i]?).any (·.hasBin)
def tblHasUnary (t : Table) (i : Nat) : Bool := (t[i]?).any (·.hasUnary)

def isOperand {α} : Tok α → Bool
  | .num _ => true
  | .var _ => true
  | _ => false

/-- The seven pair pre-conditions of `make_pair_pre_conditions`; `true` = violated. -/
def pairViolated {α} (t : Table) : Tok α → Tok α → Bool
  | .pclose, .num _ => true
  | .pclose, .var _ => true
  | .num _, .popen => true
  | .var _, .popen => true
  | .num _, .op o => !tblHasBin t o
  | .var _, .op o => !tblHasBin t o
  | .op l, .op r => (!tblHasUnary t l && !tblHasUnary t r) || (!tblHasBin t l && !tblHasUnary t r)
  | .op _, .pclose => true
  | .pclose, .op o => !tblHasBin t o
  | .popen, .pclose => true
  | _, _ => false

def anyPairViolated {α} (t : Table) : List (Tok α) → Bool
  | a :: b :: rest => pairViolated t a b || anyPairViolated t (b :: rest)
  | _ => false

/-- running paren balance; `none` when it becomes negative -/
def parenBalance {α} : List (Tok α) → Int → Option Int
  | [], n => some n
  | tk :: ts, n =>
    let n' := n + parenDelta tk
    if n' < 0 then none else parenBalance ts n'

def isOpTok {α} : Tok α → Bool
  | .op _ => true
  | _ => false

/-- `check_parsed_token_preconditions` -/
def checkPre {α} (t : Table) (toks : List (Tok α)) : Res Unit :=
  if toks.isEmpty then .error (.err "empty")
  else if anyPairViolated t toks then .error (.err "pair")
  else match parenBalance toks 0 with
    | none => .error (.err "paren_neg")
    | some n =>
      if n != 0 then .error (.err "paren_mismatch")
      else if (toks.getLast?.map isOpTok).getD false then .error (.err "last_op")
      else .ok ()

/-- `find_parsed_vars`: distinct names in order of first occurrence, then sorted. -/
def findVars {α} (toks : List (Tok α)) : List Str :=
  sortBy strLe (toks.foldl (fun acc tk => match tk with
    | .var n => pushNew acc n
    | _ => acc) [])

/-- `find_var_index` (panics when absent) -/
def findVarIndex (name : Str) (vars : List Str) : Res Nat :=
  match vars.idxOf? name with
  | some i => .ok i
  | none => .error (.panic "parser.rs:find_var_index")

/-- `is_operator_binary` given the token on the left. -/
def isOperatorBinary {α} (t : Table) (o : Nat) (left : Option (Tok α)) : Res Bool :=
  if tblHasBin t o && !tblHasUnary t o then
    match left with
    | some (.op _) => .error (.err "bin_right_of_op")
    | _ => .ok true
  else if tblHasBin t o && tblHasUnary t o then
    .ok (match left with
      | some (.num _) => true
      | some (.var _) => true
      | some .pclose => true
      | _ => false)
  else .ok false

def isBinaryAt {α} (t : Table) (toks : List (Tok α)) (o : Nat) (idx : Nat) : Res Bool :=
  isOperatorBinary t o (if idx > 0 then toks[idx - 1]? else none)

end Exmex
