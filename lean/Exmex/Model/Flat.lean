/-
  Model of src/expression/flat.rs and `eval_binary` of src/expression/mod.rs:
  `make_expression` (token walker), `prioritized_indices_flat`, `eval_binary`, borrowing and
  consuming evaluation, `FlatEx::compile`, operator listings.
-/
import Exmex.Model.Lex
import Exmex.Model.Tracker
namespace Exmex

def DEPTH_PRIO_STEP : Int := 1000

/-- `FlatOp`: binary operator (table index, depth-adjusted priority, commutativity flag) plus the
    unary composition applied to its result. -/
structure FlatOp where
  un : List Nat := []
  idx : Nat
  prio : Int
  comm : Bool
deriving Repr, DecidableEq, Inhabited

inductive NodeKind (α : Type) where
  | num (a : α)
  | var (i : Nat)
deriving Repr, DecidableEq, Inhabited

structure FlatNode (α : Type) where
  kind : NodeKind α
  un : List Nat := []
deriving Repr, DecidableEq, Inhabited

def NodeKind.isNum {α} : NodeKind α → Bool
  | .num _ => true
  | .var _ => false

structure FlatEx (α : Type) where
  nodes : List (FlatNode α)
  ops : List FlatOp
  prioIdx : List Nat
  vars : List Str
  text : Str
deriving Repr

/-! ### priority order -/

/-- `left_is_compatible`: the nearest operator on the left whose priority is not higher has
    lower priority or is the same operator (or there is none). `revLeft` = operators on the left,
    nearest first. -/
def leftCompatible (revLeft : List FlatOp) (op : FlatOp) : Bool :=
  match revLeft.find? (fun l => l.prio ≤ op.prio) with
  | some l => l.prio < op.prio || l.idx == op.idx
  | none => true

def isNumAt {α} (nodes : List (FlatNode α)) (k : Nat) : Bool :=
  (nodes[k]?).any (·.kind.isNum)

/-- does operator `k` get the `+5` ? -/
def bumped {α} (ops : List FlatOp) (nodes : List (FlatNode α)) (k : Nat) : Bool :=
  match ops[k]? with
  | none => false
  | some op =>
    isNumAt nodes k && isNumAt nodes (k + 1) && op.comm && op.un.isEmpty &&
      leftCompatible (ops.take k).reverse op

/-- `prio_increase` -/
def sortKey {α} (ops : List FlatOp) (nodes : List (FlatNode α)) (k : Nat) : Int :=
  match ops[k]? with
  | none => 0
  | some op => op.prio * 10 + (if bumped ops nodes k then 5 else 0)

/-- stable sort of indices by descending key -/
def orderByKey (key : Nat → Int) (n : Nat) : List Nat :=
  sortBy (fun i j => key j ≤ key i) (List.range n)

/-- `prioritized_indices_flat` -/
def prioIdxFlat {α} (ops : List FlatOp) (nodes : List (FlatNode α)) : List Nat :=
  orderByKey (sortKey ops nodes) ops.length

/-! ### `eval_binary` -/

/-- One step of `eval_binary` for operator position `idx`; `apply` is `binary_ops[idx].apply`.
    `mem::take` leaves `dflt` behind. -/
def evalBinaryStep {α τ} (T : TrackerOps τ) (dflt : α) (apply : Nat → α → α → Option α)
    (st : List α × τ) (idx : Nat) : Res (List α × τ) :=
  let (numbers, tr) := st
  match T.getPrevious tr idx, T.getNext tr idx with
  | some l, some r =>
    match T.ignore tr (idx + r) with
    | none => .error (.panic "number_tracker.rs:ignore index")
    | some tr' =>
      if l > idx then .error (.panic "mod.rs:eval_binary idx - shift_left underflow") else
      let i1 := idx - l
      let i2 := idx + r
      match numbers[i1]?, numbers[i2]? with
      | some a, some b =>
        -- the two `mem::take`s happen before `apply`; i1 ≠ i2 because r ≥ 1
        match apply idx a b with
        | some v => .ok (((numbers.set i2 dflt).set i1 v), tr')
        | none => .error (.panic "mod.rs:eval_binary binary_ops[idx]")
      | _, _ => .error (.panic "mod.rs:eval_binary numbers index")
  | _, _ => .error (.panic "number_tracker.rs:segment index")

def evalBinaryLoop {α τ} (T : TrackerOps τ) (dflt : α) (apply : Nat → α → α → Option α) :
    List Nat → List α × τ → Res (List α × τ)
  | [], st => .ok st
  | idx :: rest, st =>
    match evalBinaryStep T dflt apply st idx with
    | .error e => .error e
    | .ok st' => evalBinaryLoop T dflt apply rest st'

/-- `eval_binary` -/
def evalBinary {α τ} (T : TrackerOps τ) (dflt : α) (apply : Nat → α → α → Option α)
    (numbers : List α) (prio : List Nat) (tr : τ) : Res α :=
  match evalBinaryLoop T dflt apply prio (numbers, tr) with
  | .error e => .error e
  | .ok (ns, _) =>
    match ns with
    | [] => .error (.panic "mod.rs:eval_binary numbers empty")
    | a :: _ => .ok a

def flatApply {α} (I : Interp α) (ops : List FlatOp) (k : Nat) (a b : α) : Option α :=
  (ops[k]?).map (fun op => applyUn I op.un (I.bin op.idx a b))

/-- `eval_numbers`: one word for at most 64 operands, `1 + n/64` words otherwise. -/
def evalNumbers {α} (I : Interp α) (numbers : List α) (ops : List FlatOp) (prio : List Nat) :
    Res α :=
  if numbers.length ≤ 64 then
    evalBinary wordTracker I.dflt (flatApply I ops) numbers prio (0#64)
  else
    evalBinary wordsTracker I.dflt (flatApply I ops) numbers prio
      (List.replicate (1 + numbers.length / 64) (0#64))

/-- the operand vector of `eval_flatex_cloning`; `none` = `vars[idx]` out of range (panic) -/
def nodeValues {α} (I : Interp α) (nodes : List (FlatNode α)) (vars : List α) : Option (List α) :=
  nodes.mapM (fun n => match n.kind with
    | .num a => some (applyUn I n.un a)
    | .var i => (vars[i]?).map (applyUn I n.un))

def evalCloning {α} (I : Interp α) (f : FlatEx α) (vars : List α) : Res α :=
  match nodeValues I f.nodes vars with
  | none => .error (.panic "flat.rs:eval_flatex_cloning vars[idx]")
  | some numbers => evalNumbers I numbers f.ops f.prioIdx

/-- `Express::eval` for `FlatEx` -/
def FlatEx.eval {α} (I : Interp α) (f : FlatEx α) (vars : List α) : Res α :=
  if f.vars.length != vars.length then .error (.err "arity") else evalCloning I f vars

/-- `Express::eval_relaxed` for `FlatEx` -/
def FlatEx.evalRelaxed {α} (I : Interp α) (f : FlatEx α) (vars : List α) : Res α :=
  if f.vars.length > vars.length then .error (.err "arity") else evalCloning I f vars

/-! ### consuming evaluation (`eval_vec`, `eval_iter`) -/

/-- State of the node loop of `eval_flatex_consuming_vars`: the remaining `var_indices`
    (entries already handled are overwritten by `usize::MAX`, modelled as `none`), the value
    slots (moved-out ones hold `dflt`), the numbers so far, and the number of clones made. -/
structure ConsumeSt (α : Type) where
  varIdx : List (Option Nat)
  vars : List α
  numbers : List α := []
  clones : Nat := 0

def lastIdxOf (l : List (Option Nat)) (i : Nat) : Option Nat :=
  (l.zipIdx.filter (fun p => p.1 == some i)).getLast?.map (·.2)

def consumeNode {α} (I : Interp α) (st : ConsumeSt α) (n : FlatNode α) : Res (ConsumeSt α) :=
  match n.kind with
  | .num a => .ok { st with numbers := st.numbers ++ [applyUn I n.un a] }
  | .var i =>
    let cnt := (st.varIdx.filter (· == some i)).length
    match st.vars[i]? with
    | none => .error (.panic "flat.rs:eval_flatex_consuming_vars vars[idx]")
    | some v =>
      if cnt > 1 then
        match lastIdxOf st.varIdx i with
        | none => .error (.panic "flat.rs:var_indices[found_idx_idx]")
        | some j =>
          .ok { st with varIdx := st.varIdx.set j none,
                        numbers := st.numbers ++ [applyUn I n.un v], clones := st.clones + 1 }
      else
        .ok { st with vars := st.vars.set i I.dflt, numbers := st.numbers ++ [applyUn I n.un v] }

def consumeNodes {α} (I : Interp α) : List (FlatNode α) → ConsumeSt α → Res (ConsumeSt α)
  | [], st => .ok st
  | n :: ns, st =>
    match consumeNode I st n with
    | .error e => .error e
    | .ok st' => consumeNodes I ns st'

def varOccurrences {α} (nodes : List (FlatNode α)) : List (Option Nat) :=
  nodes.filterMap (fun n => match n.kind with | .var i => some (some i) | .num _ => none)

/-- `eval_vec` / `eval_iter`; also returns the number of clones of variable values made -/
def FlatEx.evalConsuming {α} (I : Interp α) (f : FlatEx α) (vars : List α) : Res (α × Nat) :=
  if f.vars.length != vars.length then .error (.err "arity") else
  match consumeNodes I f.nodes { varIdx := varOccurrences f.nodes, vars := vars } with
  | .error e => .error e
  | .ok st =>
    match evalNumbers I st.numbers f.ops f.prioIdx with
    | .error e => .error e
    | .ok v => .ok (v, st.clones)

/-! ### `make_expression` -/

/-- `unpack_unary`: the operator at `i` if it is there in its unary role -/
def unpackUnary {α} (t : Table) (toks : List (Tok α)) (i : Nat) : Res (Option Nat) :=
  match toks[i]? with
  | none => .error (.panic "flat.rs:unpack_unary parsed_tokens[token_idx]")
  | some (.op o) =>
    match isBinaryAt t toks o i with
    | .error e => .error e
    | .ok true => .ok none
    | .ok false => if tblHasUnary t o then .ok (some o) else .error (.err "unary_missing")
  | some _ => .ok none

/-- `iter_subsequent_unaries(end_idx)`: the run of unary operators ending at `end_idx`,
    in text order. An error met while scanning backwards is propagated. -/
def unariesEndingAt {α} (t : Table) (toks : List (Tok α)) : Nat → Res (List Nat)
  | 0 =>
    match unpackUnary t toks 0 with
    | .error e => .error e
    | .ok none => .ok []
    | .ok (some o) => .ok [o]
  | i + 1 =>
    match unpackUnary t toks (i + 1) with
    | .error e => .error e
    | .ok none => .ok []
    | .ok (some o) =>
      match unariesEndingAt t toks i with
      | .error e => .error e
      | .ok us => .ok (us ++ [o])

/-- `create_node` -/
def createNode {α} (t : Table) (toks : List (Tok α)) (i : Nat) (kind : NodeKind α) :
    Res (FlatNode α) :=
  if i > 0 then
    match toks[i - 1]? with
    | some (.op o) =>
      match isBinaryAt t toks o (i - 1) with
      | .error e => .error e
      | .ok true => .ok { kind := kind }
      | .ok false =>
        match unariesEndingAt t toks (i - 1) with
        | .error e => .error e
        | .ok us => .ok { kind := kind, un := us }
    | _ => .ok { kind := kind }
  else .ok { kind := kind }

structure MakeSt (α : Type) where
  nodes : List (FlatNode α) := []
  ops : List FlatOp := []
  depth : Int := 0
  ustack : List (Nat × Int) := []

/-- position (from the left) of the right-most operator of minimal priority within the trailing
    run of operators with `prio ≥ bound`; `none` if that run is empty -/
def lowestTrailing (ops : List FlatOp) (bound : Int) : Option Nat :=
  let run := ops.reverse.takeWhile (fun o => bound ≤ o.prio)
  match run with
  | [] => none
  | o :: rest =>
    -- `min_by` keeps the first of equal minima; iteration is from the right
    let best := rest.zipIdx.foldl (fun (acc : Nat × Int) p => if p.1.prio < acc.2 then (p.2 + 1, p.1.prio) else acc)
      (0, o.prio)
    some (ops.length - 1 - best.1)

def popUnaryStack (stack : List (Nat × Int)) (depth : Int) : Option Nat × List (Nat × Int) :=
  match stack.getLast? with
  | some (i, d) => if d == depth then (some i, stack.dropLast) else (none, stack)
  | none => (none, stack)

/-- one iteration of the `while idx_tkn < parsed_tokens.len()` loop (every branch advances by one) -/
def makeStep {α} (t : Table) (toks : List (Tok α)) (vars : List Str) (i : Nat) (tk : Tok α)
    (st : MakeSt α) : Res (MakeSt α) :=
  match tk with
  | .op o =>
    match isBinaryAt t toks o i with
    | .error e => .error e
    | .ok true =>
      match (t[o]?).bind (·.bin) with
      | none => .error (.err "bin_missing")
      | some b =>
        .ok { st with ops := st.ops ++ [{ idx := o, prio := b.prio + st.depth * DEPTH_PRIO_STEP, comm := b.comm }] }
    | .ok false =>
      match toks[i + 1]? with
      | none => .error (.panic "flat.rs:make_expression parsed_tokens[idx_tkn + 1]")
      | some .pclose => .error (.err "unary_before_close")
      | some .popen => .ok { st with ustack := st.ustack ++ [(i, st.depth)] }
      | some _ => .ok st
  | .num a =>
    match createNode t toks i (.num a) with
    | .error e => .error e
    | .ok n => .ok { st with nodes := st.nodes ++ [n] }
  | .var name =>
    match findVarIndex name vars with
    | .error e => .error e
    | .ok vi =>
      match createNode t toks i (.var vi) with
      | .error e => .error e
      | .ok n => .ok { st with nodes := st.nodes ++ [n] }
  | .popen => .ok { st with depth := st.depth + 1 }
  | .pclose =>
    match lowestTrailing st.ops (st.depth * DEPTH_PRIO_STEP) with
    | none =>
      match st.nodes.getLast? with
      | none => .error (.err "no_node_between_parens")
      | some last =>
        let (closed, stack') := popUnaryStack st.ustack (st.depth - 1)
        match closed with
        | none => .ok { st with depth := st.depth - 1, ustack := stack' }
        | some ui =>
          match unariesEndingAt t toks ui with
          | .error e => .error e
          | .ok us =>
            .ok { st with nodes := st.nodes.dropLast ++ [{ last with un := us ++ last.un }],
                          depth := st.depth - 1, ustack := stack' }
    | some k =>
      let (closed, stack') := popUnaryStack st.ustack (st.depth - 1)
      match closed with
      | none => .ok { st with depth := st.depth - 1, ustack := stack' }
      | some ui =>
        match unariesEndingAt t toks ui with
        | .error e => .error e
        | .ok us =>
          .ok { st with ops := st.ops.modify k (fun o => { o with un := us ++ o.un }),
                        depth := st.depth - 1, ustack := stack' }

def makeLoop {α} (t : Table) (toks : List (Tok α)) (vars : List Str) :
    List (Tok α) → Nat → MakeSt α → Res (MakeSt α)
  | [], _, st => .ok st
  | tk :: rest, i, st =>
    match makeStep t toks vars i tk st with
    | .error e => .error e
    | .ok st' => makeLoop t toks vars rest (i + 1) st'

/-- `make_expression` -/
def makeExpression {α} (t : Table) (text : Str) (toks : List (Tok α)) (vars : List Str) :
    Res (FlatEx α) :=
  match makeLoop t toks vars toks 0 {} with
  | .error e => .error e
  | .ok st =>
    if st.ops.length + 1 != st.nodes.length then .error (.err "count")
    else .ok { nodes := st.nodes, ops := st.ops, prioIdx := prioIdxFlat st.ops st.nodes,
               vars := vars, text := text }

/-- `parse_wo_compile` -/
def Flat.parseWoCompile {α} (I : Interp α) (t : Table) (lm : Str → Option Nat) (text : Str) :
    Res (FlatEx α) :=
  match tokenize I t lm text with
  | .error e => .error e
  | .ok toks =>
    match checkPre t toks with
    | .error e => .error e
    | .ok () => makeExpression t text toks (findVars toks)

/-! ### `FlatEx::compile` -/

structure CompileSt (α : Type) where
  nodes : List (FlatNode α)
  declined : List Bool
  used : List Nat := []

/-- one iteration of the folding loop; `numInds` are the (adjusted) node indices of the
    operators still to be visited, head first -/
def compileStep {α} (I : Interp α) (ops : List FlatOp) (st : CompileSt α) (binOpIdx numIdx : Nat)
    (restInds : List Nat) : Res (CompileSt α × List Nat) :=
  match st.nodes[numIdx]?, st.nodes[numIdx + 1]? with
  | some n1, some n2 =>
    match n1.kind, n2.kind with
    | .num a, .num b =>
      if !(st.declined.getD numIdx false || st.declined.getD (numIdx + 1) false) then
        match flatApply I ops binOpIdx a b with
        | none => .error (.panic "flat.rs:compile flat_ops[bin_op_idx]")
        | some v =>
          .ok ({ nodes := (st.nodes.set numIdx { kind := .num v }).eraseIdx (numIdx + 1),
                 declined := st.declined.eraseIdx (numIdx + 1),
                 used := st.used ++ [binOpIdx] },
               restInds.map (fun j => if j > numIdx then j - 1 else j))
      else
        .ok ({ st with declined := (st.declined.set numIdx true).set (numIdx + 1) true }, restInds)
    | _, _ =>
      .ok ({ st with declined := (st.declined.set numIdx true).set (numIdx + 1) true }, restInds)
  | _, _ => .error (.panic "flat.rs:compile nodes[num_idx]")

def compileLoop {α} (I : Interp α) (ops : List FlatOp) :
    List Nat → List Nat → CompileSt α → Res (CompileSt α)
  | [], _, st => .ok st
  | _ :: _, [], _ => .error (.panic "flat.rs:compile num_inds[i]")
  | b :: bs, n :: ns, st =>
    match compileStep I ops st b n ns with
    | .error e => .error e
    | .ok (st', ns') => compileLoop I ops bs ns' st'

/-- `FlatEx::compile` -/
def FlatEx.compile {α} (I : Interp α) (f : FlatEx α) : Res (FlatEx α) :=
  let nodes0 := f.nodes.map (fun n => match n.kind with
    | .num a => { kind := .num (applyUn I n.un a), un := [] }
    | .var _ => n)
  match compileLoop I f.ops f.prioIdx f.prioIdx
      { nodes := nodes0, declined := List.replicate nodes0.length false } with
  | .error e => .error e
  | .ok st =>
    let ops' := (f.ops.zipIdx.filter (fun p => !st.used.contains p.2)).map (·.1)
    .ok { f with nodes := st.nodes, ops := ops', prioIdx := prioIdxFlat ops' st.nodes }

/-- `FlatEx::parse` -/
def Flat.parse {α} (I : Interp α) (t : Table) (lm : Str → Option Nat) (text : Str) :
    Res (FlatEx α) :=
  match Flat.parseWoCompile I t lm text with
  | .error e => .error e
  | .ok f => f.compile I

/-! ### listings -/

def reprOf (t : Table) (i : Nat) : Str := ((t[i]?).map (·.repr)).getD []

def FlatEx.binaryReprs {α} (t : Table) (f : FlatEx α) : List Str :=
  sortDedup (f.ops.map (fun o => reprOf t o.idx))

def FlatEx.unaryReprs {α} (t : Table) (f : FlatEx α) : List Str :=
  sortDedup ((f.ops.flatMap (·.un) ++ f.nodes.flatMap (·.un)).map (reprOf t))

def FlatEx.operatorReprs {α} (t : Table) (f : FlatEx α) : List Str :=
  sortDedup (f.ops.map (fun o => reprOf t o.idx) ++
    (f.ops.flatMap (·.un) ++ f.nodes.flatMap (·.un)).map (reprOf t))

end Exmex
