/-
  Model of src/expression/partial.rs: `partial_deepex` = inner derivative (value/derivative pairs
  reduced in priority order with the binary rules) times outer derivative (chain rule over the
  group's unary composition), the rule table keyed by operator name, index checks, iteration.
  `MissingOpMode::Error` (the strict API) is modelled.
-/
import Exmex.Model.Calc
namespace Exmex

section
variable {α : Type} (I : Interp α) (C : CalcOps α) (t : Table)

local notation "S" s => String.toList s

/-- value and derivative of a sub-expression (`ValueDerivative`) -/
structure ValDer (α : Type) where
  val : DeepEx α
  der : DeepEx α

/-- names with a binary rule -/
def binRuleNames : List String := ["^", "+", "-", "*", ">", "<", "!=", "==", "<=", ">=", "if", "else", "/"]
/-- names with an outer (unary) rule -/
def unRuleNames : List String :=
  ["+", "-", "sqrt", "ln", "log", "log10", "log2", "exp", "sin", "cos", "tan", "asin", "acos", "atan",
   "sinh", "cosh", "tanh", "asinh", "acosh", "atanh"]

/-- the binary derivative rules (`bin_op` of `PartialDerivative`) -/
def binRule (name : String) (f g : ValDer α) : Res (ValDer α) :=
  let add := DeepEx.add I C t
  let sub := DeepEx.sub I t
  let mul := DeepEx.mul I C t
  let div := DeepEx.div I C t
  let pow := DeepEx.pow I C t
  match name with
  | "^" =>
    match DeepEx.fromNum I C.one with
    | .error e => .error e
    | .ok one =>
    match pow f.val g.val with
    | .error e => .error e
    | .ok val =>
    match sub g.val one with
    | .error e => .error e
    | .ok gm1 =>
    match pow f.val gm1 with
    | .error e => .error e
    | .ok p1 =>
    match mul p1 g.val with
    | .error e => .error e
    | .ok p2 =>
    match mul p2 f.der with
    | .error e => .error e
    | .ok der1 =>
    match DeepEx.operateUnary I t f.val (S "ln") with
    | .error e => .error e
    | .ok lnf =>
    match mul val lnf with
    | .error e => .error e
    | .ok q1 =>
    match mul q1 g.der with
    | .error e => .error e
    | .ok der2 =>
    match add der1 der2 with
    | .error e => .error e
    | .ok der => .ok { val := val, der := der }
  | "+" =>
    match add f.val g.val, add f.der g.der with
    | .ok v, .ok d => .ok { val := v, der := d }
    | .error e, _ => .error e
    | _, .error e => .error e
  | "-" =>
    match sub f.val g.val, sub f.der g.der with
    | .ok v, .ok d => .ok { val := v, der := d }
    | .error e, _ => .error e
    | _, .error e => .error e
  | "*" =>
    match mul f.val g.val with
    | .error e => .error e
    | .ok val =>
    match mul g.val f.der with
    | .error e => .error e
    | .ok d1 =>
    match mul g.der f.val with
    | .error e => .error e
    | .ok d2 =>
    match add d1 d2 with
    | .error e => .error e
    | .ok der => .ok { val := val, der := der }
  | "/" =>
    match div f.val g.val with
    | .error e => .error e
    | .ok val =>
    match mul f.der g.val with
    | .error e => .error e
    | .ok n1 =>
    match mul g.der f.val with
    | .error e => .error e
    | .ok n2 =>
    match sub n1 n2 with
    | .error e => .error e
    | .ok num =>
    match mul g.val g.val with
    | .error e => .error e
    | .ok den =>
    match div num den with
    | .error e => .error e
    | .ok der => .ok { val := val, der := der }
  | n =>
    if [">", "<", "!=", "==", "<=", ">="].contains n then
      -- `partial_derisval`: comparisons are carried, not differentiated
      match DeepEx.operateBin I t f.val g.val (S n), DeepEx.operateBin I t f.val g.val (S n) with
      | .ok v, .ok d => .ok { val := v, der := d }
      | .error e, _ => .error e
      | _, .error e => .error e
    else if ["if", "else"].contains n then
      -- per operand
      match DeepEx.operateBin I t f.val g.val (S n), DeepEx.operateBin I t f.der g.der (S n) with
      | .ok v, .ok d => .ok { val := v, der := d }
      | .error e, _ => .error e
      | _, .error e => .error e
    else .error (.err "norule")

/-- `log_deri` -/
def logDeri (f : DeepEx α) (base : Option α) : Res (DeepEx α) :=
  match DeepEx.withoutLatestUnary f, DeepEx.fromNum I C.one with
  | .ok x, .ok one =>
    match base with
    | none => DeepEx.div I C t one x
    | some b =>
      match DeepEx.fromNum I b with
      | .error e => .error e
      | .ok bn =>
      match DeepEx.operateUnary I t bn (S "ln") with
      | .error e => .error e
      | .ok lnb =>
      match DeepEx.mul I C t x lnb with
      | .error e => .error e
      | .ok den => DeepEx.div I C t one den
  | .error e, _ => .error e
  | _, .error e => .error e

/-- the outer derivative rules (`unary_outer_op`); `f` still carries the unary operator in front -/
def unRule (name : String) (f : DeepEx α) : Res (DeepEx α) :=
  let add := DeepEx.add I C t
  let sub := DeepEx.sub I t
  let mul := DeepEx.mul I C t
  let div := DeepEx.div I C t
  let pow := DeepEx.pow I C t
  let un := fun (e : DeepEx α) (n : String) => DeepEx.operateUnary I t e (S n)
  match DeepEx.fromNum I C.one, DeepEx.fromNum I C.two with
  | .error e, _ => .error e
  | _, .error e => .error e
  | .ok one, .ok two =>
  match name with
  | "+" => .ok one
  | "-" => DeepEx.neg I t one
  | "sqrt" =>
    match mul two f with
    | .error e => .error e
    | .ok d => div one d
  | "ln" => logDeri I C t f none
  | "log" => logDeri I C t f none
  | "log10" => logDeri I C t f (some C.ten)
  | "log2" => logDeri I C t f (some C.two)
  | "exp" => .ok f
  | "sin" =>
    match DeepEx.withoutLatestUnary f with
    | .error e => .error e
    | .ok x => un x "cos"
  | "cos" =>
    match DeepEx.withoutLatestUnary f with
    | .error e => .error e
    | .ok x =>
      match un x "sin" with
      | .error e => .error e
      | .ok s => DeepEx.neg I t s
  | "tan" =>
    match DeepEx.withoutLatestUnary f with
    | .error e => .error e
    | .ok x =>
      match un x "cos" with
      | .error e => .error e
      | .ok c =>
        match pow c two with
        | .error e => .error e
        | .ok c2 => div one c2
  | "asin" =>
    match DeepEx.withoutLatestUnary f with
    | .error e => .error e
    | .ok x =>
      match pow x two with
      | .error e => .error e
      | .ok x2 =>
        match sub one x2 with
        | .error e => .error e
        | .ok d =>
          match un d "sqrt" with
          | .error e => .error e
          | .ok sd => div one sd
  | "acos" =>
    match DeepEx.withoutLatestUnary f with
    | .error e => .error e
    | .ok x =>
      match pow x two with
      | .error e => .error e
      | .ok x2 =>
        match sub one x2 with
        | .error e => .error e
        | .ok d =>
          match un d "sqrt" with
          | .error e => .error e
          | .ok sd =>
            match div one sd with
            | .error e => .error e
            | .ok q => DeepEx.neg I t q
  | "atan" =>
    match DeepEx.withoutLatestUnary f with
    | .error e => .error e
    | .ok x =>
      match pow x two with
      | .error e => .error e
      | .ok x2 =>
        match add one x2 with
        | .error e => .error e
        | .ok d => div one d
  | "sinh" =>
    match DeepEx.withoutLatestUnary f with
    | .error e => .error e
    | .ok x => un x "cosh"
  | "cosh" =>
    match DeepEx.withoutLatestUnary f with
    | .error e => .error e
    | .ok x => un x "sinh"
  | "tanh" =>
    match DeepEx.withoutLatestUnary f with
    | .error e => .error e
    | .ok x =>
      match un x "tanh" with
      | .error e => .error e
      | .ok th =>
        match pow th two with
        | .error e => .error e
        | .ok th2 => sub one th2
  | "asinh" =>
    match DeepEx.withoutLatestUnary f with
    | .error e => .error e
    | .ok x =>
      match pow x two with
      | .error e => .error e
      | .ok x2 =>
        match add one x2 with
        | .error e => .error e
        | .ok d =>
          match un d "sqrt" with
          | .error e => .error e
          | .ok sd => div one sd
  | "acosh" =>
    match DeepEx.withoutLatestUnary f with
    | .error e => .error e
    | .ok x =>
      match sub x one, add x one with
      | .ok a, .ok b =>
        match un a "sqrt", un b "sqrt" with
        | .ok sa, .ok sb =>
          match mul sa sb with
          | .error e => .error e
          | .ok d => div one d
        | .error e, _ => .error e
        | _, .error e => .error e
      | .error e, _ => .error e
      | _, .error e => .error e
  | "atanh" =>
    match DeepEx.withoutLatestUnary f with
    | .error e => .error e
    | .ok x =>
      match pow x two with
      | .error e => .error e
      | .ok x2 =>
        match sub one x2 with
        | .error e => .error e
        | .ok d => div one d
  | _ => .error (.err "norule")

/-- drop the `k` latest unary operators -/
def dropUnaries (e : DeepEx α) (k : Nat) : DeepEx α := .mk e.nodes e.ops (e.un.drop k) e.vars

/-- `partial_derivative_outer`: product of the outer derivatives along the unary chain -/
def partialOuter (e : DeepEx α) : Res (DeepEx α) :=
  match DeepEx.fromNum I C.one with
  | .error err => .error err
  | .ok one =>
    let rec go : List Nat → Nat → DeepEx α → Res (DeepEx α)
      | [], _, acc => .ok acc
      | u :: us, idx, acc =>
        let name := String.ofList (reprOf t u)
        if !unRuleNames.contains name then .error (.err "norule") else
        match unRule I C t name (dropUnaries e idx) with
        | .error err => .error err
        | .ok factor =>
          match DeepEx.mul I C t factor acc with
          | .error err => .error err
          | .ok acc' => go us (idx + 1) acc'
    go e.un 0 one

/-- the value/derivative reduction of `partial_derivative_inner` -/
def reducePairs : List Nat → List Nat → List (ValDer α) → List DBin → Res (List (ValDer α))
  | [], _, nodes, _ => .ok nodes
  | _ :: _, [], _, _ => .error (.panic "partial.rs:num_inds[i]")
  | b :: bs, n :: ns, nodes, ops =>
    match nodes[n]?, nodes[n + 1]?, ops[b]? with
    | some f, some g, some op =>
      let name := String.ofList (reprOf t op.idx)
      if !binRuleNames.contains name then .error (.err "norule") else
      match binRule I C t name f g with
      | .error e => .error e
      | .ok pd =>
        reducePairs bs (ns.map (fun j => if j > n then j - 1 else j))
          ((nodes.set n pd).eraseIdx (n + 1)) ops
    | _, _, _ => .error (.panic "partial.rs:nodes[num_idx]")

mutual
/-- `partial_deepex` -/
def partialDeepex (varIdx : Nat) : Nat → DeepEx α → Res (DeepEx α)
  | 0, _ => .error (.panic "model: out of fuel")
  | fuel + 1, e =>
    match partialInner varIdx fuel e with
    | .error err => .error err
    | .ok inner =>
      match partialOuter I C t e with
      | .error err => .error err
      | .ok outer => DeepEx.mul I C t inner outer
/-- `partial_derivative_inner` -/
def partialInner (varIdx : Nat) : Nat → DeepEx α → Res (DeepEx α)
  | 0, _ => .error (.panic "model: out of fuel")
  | fuel + 1, e =>
    match e.nodes with
    | [single] =>
      let r : Res (DeepEx α) := match single with
        | .num _ => DeepEx.fromNum I C.zero
        | .var i _ => if i == varIdx then DeepEx.fromNum I C.one else DeepEx.fromNum I C.zero
        | .expr sub => partialDeepex varIdx fuel sub
      match r with
      | .error err => .error err
      | .ok res =>
        match varNamesUnion res e with
        | .error err => .error err
        | .ok (res', _) => .ok res'
    | nodes =>
      match valDers varIdx fuel nodes with
      | .error err => .error err
      | .ok vds =>
        let prio := prioIdxDeep e.ops e.nodes
        match reducePairs I C t prio prio vds e.ops with
        | .error err => .error err
        | .ok final =>
          match final with
          | [] => .error (.err "no_valder")
          | vd :: _ =>
            match varNamesUnion vd.der e with
            | .error err => .error err
            | .ok (res', _) => .ok res'
/-- value/derivative pair of every node -/
def valDers (varIdx : Nat) : Nat → List (DeepNode α) → Res (List (ValDer α))
  | 0, _ => .error (.panic "model: out of fuel")
  | _, [] => .ok []
  | fuel + 1, n :: ns =>
    let v : Res (DeepEx α) := match n with
      | .expr sub => .ok sub
      | other =>
        match DeepEx.new I [other] [] [] with
        | .ok d => .ok d
        | .error _ => .error (.panic "deep.rs:from_node unwrap")
    match v with
    | .error err => .error err
    | .ok val =>
      match partialDeepex varIdx fuel val, valDers varIdx fuel ns with
      | .ok der, .ok rest => .ok ({ val := val, der := der } :: rest)
      | .error err, _ => .error err
      | _, .error err => .error err
end

mutual
def DeepEx.depth : DeepEx α → Nat
  | .mk nodes _ _ _ => depthList nodes + 1
def depthList : List (DeepNode α) → Nat
  | [] => 0
  | .expr e :: ns => max e.depth (depthList ns)
  | _ :: ns => depthList ns
end

mutual
def DeepEx.sizeAll : DeepEx α → Nat
  | .mk nodes _ _ _ => sizeAllList nodes + 1
def sizeAllList : List (DeepNode α) → Nat
  | [] => 0
  | .expr e :: ns => e.sizeAll + sizeAllList ns
  | _ :: ns => 1 + sizeAllList ns
end

/-- `partial_iter` on a deep expression: all indices are checked first, then differentiation one
    index after the other, then `compile` -/
def DeepEx.partialIter (e : DeepEx α) (idxs : List Nat) : Res (DeepEx α) :=
  if idxs.any (fun i => i ≥ e.vars.length) then .error (.err "index") else
  let rec go : List Nat → DeepEx α → Res (DeepEx α)
    | [], d => .ok d
    | i :: is, d =>
      match partialDeepex I C t i (4 * d.sizeAll + 8) d with
      | .error err => .error err
      | .ok d' => go is d'
  match go idxs e with
  | .error err => .error err
  | .ok d => d.compile I

/-- `Differentiate::partial_iter` for flat expressions: through the deep form and back -/
def FlatEx.partialIter (f : FlatEx α) (idxs : List Nat) : Res (FlatEx α) :=
  match f.toDeep I t with
  | .error e => .error e
  | .ok d =>
    match d.partialIter I C t idxs with
    | .error e => .error e
    | .ok d' => .ok (FlatEx.fromDeep I t d')

end
end Exmex
