/-
  Line-protocol driver: one request per line on stdin, one answer per line on stdout.
  Runs the executable *model* and the *spec* on exactly the inputs the Rust harness gave to the
  real library. Imports only the import-free Model/Spec modules, so it links as a native exe.
-/
import Exmex.Model.Basic
import Exmex.Model.Lex
import Exmex.Model.Tracker
import Exmex.Model.Flat
import Exmex.Model.Sym
import Exmex.Spec.Surface
open Exmex

namespace Drv

def hexVal (c : Char) : Nat :=
  if '0' ≤ c && c ≤ '9' then c.toNat - '0'.toNat
  else if 'a' ≤ c && c ≤ 'f' then c.toNat - 'a'.toNat + 10
  else 0

partial def hexBytes : List Char → ByteArray → ByteArray
  | a :: b :: rest, acc => hexBytes rest (acc.push (UInt8.ofNat (hexVal a * 16 + hexVal b)))
  | _, acc => acc

/-- hex of UTF-8 bytes → text; "-" is the empty string -/
def unhex (s : String) : Str :=
  if s == "-" then [] else
  match String.fromUTF8? (hexBytes s.toList ByteArray.empty) with
  | some str => str.toList
  | none => ['�']

def hexDigit (n : Nat) : Char := if n < 10 then Char.ofNat (48 + n) else Char.ofNat (87 + n)

def hex (s : Str) : String :=
  if s.isEmpty then "-" else
  String.ofList ((String.ofList s).toUTF8.toList.flatMap (fun b => [hexDigit (b.toNat / 16), hexDigit (b.toNat % 16)]))

def splitOn (s : String) (sep : String) : List String := s.splitOn sep

def parseInt (s : String) : Int := s.toInt?.getD 0
def parseNat (s : String) : Nat := s.toNat?.getD 0

/-- table: ops separated by `;`, each `hexname:binfield:u|-:k|-`, binfield = `-` or `prio,c|n` -/
def parseTable (s : String) : Table :=
  if s == "-" then [] else
  (splitOn s ";").map (fun e =>
    match splitOn e ":" with
    | [nm, b, u, k] =>
      { repr := unhex nm,
        bin := if b == "-" then none else
          match splitOn b "," with
          | [p, c] => some { prio := parseInt p, comm := c == "c" }
          | _ => none,
        unary := u == "u", const := k == "k" }
    | _ => { repr := [] })

def parseNats (s : String) : List Nat :=
  if s == "-" || s == "" then [] else (splitOn s ",").map parseNat

/-! chains: `L hex` | `V hex b|n` | `K idx` | `P chain` | `C o chain chain` | `U u atom`;
    chain: `S atom` | `N atom o chain` -/
mutual
partial def parseAtom : List String → Option (Atom Sym × List String)
  | "L" :: h :: rest => some (.lit (unhex h) (.lit (unhex h)), rest)
  | "V" :: h :: b :: rest => some (.var (unhex h) (b == "b"), rest)
  | "K" :: k :: rest => some (.const (parseNat k), rest)
  | "P" :: rest => (parseChain rest).map (fun (c, r) => (.par c, r))
  | "C" :: o :: rest =>
    match parseChain rest with
    | some (a, r1) => (parseChain r1).map (fun (b, r2) => (.call (parseNat o) a b, r2))
    | none => none
  | "U" :: u :: rest => (parseAtom rest).map (fun (a, r) => (.un (parseNat u) a, r))
  | _ => none
partial def parseChain : List String → Option (Chain Sym × List String)
  | "S" :: rest => (parseAtom rest).map (fun (a, r) => (.single a, r))
  | "N" :: rest =>
    match parseAtom rest with
    | some (a, o :: r1) => (parseChain r1).map (fun (c, r2) => (.cons a (parseNat o) c, r2))
    | _ => none
  | _ => none
end

def showFail : Fail → String
  | .err k => "E:" ++ k
  | .panic s => "PANIC:" ++ s

def showRes {α} (f : α → String) : Res α → String
  | .ok a => f a
  | .error e => showFail e

def showStrs (l : List Str) : String := "[" ++ ",".intercalate (l.map hex) ++ "]"

def showTok : Tok Sym → String
  | .num a => "n" ++ a.show
  | .popen => "("
  | .pclose => ")"
  | .op i => "o" ++ toString i
  | .var n => "v" ++ hex n

def showToks (l : List (Tok Sym)) : String := " ".intercalate (l.map showTok)

def lmOf (name : String) : Str → Option Nat :=
  match name with
  | _ => isNumericText

def symVars (n : Nat) : List Sym := (List.range n).map Sym.var

/-- `lex <table> <lm> <text>` → token stream of the model -/
def doLex (f : List String) : String :=
  match f with
  | [tb, lm, tx] =>
    let t := parseTable tb
    showRes showToks (tokenize symInterp t (lmOf lm) (unhex tx))
  | _ => "BADREQ"

/-- evaluate a flat expression on the symbolic variable vector -/
def evalSym (f : FlatEx Sym) : String := showRes Sym.show (f.eval symInterp (symVars f.vars.length))

/-- `flat <table> <lm> <text> <chain|-> <spaces> <callform>`:
    model: parse_wo_compile / parse / recompile / consuming evaluation on symbolic values;
    spec: rendering, canonical tokens, documented value. -/
def doFlat (f : List String) : String :=
  match f with
  | [tb, lm, tx, ch, sp, cf] =>
    let t := parseTable tb
    let text := unhex tx
    let I := symInterp
    let wo := Flat.parseWoCompile I t (lmOf lm) text
    let modelPart :=
      match wo with
      | .error e => "wo=" ++ showFail e
      | .ok fw =>
        let comp := fw.compile I
        let s1 := "wo=" ++ evalSym fw ++ "\tvars=" ++ showStrs fw.vars ++ "\tnwo=" ++ toString fw.nodes.length
        let s2 := match comp with
          | .error e => "\tc=" ++ showFail e
          | .ok fc =>
            let rc := fc.compile I
            "\tc=" ++ evalSym fc ++ "\tnc=" ++ toString fc.nodes.length ++
            "\trc=" ++ (match rc with | .error e => showFail e | .ok fr => evalSym fr ++ "/" ++ toString fr.nodes.length) ++
            "\tcons=" ++ showRes (fun (p : Sym × Nat) => p.1.show ++ "/" ++ toString p.2)
                (fc.evalConsuming I (symVars fc.vars.length)) ++
            "\tbr=" ++ showStrs (fc.binaryReprs t) ++ "\tur=" ++ showStrs (fc.unaryReprs t)
        s1 ++ s2
    let specPart :=
      if ch == "-" then "spec=-" else
      match parseChain ((splitOn ch " ").filter (· != "")) with
      | none => "spec=BADCHAIN"
      | some (c, _) =>
        let (rendered, _) := c.render t { callForm := cf == "1" } (parseNats sp)
        let vars := c.vars
        let ρ : Env Sym := fun x => match vars.idxOf? x with | some i => .var i | none => .hole
        let toksOk := match tokenize I t (lmOf lm) text with
          | .ok tk => decide (tk = c.toks I)
          | .error _ => false
        let flagged : Nat → Bool := fun k => (((t[k]?).bind (·.bin)).map (·.comm)).getD false
        "spec=" ++ (match c.denote I t ρ with | some v => v.show | none => "NONE") ++
        "\tspec_nf=" ++ (match c.denote I t ρ with | some v => (v.assocNF flagged).show | none => "NONE") ++
        "\tsclones=" ++ toString ((vars.map (fun x => c.varOcc.count x - 1)).sum) ++
        "\tsvars=" ++ showStrs vars ++
        "\trender=" ++ (if rendered == text then "ok" else "DIFF:" ++ hex rendered) ++
        "\ttoks=" ++ (if toksOk then "ok" else "DIFF")
    modelPart ++ "\t" ++ specPart
  | _ => "BADREQ"

def handle (line : String) : String :=
  match splitOn line "\t" with
  | "lex" :: rest => doLex rest
  | "flat" :: rest => doFlat rest
  | _ => "BADKIND"

partial def loop (h : IO.FS.Stream) (out : IO.FS.Stream) : IO Unit := do
  let line ← h.getLine
  if line.isEmpty then return ()
  let l := (line.dropEndWhile (fun c => c == '\n' || c == '\r')).toString
  out.putStrLn (handle l)
  loop h out

end Drv

def main : IO Unit := do
  let stdin ← IO.getStdin
  let stdout ← IO.getStdout
  Drv.loop stdin stdout
