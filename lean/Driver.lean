/-
  Line-protocol driver: one request per line on stdin, one answer per line on stdout.
  Runs the executable *model* and the *spec* on exactly the inputs the Rust harness gave to the
  real library. Imports only the import-free Model/Spec modules, so it links as a native exe.
-/
import Exmex.Model.Basic
import Exmex.Model.Lex
import Exmex.Model.Tracker
import Exmex.Model.Flat
import Exmex.Model.Sym
import Exmex.Model.Deep
import Exmex.Model.Conv
import Exmex.Spec.Order
import Exmex.Proofs.FlattenDefs
import Exmex.Model.ValModel
import Exmex.Model.Calc
import Exmex.Model.Diff
import Exmex.Model.FlatCalc
import Exmex.Generated.RuntimeTables
import Exmex.Spec.Surface
open Exmex

namespace Drv

def hexVal (c : Char) : Nat :=
  if '0' ≤ c && c ≤ '9' then c.toNat - '0'.toNat
  else if 'a' ≤ c && c ≤ 'f' then c.toNat - 'a'.toNat + 10
  else 0

partial def hexBytes : List Char → ByteArray → ByteArray
  | a :: b :: rest, acc => hexBytes rest (acc.push (UInt8.ofNat (hexVal a * 16 + hexVal b)))
  | _, acc => acc

/-- hex of UTF-8 bytes → text; "-" is the empty string -/
def unhex (s : String) : Str :=
  if s == "-" then [] else
  match String.fromUTF8? (hexBytes s.toList ByteArray.empty) with
  | some str => str.toList
  | none => ['�']

def hexDigit (n : Nat) : Char := if n < 10 then Char.ofNat (48 + n) else Char.ofNat (87 + n)

def hex (s : Str) : String :=
  if s.isEmpty then "-" else
  String.ofList ((String.ofList s).toUTF8.toList.flatMap (fun b => [hexDigit (b.toNat / 16), hexDigit (b.toNat % 16)]))

def splitOn (s : String) (sep : String) : List String := s.splitOn sep

def parseInt (s : String) : Int := s.toInt?.getD 0
def parseNat (s : String) : Nat := s.toNat?.getD 0

/-- table: ops separated by `;`, each `hexname:binfield:u|-:k|-`, binfield = `-` or `prio,c|n` -/
def parseTable (s : String) : Table :=
  if s == "-" then [] else
  (splitOn s ";").map (fun e =>
    match splitOn e ":" with
    | [nm, b, u, k] =>
      { repr := unhex nm,
        bin := if b == "-" then none else
          match splitOn b "," with
          | [p, c] => some { prio := parseInt p, comm := c == "c" }
          | _ => none,
        unary := u == "u", const := k == "k" }
    | _ => { repr := [] })

def parseNats (s : String) : List Nat :=
  if s == "-" || s == "" then [] else (splitOn s ",").map parseNat

/-! chains: `L hex` | `V hex b|n` | `K idx` | `P chain` | `C o chain chain` | `U u atom`;
    chain: `S atom` | `N atom o chain` -/
mutual
partial def parseAtom : List String → Option (Atom Sym × List String)
  | "L" :: h :: rest => some (.lit (unhex h) (.lit (unhex h)), rest)
  | "V" :: h :: b :: rest => some (.var (unhex h) (b == "b"), rest)
  | "K" :: k :: rest => some (.const (parseNat k), rest)
  | "P" :: rest => (parseChain rest).map (fun (c, r) => (.par c, r))
  | "C" :: o :: rest =>
    match parseChain rest with
    | some (a, r1) => (parseChain r1).map (fun (b, r2) => (.call (parseNat o) a b, r2))
    | none => none
  | "U" :: u :: rest => (parseAtom rest).map (fun (a, r) => (.un (parseNat u) a, r))
  | _ => none
partial def parseChain : List String → Option (Chain Sym × List String)
  | "S" :: rest => (parseAtom rest).map (fun (a, r) => (.single a, r))
  | "N" :: rest =>
    match parseAtom rest with
    | some (a, o :: r1) => (parseChain r1).map (fun (c, r2) => (.cons a (parseNat o) c, r2))
    | _ => none
  | _ => none
end

def showFail : Fail → String
  | .err k => "E:" ++ k
  | .panic s => "PANIC:" ++ s

def showRes {α} (f : α → String) : Res α → String
  | .ok a => f a
  | .error e => showFail e

def showStrs (l : List Str) : String := "[" ++ ",".intercalate (l.map hex) ++ "]"

def showTok : Tok Sym → String
  | .num a => "n" ++ a.show
  | .popen => "("
  | .pclose => ")"
  | .op i => "o" ++ toString i
  | .var n => "v" ++ hex n

def showToks (l : List (Tok Sym)) : String := " ".intercalate (l.map showTok)

def lmOf (name : String) : Str → Option Nat :=
  match name with
  | _ => isNumericText

def symVars (n : Nat) : List Sym := (List.range n).map Sym.var

/-- `lex <table> <lm> <text>` → token stream of the model -/
def doLex (f : List String) : String :=
  match f with
  | [tb, lm, tx] =>
    let t := parseTable tb
    "toks=" ++ showRes showToks (tokenize symInterp t (lmOf lm) (unhex tx))
  | _ => "BADREQ"

/-- evaluate a flat expression on the symbolic variable vector -/
def evalSym (f : FlatEx Sym) : String := showRes Sym.show (f.eval symInterp (symVars f.vars.length))

/-- `flat <table> <lm> <text> <chain|-> <spaces> <callform>`:
    model: parse_wo_compile / parse / recompile / consuming evaluation on symbolic values;
    spec: rendering, canonical tokens, documented value. -/
def doFlat (f : List String) : String :=
  match f with
  | [tb, lm, tx, ch, sp, cf] =>
    let t := parseTable tb
    let text := unhex tx
    let I := symInterp
    let wo := Flat.parseWoCompile I t (lmOf lm) text
    let modelPart := "toksimpl=" ++ showRes showToks (tokenize I t (lmOf lm) text) ++ "\t" ++
      match wo with
      | .error e => "wo=" ++ showFail e
      | .ok fw =>
        let comp := fw.compile I
        let s1 := "wo=" ++ evalSym fw ++ "\tvars=" ++ showStrs fw.vars ++ "\tnwo=" ++ toString fw.nodes.length
        let s2 := match comp with
          | .error e => "\tc=" ++ showFail e
          | .ok fc =>
            let rc := fc.compile I
            "\tc=" ++ evalSym fc ++ "\tnc=" ++ toString fc.nodes.length ++
            "\trc=" ++ (match rc with | .error e => showFail e | .ok fr => evalSym fr ++ "/" ++ toString fr.nodes.length) ++
            "\tcons=" ++ showRes (fun (p : Sym × Nat) => p.1.show ++ "/" ++ toString p.2)
                (fc.evalConsuming I (symVars fc.vars.length)) ++
            "\tbr=" ++ showStrs (fc.binaryReprs t) ++ "\tur=" ++ showStrs (fc.unaryReprs t)
        s1 ++ s2
    let specPart :=
      if ch == "-" then "spec=-" else
      match parseChain ((splitOn ch " ").filter (· != "")) with
      | none => "spec=BADCHAIN"
      | some (c, _) =>
        let (rendered, _) := c.render t { callForm := cf == "1" } (parseNats sp)
        let vars := c.vars
        let ρ : Env Sym := fun x => match vars.idxOf? x with | some i => .var i | none => .hole
        let toksOk := match tokenize I t (lmOf lm) text with
          | .ok tk => decide (tk = c.toks I)
          | .error _ => false
        let flagged : Nat → Bool := fun k => (((t[k]?).bind (·.bin)).map (·.comm)).getD false
        let flatOk := match wo with
          | .ok fw => decide ((fw.nodes, fw.ops) = c.flat I t vars 0)
          | .error _ => false
        "spec=" ++ (match c.denote I t ρ with | some v => v.show | none => "NONE") ++
        "\tstoks=" ++ showToks (c.toks I) ++
        "\tflatspec=" ++ (if flatOk then "ok" else "DIFF") ++
        "\tspec_nf=" ++ (match c.denote I t ρ with | some v => (v.assocNF flagged).show | none => "NONE") ++
        "\tsclones=" ++ toString ((vars.map (fun x => c.varOcc.count x - 1)).sum) ++
        "\tsvars=" ++ showStrs vars ++
        "\trender=" ++ (if rendered == text then "ok" else "DIFF:" ++ hex rendered) ++
        "\ttoks=" ++ (if toksOk then "ok" else "DIFF")
    modelPart ++ "\t" ++ specPart
  | _ => "BADREQ"

def evalDeep (I : Interp Sym) (d : DeepEx Sym) : String :=
  showRes Sym.show (d.eval I (symVars d.vars.length))

/-- apply a conversion history (`D` = to_deepex, `F` = from_deepex) starting from a flat expression;
    conversions that are the identity on the current form are skipped as in the API -/
def runHistory (I : Interp Sym) (t : Table) : List Char → (FlatEx Sym ⊕ DeepEx Sym) → Res (FlatEx Sym ⊕ DeepEx Sym)
  | [], x => .ok x
  | c :: cs, x =>
    match c, x with
    | 'D', .inl f =>
      match f.toDeep I t with
      | .error e => .error e
      | .ok d => runHistory I t cs (.inr d)
    | 'F', .inr d => runHistory I t cs (.inl (FlatEx.fromDeep I t d))
    | _, y => runHistory I t cs y

/-- `forms <table> <lm> <text> <chain|-> <spaces> <callform> <history>` -/
def doForms (f : List String) : String :=
  match f with
  | [tb, lm, tx, ch, sp, cf, hist] =>
    let t := parseTable tb
    let text := unhex tx
    let I := symInterpT t
    let fl := Flat.parse I t (lmOf lm) text
    let dp := Deep.parse I t (lmOf lm) text
    let flatPart := match fl with
      | .error e => "f=" ++ showFail e
      | .ok f =>
        "f=" ++ evalSym f ++ "\tfvars=" ++ showStrs f.vars ++
        "\tbr=" ++ showStrs (f.binaryReprs t) ++ "\tur=" ++ showStrs (f.unaryReprs t) ++ "\tor=" ++ showStrs (f.operatorReprs t) ++
        "\tfu=" ++ hex f.text ++
        (match f.toDeep I t with
          | .error e => "\tf2d=" ++ showFail e
          | .ok d => "\tf2d=" ++ evalDeep I d ++ "\tf2dvars=" ++ showStrs d.vars ++ "\tf2dtext=" ++ hex (d.unparse I t)) ++
        (match (match Flat.parseWoCompile I t (lmOf lm) text with | .ok w => w.toDeep I t | .error e => .error e) with
          | .error e => "\two2d=" ++ showFail e
          | .ok d => "\two2d=" ++ evalDeep I d ++ "\two2dtext=" ++ hex (d.unparse I t)) ++
        (match runHistory I t hist.toList (.inl f) with
          | .error e => "\th=" ++ showFail e
          | .ok (.inl g) => "\th=" ++ evalSym g ++ "\thvars=" ++ showStrs g.vars ++ "\thtext=" ++ hex g.text ++
              (match Flat.parse I t (lmOf lm) g.text with
                | .error e => "\tsj=" ++ showFail e
                | .ok g2 => "\tsj=" ++ evalSym g2 ++ "\tsjvars=" ++ showStrs g2.vars)
          | .ok (.inr d) => "\th=" ++ evalDeep I d ++ "\thvars=" ++ showStrs d.vars ++ "\thtext=" ++ hex (d.unparse I t))
    let deepPart := match dp with
      | .error e => "\td=" ++ showFail e
      | .ok d =>
        let d2f := FlatEx.fromDeep I t d
        let txt := d.unparse I t
        "\td=" ++ evalDeep I d ++ "\tdvars=" ++ showStrs d.vars ++ "\tdtext=" ++ hex txt ++
        "\tdbr=" ++ showStrs (d.binaryReprs t) ++ "\tdur=" ++ showStrs (d.unaryReprs t) ++ "\tdor=" ++ showStrs (d.operatorReprs t) ++
        "\td2f=" ++ evalSym d2f ++ "\td2fvars=" ++ showStrs d2f.vars ++
        (match Flat.parse I t (lmOf lm) txt with
          | .error e => "\trt=" ++ showFail e
          | .ok g => "\trt=" ++ evalSym g ++ "\trtvars=" ++ showStrs g.vars)
    let specPart :=
      if ch == "-" then "\tspec=-" else
      match parseChain ((splitOn ch " ").filter (· != "")) with
      | none => "\tspec=BADCHAIN"
      | some (c, _) =>
        let (rendered, _) := c.render t { callForm := cf == "1" } (parseNats sp)
        let vars := c.vars
        let ρ : Env Sym := fun x => match vars.idxOf? x with | some i => .var i | none => .hole
        let toksOk := match tokenize I t (lmOf lm) text with
          | .ok tk => decide (tk = c.toks I)
          | .error _ => false
        let flagged : Nat → Bool := fun k => (((t[k]?).bind (·.bin)).map (·.comm)).getD false
        "\tspec=" ++ (match c.denote I t ρ with | some v => v.show | none => "NONE") ++
        "\tspec_nf=" ++ (match c.denote I t ρ with | some v => (v.assocNF flagged).show | none => "NONE") ++
        "\tsvars=" ++ showStrs vars ++
        (match c.denote I t ρ with
          | some v =>
            let lo := v.opsVar
            let hi := c.opsAll
            "\tsbr_lo=" ++ showStrs (sortDedup (lo.1.map (reprOf t))) ++ "\tsbr_hi=" ++ showStrs (sortDedup (hi.1.map (reprOf t))) ++
            "\tsur_lo=" ++ showStrs (sortDedup (lo.2.map (reprOf t))) ++ "\tsur_hi=" ++ showStrs (sortDedup (hi.2.map (reprOf t))) ++
            "\tsor_lo=" ++ showStrs (sortDedup ((lo.1 ++ lo.2).map (reprOf t))) ++ "\tsor_hi=" ++ showStrs (sortDedup ((hi.1 ++ hi.2).map (reprOf t)))
          | none => "") ++
        "\tstext=" ++ hex text ++
        "\trender=" ++ (if rendered == text then "ok" else "DIFF:" ++ hex rendered) ++
        "\ttoks=" ++ (if toksOk then "ok" else "DIFF") ++
        "\tlexsafe=" ++ (if lexSafe t then "ok" else "no")
    flatPart ++ deepPart ++ specPart
  | _ => "BADREQ"

/-- `order <n> <perm>`: `eval_binary` on operands `V0..V(n-1)` with operator `k` building `(Bk a b)`,
    with the tracker the library would choose (`word` for n ≤ 64) and with the slice tracker -/
def doOrder (f : List String) : String :=
  match f with
  | [ns, perm] =>
    let n := parseNat ns
    let π := parseNats perm
    let numbers := symVars n
    let ap : Nat → Sym → Sym → Option Sym := fun k a b => some (.bin k a b)
    let w := if n ≤ 64 then showRes Sym.show (evalBinary wordTracker .hole ap numbers π (0#64)) else "-"
    let ws := showRes Sym.show (evalBinary wordsTracker .hole ap numbers π (List.replicate (1 + n / 64) (0#64)))
    let sp := match reduceByOrder (fun k a b => Sym.bin k a b) numbers π with | some v => v.show | none => "NONE"
    "w=" ++ w ++ "\tws=" ++ ws ++ "\tspec=" ++ sp
  | _ => "BADREQ"

/-- `track <nwords> <ops>`: drive a tracker with a sequence `p<i>` (get_previous), `n<i>` (get_next),
    `i<i>` (ignore); `nwords = 0` is the single `usize`. Also runs the reference flags. -/
def doTrack (f : List String) : String :=
  match f with
  | [nw, opsField] =>
    let nwords := parseNat nw
    let ops := if opsField == "-" then [] else splitOn opsField ","
    let showO : Option Nat → String := fun o => match o with | some v => toString v | none => "PANIC"
    let rec goW (w : Word) (fl : Flags) : List String → List String → List String → (List String × List String)
      | [], acc, accF => (acc.reverse, accF.reverse)
      | o :: rest, acc, accF =>
        let i := parseNat ((o.drop 1).toString)
        if o.startsWith "p" then goW w fl rest (toString (w.getPrevious i) :: acc) (toString (fl.getPrevious i) :: accF)
        else if o.startsWith "n" then goW w fl rest (toString (w.getNext i) :: acc) (toString (fl.getNext i) :: accF)
        else goW (w.ignore i) (fl.ignore i) rest acc accF
    let rec goWs (ws : Words) (fl : Flags) : List String → List String → List String → (List String × List String)
      | [], acc, accF => (acc.reverse, accF.reverse)
      | o :: rest, acc, accF =>
        let i := parseNat ((o.drop 1).toString)
        if o.startsWith "p" then goWs ws fl rest (showO (ws.getPrevious i) :: acc) (toString (fl.getPrevious i) :: accF)
        else if o.startsWith "n" then goWs ws fl rest (showO (ws.getNext i) :: acc) (toString (fl.getNext i) :: accF)
        else match ws.ignore i with
          | some ws' => goWs ws' (fl.ignore i) rest acc accF
          | none => (("PANIC" :: acc).reverse, accF.reverse)
    let nslots := if nwords == 0 then 64 else 64 * nwords
    let (r, rf) := if nwords == 0 then goW (0#64) (List.replicate nslots false) ops [] []
      else goWs (List.replicate nwords (0#64)) (List.replicate nslots false) ops [] []
    "r=" ++ ",".intercalate r ++ "\tflags=" ++ ",".intercalate rf
  | _ => "BADREQ"

def cls {α} : Res α → String
  | .ok _ => "o"
  | .error (.err _) => "e"
  | .error (.panic _) => "p"

/-- `vars <table> <lm> <text> <chain> <spaces> <callform> <kmax>`: variable list and the outcome
    class of every evaluation entry point for every slice length 0..kmax -/
def doVars (f : List String) : String :=
  match f with
  | [tb, lm, tx, ch, sp, cf, km] =>
    let t := parseTable tb
    let text := unhex tx
    let I := symInterpT t
    let kmax := parseNat km
    let fl := Flat.parse I t (lmOf lm) text
    let dp := Deep.parse I t (lmOf lm) text
    let modelPart := match fl, dp with
      | .ok f, .ok d =>
        let n := f.vars.length
        let flagged : Nat → Bool := fun k => (((t[k]?).bind (·.bin)).map (·.comm)).getD false
        let exact := f.eval I (symVars n)
        let ar := (List.range (kmax + 1)).map (fun k =>
          let vs := symVars k
          let rel := f.evalRelaxed I vs
          let drel := d.evalRelaxed I vs
          let same := fun (r : Res Sym) => match r, exact with
            | .ok a, .ok b => if a.assocNF flagged == b.assocNF flagged then "=" else "#"
            | _, _ => "-"
          toString k ++ ":" ++ cls (f.eval I vs) ++ cls rel ++ same rel ++ cls (f.evalConsuming I vs) ++
            cls (d.eval I vs) ++ cls drel ++ same drel)
        "vars=" ++ showStrs f.vars ++ "\tdvars=" ++ showStrs d.vars ++ "\tar=" ++ ",".intercalate ar
      | .error e, _ => "vars=" ++ showFail e
      | _, .error e => "vars=" ++ showFail e
    let specPart :=
      if ch == "-" then "\tsvars=-" else
      match parseChain ((splitOn ch " ").filter (· != "")) with
      | none => "\tsvars=BADCHAIN"
      | some (c, _) =>
        let (rendered, _) := c.render t { callForm := cf == "1" } (parseNats sp)
        let vars := c.vars
        let n := vars.length
        let toksOk := match tokenize I t (lmOf lm) text with
          | .ok tk => decide (tk = c.toks I)
          | .error _ => false
        let sar := (List.range (kmax + 1)).map (fun k =>
          let strict := if k == n then "o" else "e"
          let relaxed := if k ≥ n then "o=" else "e-"
          toString k ++ ":" ++ strict ++ relaxed ++ strict ++ strict ++ relaxed)
        "\tsvars=" ++ showStrs vars ++ "\tsar=" ++ ",".intercalate sar ++
        "\trender=" ++ (if rendered == text then "ok" else "DIFF:" ++ hex rendered) ++
        "\ttoks=" ++ (if toksOk then "ok" else "DIFF")
    modelPart ++ specPart
  | _ => "BADREQ"

/-- `damage <table> <lm> <text> <kind>`: acceptance class of the three parsers -/
def doDamage (f : List String) : String :=
  match f with
  | [tb, lm, tx, _] =>
    let t := parseTable tb
    let text := unhex tx
    let I := symInterpT t
    "r=" ++ cls (Flat.parse I t (lmOf lm) text) ++ cls (Flat.parseWoCompile I t (lmOf lm) text) ++
      cls (Deep.parse I t (lmOf lm) text)
  | _ => "BADREQ"

/-- `crash <table> <lm> <text>`: outcome classes of the parsers and of the follow-up calls -/
def doCrash (f : List String) : String :=
  match f with
  | [tb, lm, tx] =>
    let t := parseTable tb
    let text := unhex tx
    let I := symInterpT t
    let fl := Flat.parse I t (lmOf lm) text
    let r := "r=" ++ cls fl ++ cls (Flat.parseWoCompile I t (lmOf lm) text) ++ cls (Deep.parse I t (lmOf lm) text)
    match fl with
    | .ok f =>
      let vs := symVars f.vars.length
      let d2 := f.toDeep I t
      let e3 := match d2 with
        | .ok d =>
          let g := FlatEx.fromDeep I t d
          cls (d.eval I vs) ++ "o" ++ cls (g.eval I vs)
        | .error _ => "---"
      r ++ "\tfu=" ++ cls (f.eval I vs) ++ cls d2 ++ e3
    | .error _ => r
  | _ => "BADREQ"

def doAnytext (f : List String) : String :=
  match f with
  | [tb, lm, tx] =>
    let t := parseTable tb
    let text := unhex tx
    let I := symInterpT t
    let flagged : Nat → Bool := fun k => (((t[k]?).bind (·.bin)).map (·.comm)).getD false
    let fl := Flat.parse I t (lmOf lm) text
    let wo := Flat.parseWoCompile I t (lmOf lm) text
    let dp := Deep.parse I t (lmOf lm) text
    let nf := fun (r : Res Sym) => match r with
      | .ok v => (v.assocNF flagged).show
      | .error (.err _) => "E"
      | .error (.panic s) => "PANIC:" ++ s
    let fv := match fl with | .ok e => nf (e.eval I (symVars e.vars.length)) | .error _ => "-"
    let wv := match wo with | .ok e => nf (e.eval I (symVars e.vars.length)) | .error _ => "-"
    let dv := match dp with | .ok e => nf (e.eval I (symVars e.vars.length)) | .error _ => "-"
    "acc=" ++ cls fl ++ cls wo ++ cls dp ++ "\tfv=" ++ fv ++ "\twv=" ++ wv ++ "\tdv=" ++ dv
  | _ => "BADREQ"

/-! ### the value type over native floats -/

def fTrunc (x : Float) : Float := if x < 0 then x.ceil else x.floor

def fToI32 (x : Float) : Option Int :=
  if x.isNaN || x.isInf then none
  else if x > -2147483649.0 && x < 2147483648.0 then
    let t := fTrunc x
    some (if t < 0 then -((-t).toUInt64.toNat : Int) else (t.toUInt64.toNat : Int))
  else none

def fSignum (x : Float) : Float :=
  if x.isNaN then x else if (x.toBits >>> 63) == 1 then -1.0 else 1.0

def fMin (a b : Float) : Float := if a.isNaN then b else if b.isNaN then a else if a < b then a else b
def fMax (a b : Float) : Float := if a.isNaN then b else if b.isNaN then a else if a > b then a else b

def fNamed (name : String) (x : Float) : Float :=
  match name with
  | "abs" => x.abs
  | "signum" => fSignum x
  | "sin" => x.sin | "cos" => x.cos | "tan" => x.tan
  | "asin" => x.asin | "acos" => x.acos | "atan" => x.atan
  | "sinh" => x.sinh | "cosh" => x.cosh | "tanh" => x.tanh
  | "asinh" => x.asinh | "acosh" => x.acosh | "atanh" => x.atanh
  | "floor" => x.floor | "ceil" => x.ceil | "trunc" => fTrunc x
  | "fract" => x - fTrunc x
  | "exp" => x.exp | "sqrt" => x.sqrt | "cbrt" => x.cbrt | "round" => x.round
  | "ln" => x.log | "log10" => x.log10 | "log2" => x.log2
  | _ => x

def nativeFloatOps : FloatOps Float where
  add := (· + ·)
  sub := (· - ·)
  mul := (· * ·)
  div := (· / ·)
  min := fMin
  max := fMax
  powf := Float.pow
  powi x n := Float.pow x (Float.ofInt n)
  atan2 := Float.atan2
  neg x := -x
  named := fNamed
  ofInt := Float.ofInt
  toI32 := fToI32
  lt a b := a < b
  le a b := a ≤ b
  eq a b := a == b
  zero := 0.0
  one := 1.0

def hexU64 (s : String) : UInt64 := s.toList.foldl (fun acc c => acc * 16 + UInt64.ofNat (hexVal c)) 0

def showBits (x : Float) : String :=
  let n := x.toBits.toNat
  String.ofList ((List.range 16).reverse.map (fun i => hexDigit ((n >>> (4 * i)) % 16)))

def parseVal (s : String) : Val Float :=
  if s == "n" then .none
  else if s == "e" then .err
  else if s.startsWith "i:" then .int (parseInt ((s.drop 2).toString))
  else if s.startsWith "b:" then .bool ((s.drop 2).toString == "1")
  else if s.startsWith "f:" then .flt (Float.ofBits (hexU64 ((s.drop 2).toString)))
  else if s.startsWith "a:" then
    let body := (s.drop 2).toString
    .arr (if body == "" then [] else (splitOn body ";").map (fun h => Float.ofBits (hexU64 h)))
  else .err

def showVal : Val Float → String
  | .none => "n"
  | .err => "e"
  | .int i => "i:" ++ toString i
  | .bool b => "b:" ++ (if b then "1" else "0")
  | .flt x => "f:" ++ showBits x
  | .arr a => "a:" ++ ";".intercalate (a.map showBits)

def showVR : VR Float → String
  | .ok v => showVal v
  | .error site => "PANIC:" ++ site

/-! ### value-typed expressions (`parse_val`) -/

/-- tiny backtracking regex engine (leftmost-first semantics, greedy quantifiers) -/
inductive Re where
  | ch (p : Char → Bool)
  | seq (a b : Re)
  | alt (a b : Re)
  | star (a : Re)
  | opt (a : Re)
  | eps

partial def Re.m : Re → Str → (Str → Option Str) → Option Str
  | .ch p, c :: cs, k => if p c then k cs else none
  | .ch _, [], _ => none
  | .eps, s, k => k s
  | .seq a b, s, k => a.m s (fun s' => b.m s' k)
  | .alt a b, s, k => (a.m s k).orElse (fun _ => b.m s k)
  | .opt a, s, k => (a.m s k).orElse (fun _ => k s)
  | .star a, s, k =>
    (a.m s (fun s' => if s'.length < s.length then (Re.star a).m s' k else none)).orElse (fun _ => k s)

def reLit (w : String) : Re := w.toList.foldr (fun c acc => .seq (.ch (· == c)) acc) .eps
def reSeq (l : List Re) : Re := l.foldr .seq .eps
def reAlt : List Re → Re
  | [] => .eps
  | [a] => a
  | a :: rest => .alt a (reAlt rest)
def rePlus (a : Re) : Re := .seq a (.star a)
def isSpaceChar (c : Char) : Bool := c == ' ' || c == '\t' || c == '\n' || c == '\r' || c.val == 11 || c.val == 12 || c.val == 0x85 || c.val == 0xA0 || c.val == 0x3000

/-- `PATTERN` of value.rs:
    `^([0-9]+(\.[0-9]+)?|true|false|\[\s*(\-?.?[0-9]+(\.[0-9]+)?|true|false)(\s*,\s*-?\.?[0-9]+(\.[0-9]+)?|true|false)*\s*\])` -/
def valPattern : Re :=
  let digit := Re.ch isAsciiDigit
  let frac := Re.opt (.seq (.ch (· == '.')) (rePlus digit))
  let ws := Re.star (.ch isSpaceChar)
  let num := Re.seq (rePlus digit) frac
  let first := reAlt [reSeq [.opt (.ch (· == '-')), .opt (.ch (· != '\n')), rePlus digit, frac], reLit "true", reLit "false"]
  let more := reAlt [reSeq [ws, .ch (· == ','), ws, .opt (.ch (· == '-')), .opt (.ch (· == '.')), rePlus digit, frac], reLit "true", reLit "false"]
  reAlt [num, reLit "true", reLit "false", reSeq [.ch (· == '['), ws, first, .star more, ws, .ch (· == ']')]]

/-- `ValMatcher::is_literal`: length of the match at the start of the text -/
def valLit (s : Str) : Option Nat := (valPattern.m s some).map (fun rest => s.length - rest.length)

/-- decimal text to float as Rust's `str::parse::<f64>` (plain decimals only; anything else `none`) -/
def parseDecimal (s : Str) : Option Float :=
  let (neg, body) := match s with
    | '-' :: r => (true, r)
    | '+' :: r => (false, r)
    | r => (false, r)
  let ip := body.takeWhile isAsciiDigit
  let rest := body.drop ip.length
  let (fp, ok) := match rest with
    | [] => ([], true)
    | '.' :: r => (r, r.all isAsciiDigit)
    | _ => ([], false)
  if !ok || (ip.isEmpty && fp.isEmpty) then none else
  let digits := ip ++ fp
  let m := digits.foldl (fun acc c => acc * 10 + (c.toNat - 48)) 0
  let x := Float.ofScientific m true fp.length
  some (if neg then -x else x)

def trimStr (s : Str) : Str := (s.dropWhile isSpaceChar).reverse.dropWhile isSpaceChar |>.reverse

/-- `FromStr for Val` -/
def valOfLit (s : Str) : Option (Val Float) :=
  if s.contains '[' then
    let inner := ((s.dropWhile (· == '[')).reverse.dropWhile (· == ']')).reverse
    let parts := (String.ofList inner).splitOn ","
    (parts.mapM (fun p => parseDecimal (trimStr p.toList))).map .arr
  else if s.contains '.' then (parseDecimal s).map .flt
  else if s == "true".toList then some (.bool true)
  else if s == "false".toList then some (.bool false)
  else
    let (neg, body) := match s with | '-' :: r => (true, r) | '+' :: r => (false, r) | r => (false, r)
    if body.isEmpty || !body.all isAsciiDigit then none else
    let n : Int := body.foldl (fun acc c => acc * 10 + ((c.toNat - 48 : Nat) : Int)) 0
    let v := if neg then -n else n
    if inI32 v then some (.int v) else none

def valTableModel : Table :=
  Exmex.Generated.valTable.map (fun r =>
    { repr := r.repr.toList, bin := r.bin.map (fun b => { prio := b.1, comm := b.2 }), unary := r.unary, const := r.const })

def valConst (name : String) : Val Float :=
  match name with
  | "PI" | "π" => .flt 3.141592653589793
  | "E" => .flt 2.718281828459045
  | "TAU" | "τ" => .flt 6.283185307179586
  | _ => .err

def valInterp : Interp (Val Float) where
  bin k a b := match valBin nativeFloatOps (String.ofList (reprOf valTableModel k)) a b with | .ok v => v | .error _ => .err
  un k a := match valUn nativeFloatOps (String.ofList (reprOf valTableModel k)) a with | .ok v => v | .error _ => .err
  const k := valConst (String.ofList (reprOf valTableModel k))
  ofLit := valOfLit
  dflt := .none

/-- `valexpr <text> <vals: v;v;...>`: `parse_val(text)` then `eval(vals)` -/
def doValexpr (f : List String) : String :=
  match f with
  | [tx, vs] =>
    let text := unhex tx
    let vals := if vs == "-" then [] else (splitOn vs "|").map parseVal
    match Flat.parse valInterp valTableModel valLit text with
    | .error e => "p=" ++ showFail e
    | .ok fl =>
      "p=ok\tvars=" ++ showStrs fl.vars ++ "\tr=" ++
        (match fl.eval valInterp vals with
          | .ok v => showVal v
          | .error e => showFail e)
  | _ => "BADREQ"

/-- `valop <un|bin> <name> <val> [<val>]` -/
def doValop (f : List String) : String :=
  match f with
  | ["un", nm, a] => "r=" ++ showVR (valUn nativeFloatOps (String.ofList (unhex nm)) (parseVal a))
  | ["bin", nm, a, b] => "r=" ++ showVR (valBin nativeFloatOps (String.ofList (unhex nm)) (parseVal a) (parseVal b))
  | _ => "BADREQ"

/-! ### histories of calculations on a pool of expressions (C05, C09, C10, C11) -/

def symCalc : CalcOps Sym where
  zero := .lit "0".toList
  one := .lit "1".toList
  two := .lit "2.0".toList
  ten := .lit "10.0".toList
  eqv a b := a == b

abbrev PoolEx := FlatEx Sym ⊕ DeepEx Sym

def poolToDeep (I : Interp Sym) (t : Table) : PoolEx → Res (DeepEx Sym)
  | .inl f => f.toDeep I t
  | .inr d => .ok d

def poolFromDeep (I : Interp Sym) (t : Table) (flat : Bool) (d : DeepEx Sym) : PoolEx :=
  if flat then .inl (FlatEx.fromDeep I t d) else .inr d

def poolShow (I : Interp Sym) (t : Table) : PoolEx → String
  | .inl f => "v=" ++ evalSym f ++ ";vars=" ++ showStrs f.vars ++ ";text=" ++ hex f.text
  | .inr d => "v=" ++ evalDeep I d ++ ";vars=" ++ showStrs d.vars ++ ";text=" ++ hex (d.unparse I t)

/-- index into the pool: `99` = the most recent entry, anything else modulo the pool size -/
def poolIdx (pool : Array PoolEx) (s : String) : Nat :=
  if s == "99" then pool.size - 1 else parseNat s % pool.size

/-- one history step; `none` result = the operation returned an error (class recorded) -/
def histStep (I : Interp Sym) (t : Table) (flat : Bool) (pool : Array PoolEx) (op : String) : Res PoolEx :=
  let f := splitOn op ":"
  let get (s : String) : Res (DeepEx Sym) :=
    match pool[poolIdx pool s]? with
    | some e => poolToDeep I t e
    | none => .error (.err "badindex")
  let C := symCalc
  let fin (r : Res (DeepEx Sym)) : Res PoolEx := match r with
    | .ok d => .ok (poolFromDeep I t flat d)
    | .error e => .error e
  let getF (s : String) : Option (FlatEx Sym) :=
    match pool[poolIdx pool s]? with
    | some (.inl e) => some e
    | _ => none
  let finF (r : Res (FlatEx Sym)) : Res PoolEx := match r with
    | .ok e => .ok (.inl e)
    | .error e => .error e
  match f with
  | ["b", i, j, nm] =>
    -- flat operands: the model of `Calculate::operate_binary` (Model/FlatCalc.lean)
    match getF i, getF j with
    | some a, some b => finF (a.operateBin I t b (unhex nm))
    | _, _ =>
    match get i, get j with
    | .ok a, .ok b => fin (a.operateBin I t b (unhex nm))
    | .error e, _ => .error e
    | _, .error e => .error e
  | ["u", i, nm] =>
    match getF i with
    | some a => finF (a.operateUnary I t (unhex nm))
    | none =>
    match get i with
    | .ok a => fin (a.operateUnary I t (unhex nm))
    | .error e => .error e
  | ["n", i] =>
    match get i with
    | .ok a => fin (a.neg I t)
    | .error e => .error e
  | ["s", i, m] =>
    -- substitution map `namehex=j;namehex=j`
    let pairs := (if m == "-" then [] else splitOn m ";").filterMap (fun kv =>
      match splitOn kv "=" with
      | [k, v] => some (unhex k, poolIdx pool v)
      | _ => none)
    match getF i with
    | some a =>
      let σF : Str → Option (FlatEx Sym) := fun x =>
        match pairs.find? (fun p => p.1 == x) with
        | some (_, j) => match pool[j]? with
          | some (.inl e) => some e
          | _ => none
        | none => none
      finF (a.subs I t σF)
    | none =>
    match get i with
    | .error e => .error e
    | .ok a =>
      let σ : Str → Option (DeepEx Sym) := fun x =>
        match pairs.find? (fun p => p.1 == x) with
        | some (_, j) => match pool[j]? with
          | some e => (match poolToDeep I t e with | .ok d => some d | .error _ => none)
          | none => none
        | none => none
      fin (a.subs I σ)
  | ["p", i, idxs] =>
    match pool[poolIdx pool i]? with
    | none => .error (.err "badindex")
    | some (.inl fl) =>
      (match fl.partialIter I C t (parseNats idxs) with
        | .ok r => .ok (.inl r)
        | .error e => .error e)
    | some (.inr d) =>
      (match d.partialIter I C t (parseNats idxs) with
        | .ok r => .ok (.inr r)
        | .error e => .error e)
  | [o, i, j] =>
    match get i, get j with
    | .ok a, .ok b =>
      fin (match o with
        | "+" => a.add I C t b
        | "-" => a.sub I t b
        | "*" => a.mul I C t b
        | "/" => a.div I C t b
        | "^" => a.pow I C t b
        | _ => .error (.err "badop"))
    | .error e, _ => .error e
    | _, .error e => .error e
  | _ => .error (.err "badop")

/-- `hist <table> <lm> <pool> <F|D> <history>` -/
def doHist (f : List String) : String :=
  match f with
  | [tb, lm, poolF, form, hist] =>
    let t := parseTable tb
    let I := symInterpT t
    let flat := form == "F" || form == "W"
    let texts := (splitOn poolF ";").map unhex
    let parsed : List (Res PoolEx) := texts.map (fun tx =>
      if form == "W" then (match Flat.parseWoCompile I t (lmOf lm) tx with | .ok e => .ok (.inl e) | .error e => .error e)
      else if flat then (match Flat.parse I t (lmOf lm) tx with | .ok e => .ok (.inl e) | .error e => .error e)
      else (match Deep.parse I t (lmOf lm) tx with | .ok e => .ok (.inr e) | .error e => .error e))
    if parsed.any (fun r => !r.isOk) then "pool=E" else
    let pool0 : Array PoolEx := (parsed.filterMap (fun r => match r with | .ok e => some e | .error _ => none)).toArray
    let ops := if hist == "-" then [] else splitOn hist "|"
    let rec go : List String → Array PoolEx → List String → List String
      | [], _, acc => acc.reverse
      | o :: os, pool, acc =>
        match histStep I t flat pool o with
        | .ok e => go os (pool.push e) (("ok " ++ poolShow I t e) :: acc)
        | .error e => go os pool ((match e with | .err _ => "E" | .panic site => "PANIC:" ++ site) :: acc)
    "pool=ok\tsteps=" ++ "|".intercalate (go ops pool0 [])
  | _ => "BADREQ"

def handle (line : String) : String :=
  match splitOn line "\t" with
  | "lex" :: rest => doLex rest
  | "flat" :: rest => doFlat rest
  | "forms" :: rest => doForms rest
  | "vars" :: rest => doVars rest
  | "damage" :: rest => doDamage rest
  | "crash" :: rest => doCrash rest
  | "anytext" :: rest => doAnytext rest
  | "valop" :: rest => doValop rest
  | "valexpr" :: rest => doValexpr rest
  | "hist" :: rest => doHist rest
  | "order" :: rest => doOrder rest
  | "track" :: rest => doTrack rest
  | _ => "BADKIND"

partial def loop (h : IO.FS.Stream) (out : IO.FS.Stream) : IO Unit := do
  let line ← h.getLine
  if line.isEmpty then return ()
  let l := (line.dropEndWhile (fun c => c == '\n' || c == '\r')).toString
  out.putStrLn (handle l)
  -- one answer per request, visible at once: the caller cuts a run that takes too long at the
  -- request being worked on
  out.flush
  loop h out

end Drv

def main : IO Unit := do
  let stdin ← IO.getStdin
  let stdout ← IO.getStdout
  Drv.loop stdin stdout
