import Exmex.Model.Basic
import Exmex.Model.Lex
import Exmex.Model.Tracker
import Exmex.Model.Flat
import Exmex.Spec.Surface
import Exmex.Model.Sym
import Exmex.Spec.Order
