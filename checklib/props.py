"""Registry: which generators, comparisons and theorem modules decide which property."""

TRUSTED_BASE = [
    "Lean 4.33 kernel; axioms per theorem audited at run time (subset of propext, Classical.choice, Quot.sound)",
    "hand-written Lean model of the Rust code, tied to /repo by the differential correspondence run of this check (bounded by generator quality)",
    "Rust harness (free term algebra data type, canonical printing) and this Python comparison",
    "Rust semantics: stable sort_by, str ordering = code point order, parametricity of generic code in T",
]
ASSUMPTIONS = [
    "operator names are non-empty and pairwise distinct",
    "user operator closures are total and pure",
    "theorems speak about the model; model = implementation only as far as the correspondence run shows",
]


def unhex(s):
    if s == "-":
        return ""
    try:
        return bytes.fromhex(s).decode("utf-8", "replace")
    except Exception:
        return "?" + s


def describe_table(f):
    if f == "-":
        return []
    out = []
    for e in f.split(";"):
        p = e.split(":")
        out.append(dict(name=unhex(p[0]), bin=p[1], unary=p[2] == "u", const=p[3] == "k"))
    return out


def describe(req):
    f = req.split("\t")
    d = dict(kind=f[0])
    if f[0] in ("flat", "deep", "conv") and len(f) >= 4:
        d["table"] = describe_table(f[1])
        d["text"] = unhex(f[3])
    elif f[0] == "lex" and len(f) >= 4:
        d["table"] = describe_table(f[1])
        d["text"] = unhex(f[3])
    else:
        d["fields"] = f[1:]
    return d


def n_binops(req_chain_field):
    toks = req_chain_field.split(" ")
    return sum(1 for t in toks if t in ("N", "C"))


def flat_nontrivial(req, A, B):
    f = req.split("\t")
    return n_binops(f[4]) >= 2


FLAT_CORR_ALL = ["wo", "vars", "nwo", "c", "nc", "rc", "cons", "br", "ur"]

def always(req, A, B):
    return True


def order_nontrivial(req, A, B):
    f = req.split("\t")
    return int(f[1]) >= 3


PROPS = {
    "C01": dict(
        level="proof",
        modules=["Exmex.Props.C01"],
        rule="random operator tables x random well-formed chains x random renderings; non-trivial = at least two binary operators; distinct by hash of the request (table, text)",
        kinds=[dict(kind="flat", quick=24000, thorough=1200000,
                    corr=["wo", "vars", "nwo"], oracle=[("wo_nf", "spec_nf"), ("vars", "svars")],
                    guards=["render", "toks"], nontrivial=flat_nontrivial)],
    ),
    "C15": dict(
        level="proof",
        modules=["Exmex.Props.C15"],
        theorems=["Exmex.C15.consumeNodes_spec", "Exmex.C15.consuming_eq_cloning"],
        rule="flat generator (random tables, chains with repeated variables, folded and unfolded); eval_vec on a clone-counting data type whose Default is a visible hole; non-trivial = at least two binary operators; distinct by request hash",
        kinds=[dict(kind="flat", quick=24000, thorough=600000, args=["vars_repeat"],
                    corr=["cons", "c", "vars"], oracle=[("cons_nf", "spec_nf"), ("clones", "sclones")],
                    guards=["render", "toks"], nontrivial=flat_nontrivial)],
    ),
    "C14": dict(
        level="proof",
        modules=["Exmex.Props.C14"],
        theorems=["Exmex.C14.evalBinary_word_any_order", "Exmex.C14.evalBinary_words_any_order", "Exmex.C14.evalNumbers_any_order"],
        rule="eval_binary through the hook: all 46233 orders of 1..8 operators (exhaustive), structured and random orders for 3..1000 operands incl. both sides of 64/128/192/256; NumberTracker (usize, [usize] of 1..5 words) driven with random legal get_previous/get_next/ignore sequences; non-trivial = at least 3 operands / at least one query; distinct by request hash",
        kinds=[
            dict(kind="orderx", quick=46233, thorough=46233, single=True, corr=["w", "ws"], oracle=[("w", "spec"), ("ws", "spec")], nontrivial=order_nontrivial),
            dict(kind="order", quick=4000, thorough=60000, corr=["w", "ws"], oracle=[("w", "spec"), ("ws", "spec")], nontrivial=order_nontrivial),
            dict(kind="track", quick=4000, thorough=100000, corr=["r"], oracle=[("r", "flags")], nontrivial=always),
        ],
    ),
}
