"""Registry: which generators, comparisons and theorem modules decide which property."""

TRUSTED_BASE = [
    "Lean 4.33 kernel; axioms per theorem audited at run time (subset of propext, Classical.choice, Quot.sound)",
    "hand-written Lean model of the Rust code, tied to /repo by the differential correspondence run of this check (bounded by generator quality)",
    "Rust harness (free term algebra data type, canonical printing) and this Python comparison",
    "Rust semantics: stable sort_by, str ordering = code point order, parametricity of generic code in T",
]
ASSUMPTIONS = [
    "operator names are non-empty and pairwise distinct",
    "user operator closures are total and pure",
    "theorems speak about the model; model = implementation only as far as the correspondence run shows",
]


DEFAULT_LEVEL_TEXT = ("Kernel-checked Lean 4 theorems about a hand-written model of the code, for all inputs the property quantifies over; "
                      "the model is tied to /repo on every run by a differential correspondence run impl | model | spec on generated inputs")
DEFAULT_LEVEL_NOTE = ("theorems are about the model; model = implementation only as far as the correspondence run shows (differential testing, bounded by "
                      "generator quality); trusted: Lean kernel, audited axioms (propext, Classical.choice, Quot.sound), harness, comparison script")
NOT_YET = {}


def unhex(s):
    if s == "-":
        return ""
    try:
        return bytes.fromhex(s).decode("utf-8", "replace")
    except Exception:
        return "?" + s


def describe_table(f):
    if f == "-":
        return []
    out = []
    for e in f.split(";"):
        p = e.split(":")
        out.append(dict(name=unhex(p[0]), bin=p[1], unary=p[2] == "u", const=p[3] == "k"))
    return out


def describe(req):
    f = req.split("\t")
    d = dict(kind=f[0])
    if f[0] in ("flat", "deep", "conv") and len(f) >= 4:
        d["table"] = describe_table(f[1])
        d["text"] = unhex(f[3])
    elif f[0] in ("lex", "anytext", "crash", "damage") and len(f) >= 4:
        d["table"] = describe_table(f[1])
        d["text"] = unhex(f[3])
    else:
        d["fields"] = f[1:]
    return d


def n_binops(req_chain_field):
    toks = req_chain_field.split(" ")
    return sum(1 for t in toks if t in ("N", "C"))


def flat_nontrivial(req, A, B):
    f = req.split("\t")
    return n_binops(f[4]) >= 2


FLAT_CORR_ALL = ["wo", "vars", "nwo", "c", "nc", "rc", "cons", "br", "ur"]

def always(req, A, B):
    return True


def order_nontrivial(req, A, B):
    f = req.split("\t")
    return int(f[1]) >= 3


import struct

LIBM_OPS = {"sin", "cos", "tan", "asin", "acos", "atan", "sinh", "cosh", "tanh", "asinh", "acosh", "atanh", "exp", "cbrt",
            "ln", "log", "log10", "log2", "^", "atan2", "length"}


def _fnorm(h, loose, zero_sign_free):
    x = struct.unpack(">d", bytes.fromhex(h))[0]
    if x != x:
        return "nan"
    if zero_sign_free and x == 0.0:
        return "0"
    if loose:
        if x in (float("inf"), float("-inf")) or abs(x) > 1e300:
            return "huge+" if x > 0 else "huge-"
        # underflow region: `powi` with a negative exponent computes 1 / x^n and reaches 0 where a
        # correctly rounded pow gives a subnormal; libm results there are not comparable
        if abs(x) < 1e-300:
            return "tiny"
        return "%.9e" % x
    return h


def valexpr_norm(req, v):
    """value-typed expression results: floats to 9 digits (literal parsing and libm differ in the last bits)"""
    if v is None:
        return v
    # sin of a huge argument amplifies the last-bit differences of pow/powi and of literal parsing to
    # O(1): such float results are compared by kind only
    f = req.split("\t")
    if v.startswith("f:") and len(f) > 2:
        try:
            text = bytes.fromhex(f[1]).decode("utf-8", "replace")
        except ValueError:
            text = ""
        if "sin" in text:
            huge = any(tok in text for tok in ("^", "fact", "<<", "10000000000", "99999999999", "2147483647"))
            for enc in (f[2].split("|") if f[2] != "-" else []):
                if enc.startswith("f:"):
                    x = struct.unpack(">d", bytes.fromhex(enc[2:]))[0]
                    huge = huge or not (abs(x) < 1e5)
                elif enc.startswith("i:"):
                    huge = huge or abs(int(enc[2:])) > 100000
            if huge:
                return "f:ill-conditioned"
    if v.startswith("f:"):
        return "f:" + _fnorm(v[2:], True, True)
    if v.startswith("a:"):
        body = v[2:]
        return "a:" + ";".join(_fnorm(h, True, True) for h in body.split(";")) if body else "a:"
    if v.startswith("PANIC"):
        return "PANIC"
    return v


def val_norm(req, v):
    """canonical form of an encoded Val result for comparison: NaN payload/sign ignored, libm-backed
    operators compared to 9 significant digits, min/max insensitive to the sign of zero"""
    if v is None:
        return v
    f = req.split("\t")
    name = unhex(f[2]) if len(f) > 2 else ""
    loose = name in LIBM_OPS
    if name in ("asinh", "acosh") and len(f) > 3 and f[3].startswith("f:"):
        x = struct.unpack(">d", bytes.fromhex(f[3][2:]))[0]
        if abs(x) > 1e150:
            return "float-overflow-region"
    zf = name in ("min", "max")
    if v.startswith("f:"):
        return "f:" + _fnorm(v[2:], loose, zf)
    if v.startswith("a:"):
        body = v[2:]
        return "a:" + ";".join(_fnorm(h, loose, zf) for h in body.split(";")) if body else "a:"
    if v.startswith("PANIC"):
        return "PANIC"
    return v


PROPS = {
    "C01": dict(
        level="proof",
        modules=["Exmex.Props.C01", "Exmex.Props.C01Parse", "Exmex.Props.C14", "Exmex.Props.C13Lex"],
        theorems=["Exmex.C01.flat_eval_eq_denote", "Exmex.C01.parseWoCompile_eval_eq_denote", "Exmex.C01.parse_eval_eq_denote",
                  "Exmex.C01.checkPre_toks", "Exmex.C01.findVars_toks", "Exmex.C14.evalNumbers_any_order",
                  "Exmex.C13.tokenize_render_spaced", "Exmex.C13.parse_spaced_eval_eq_denote"],
        level_text=("kernel-checked: parse_eval_eq_denote / parseWoCompile_eval_eq_denote / flat_eval_eq_denote - for every operator table (priorities 0..=99, flagged operators associative), every interpretation (the parser is generic), every well-formed expression and every text whose token stream is the expression's canonical token stream, parse succeeds, lists the documented variables and eval = the documented value (parentheses first, unary tighter and right-to-left, descending priority, left-to-right among equals; re-grouping of flagged operators only where invisible for associative operators); evalNumbers_any_order for any number of operands (both bit trackers); text level: tokenize_render_spaced / parse_spaced_eval_eq_denote - for the rendering with a space before every token the statement holds from the TEXT on with no run-time hypothesis; other renderings: the tokens are checked per case at run time"),
        rule="random operator tables x random well-formed chains x random renderings; every evaluation entry point (eval, eval_vec, eval_iter; folded and unfolded) against the documented value; non-trivial = at least two binary operators; distinct by hash of the request (table, text)",
        kinds=[dict(kind="flat", quick=24000, thorough=1200000,
                    corr=["wo", "vars", "nwo", "toksimpl"], oracle=[("wo_nf", "spec_nf"), ("c_nf", "spec_nf"), ("cons_nf", "spec_nf"), ("wcons_nf", "spec_nf"), ("witer_nf", "spec_nf"), ("vars", "svars"), ("toksimpl", "stoks")],
                    guards=["render", "toks", "flatspec"], nontrivial=flat_nontrivial)],
    ),
    "C02": dict(
        level="proof",
        modules=["Exmex.Props.C02", "Exmex.Props.C02Any", "Exmex.Props.C01Parse", "Exmex.Props.C02Deep", "Exmex.Props.C03Parse"],
        theorems=["Exmex.C02.evalCloning_eq_split", "Exmex.C02.compile_sound", "Exmex.C02.compile_twice_sound", "Exmex.C01.parse_eval_eq_denote",
                  "Exmex.C02.parse_fold_invisible_any", "Exmex.C02.parse_accepts_iff_wo",
                  "Exmex.C02.deep_new_sound", "Exmex.C02.deep_compile_sound", "Exmex.C03.deep_parse_eval_eq_denote"],
        level_text=("kernel-checked: compile_sound / compile_twice_sound (flat folding and re-folding preserve the value under the structural invariant), deep_compile_sound / deep_new_sound / liftNodes_sound (deep form), parse_eval_eq_denote and deep_parse_eval_eq_denote (folded flat, unfolded flat, re-folded and deep all equal the documented value for well-formed expressions); parse_fold_invisible_any / parse_accepts_iff_wo: for EVERY text the flat parser accepts - also sloppy ones - unfolded, folded and re-folded expressions list the same variables and agree at every assignment"),
        rule="literal-rich random chains (60-90% literals, constants, unary over literals) x random tables: parse, parse_wo_compile, compile() once more, DeepEx::parse, all evaluated on symbolic variables and compared with the documented value modulo re-association of flagged operators; node counts compared with the model (folding must happen where the model folds); non-trivial = at least two binary operators; distinct by request hash",
        kinds=[dict(kind="flat", quick=20000, thorough=1000000, args=["lits"],
                    corr=["wo", "nwo", "c", "nc", "rc", "vars"],
                    oracle=[("wo_nf", "spec_nf"), ("c_nf", "spec_nf"), ("rc_nf", "spec_nf")],
                    guards=["render", "toks"], nontrivial=flat_nontrivial),
               dict(kind="forms", quick=10000, thorough=300000, args=["lits"],
                    corr=["f", "d", "dtext", "fvars", "dvars"], oracle=[("f_nf", "spec_nf"), ("d_nf", "spec_nf")],
                    guards=["render", "toks"], nontrivial=flat_nontrivial)],
    ),
    "C03": dict(
        level="proof",
        modules=["Exmex.Props.C03", "Exmex.Props.C03ToDeep", "Exmex.Props.C02", "Exmex.Props.C02Deep", "Exmex.Props.C03Parse", "Exmex.Props.C03Any", "Exmex.Props.C03Conv", "Exmex.Props.C03Listing", "Exmex.Proofs.AnyTextCex"],
        theorems=["Exmex.C03.fromDeep_sound", "Exmex.C03.toDeep_sound", "Exmex.C02.deep_compile_sound",
                  "Exmex.C03.deep_parse_eval_eq_denote", "Exmex.C03.flat_deep_parse_agree",
                  "Exmex.C03.flat_deep_agree_any", "Exmex.C03.flatWo_deep_agree_any", "Exmex.C03.flat_deep_agree_any'", "Exmex.C03.accepted_chain",
                  "Exmex.C03.flat_deep_agree_any_unrestricted_false", "Exmex.AnyTextCex.differ₁",
                  "Exmex.C03.flat_conversions_any", "Exmex.C03.deep_conversions_any",
                  "Exmex.C03.flat_listings_sorted", "Exmex.C03.deep_listings_sorted", "Exmex.C03.flat_listings_from_text", "Exmex.C03.deep_listings_from_text", "Exmex.C03.flat_folded_listing_subset"],
        level_text=("kernel-checked: flat_deep_parse_agree (renderings of well-formed expressions), fromDeep_sound / toDeep_sound (conversions in both directions, any number "
                    "of times), deep_parse_eval_eq_denote; flat_conversions_any / deep_conversions_any: from EVERY accepted text (also sloppy ones) converting to the other form and back keeps variables and value; for ARBITRARY strings: flat_deep_agree_any - every text accepted by both parsers in which no operand directly "
                    "follows an operand (equivalently, for flat-accepted texts: no group starts with a binary-only operator, flat_deep_agree_any') is the token stream of a "
                    "well-formed expression (accepted_chain), hence both forms list the same variables and agree at every assignment. Without that condition the claim is "
                    "FALSE - flat_deep_agree_any_unrestricted_false, differ_1: `*(1+2)(3)` is 5 in the flat and 9 in the deep form - a genuine defect of the library "
                    "(known finding D13, not repaired: prefix forms like `/ 1 2 * 3` are pinned by the test-suite). Listings: flat/deep_listings_sorted (strictly sorted = sorted and duplicate-free, every expression), flat/deep_listings_from_text (nothing absent from the text, every accepted text), flat_folded_listing_subset; that they contain every operator applied to a variable-dependent operand is judged at run time"),
        rule="random chains x tables x renderings: FlatEx::parse, DeepEx::parse, to_deepex, from_deepex and random conversion histories of length 0..6; sloppy texts (groups starting with binary operators, operands next to each other, nested) on which flat and deep parse must agree whenever both accept; variable lists and symbolic values compared with the documented value; operator listings of both forms checked to be sorted, duplicate-free, to contain every operator applied to a variable-dependent operand and nothing absent from the text; non-trivial = at least two binary operators; distinct by request hash",
        kinds=[dict(kind="anytext", quick=12000, thorough=400000, corr=["acc", "fv", "wv", "dv"], oracle=[],
                    oracle_const=[("agree", "ok|-"), ("conv", "ok")], nontrivial=lambda req, A, B: A.get("acc", "") == "ooo"),
               dict(kind="forms", quick=24000, thorough=800000,
                    corr=["f", "d", "f2d", "wo2d", "wo2dtext", "d2f", "h", "fvars", "dvars", "f2dvars", "d2fvars", "hvars", "br", "ur", "or", "dbr", "dur", "dor", "dtext", "f2dtext", "htext"],
                    oracle=[("f_nf", "spec_nf"), ("d_nf", "spec_nf"), ("f2d_nf", "spec_nf"), ("wo2d_nf", "spec_nf"), ("d2f_nf", "spec_nf"), ("h_nf", "spec_nf"),
                            ("fvars", "svars"), ("dvars", "svars"), ("f2dvars", "svars"), ("d2fvars", "svars"), ("hvars", "svars"),
                            ("br", "sbr_lo", [], "superset"), ("br", "sbr_hi", [], "subset"), ("dbr", "sbr_lo", [], "superset"), ("dbr", "sbr_hi", [], "subset"),
                            ("ur", "sur_lo", [], "superset"), ("ur", "sur_hi", [], "subset"), ("dur", "sur_lo", [], "superset"), ("dur", "sur_hi", [], "subset"),
                            ("or", "sor_lo", [], "superset"), ("or", "sor_hi", [], "subset"), ("dor", "sor_lo", [], "superset"), ("dor", "sor_hi", [], "subset"),
                            ("f2dbr", "sbr_lo", [], "superset"), ("f2dbr", "sbr_hi", [], "subset"), ("f2dur", "sur_lo", [], "superset"), ("f2dur", "sur_hi", [], "subset"),
                            ("f2dor", "sor_lo", [], "superset"), ("f2dor", "sor_hi", [], "subset")],
                    guards=["render", "toks"], nontrivial=flat_nontrivial)],
    ),
    "C12": dict(
        level="proof",
        modules=["Exmex.Props.Reach", "Exmex.Props.ReachCorollaries", "Exmex.Props.C12", "Exmex.Props.C12Lex", "Exmex.Props.C13Lex", "Exmex.Props.C02"],
        theorems=["Exmex.Reach.reach_inv", "Exmex.Reach.reach_unparse_parse_sound", "Exmex.C12.flat_parse_text", "Exmex.C12.unparse_eq_render", "Exmex.C12.topChain_denote", "Exmex.C12.unparse_parse_sound",
                  "Exmex.C12.tokenize_unparse", "Exmex.C12.unparse_parse_sound'",
                  "Exmex.C12.shape_of_named", "Exmex.C13.tokenize_render_spaced"],
        level_text=("kernel-checked: flat_parse_text (a parsed flat expression keeps exactly its source text); unparse_eq_render (the text printed by a deep expression is the "
                    "space-free rendering of the surface chain topChain: literals by Debug, variables in braces, plain groups in parentheses, unary chains as nested function "
                    "applications); topChain_denote (that chain is well-formed and has the value of the expression at every assignment, its variables are among the listed "
                    "ones); unparse_parse_sound (hence, whenever the tokenizer reads the printed text as the canonical tokens of that chain, parsing the printed text succeeds, keeps "
                    "the text, lists variables of the original and evaluates to the same value everywhere). tokenize_unparse / unparse_parse_sound' discharge that hypothesis: the tokenizer on the printed, "
                    "space-free text returns those tokens whenever every printed token text (Debug form of each literal, each operator name) is lexed to its token in front of "
                    "what the printer can put behind it (PrintLexOK: after an operand the end, `)` or a binary name; after a binary name `(`, `{`, a literal or `unary(`) - a "
                    "condition on table, matcher and literals that the run-time guard checks per case (lexSafe tables); literals whose Debug form is not a literal "
                    "of the matcher (negative numbers, exponent forms) are outside the property's quantifier. serde = unparse + parse is covered at run time"),
        rule="random chains x tables: FlatEx::unparse must be the text parsed; the text printed by DeepEx (parsed, or reached through conversion histories) is re-parsed as a flat expression and must have the same variables and symbolic value; serde_json round trip of flat expressions derived from deep ones; calculation histories (operator application, shortcuts, substitution, differentiation): the text printed by every derived expression is re-parsed and compared; judged for tables whose printed form lexes unambiguously (lexSafe); non-trivial = at least two binary operators; distinct by request hash",
        kinds=[dict(kind="forms", quick=20000, thorough=600000,
                    corr=["fu", "dtext", "rt", "rtvars", "htext", "sj", "sjvars"],
                    oracle=[("fu", "stext"), ("rt_nf", "spec_nf", ["lexsafe"]), ("rtvars", "svars", ["lexsafe"]),
                            ("sj_nf", "spec_nf", ["lexsafe"]), ("sjvars", "svars", ["lexsafe"])],
                    guards=["render", "toks"], nontrivial=flat_nontrivial),
               # derived expressions (operator application, shortcuts, substitution, derivatives, also of
               # nodes carrying several stacked unary operators): the printed text of every result is
               # re-parsed in the harness and compared on variables and symbolic value
               dict(kind="hist", quick=6000, thorough=60000, args=["diff"], corr=["pool", "steps"], oracle=[],
                    oracle_const=[("rtbad", "-")], nontrivial=lambda req, A, B: req.split("\t")[5].count("|") >= 1),
               dict(kind="hist", quick=4000, thorough=60000, args=["default"], corr=["pool", "steps"], oracle=[],
                    oracle_const=[("rtbad", "-")], nontrivial=lambda req, A, B: req.split("\t")[5].count("|") >= 1),
               dict(kind="hist", quick=3000, thorough=60000, args=["subs"], corr=["pool", "steps"], oracle=[],
                    oracle_const=[("rtbad", "-")], nontrivial=lambda req, A, B: req.split("\t")[5].count("|") >= 1)],
    ),
    "C04": dict(
        level="proof",
        modules=["Exmex.Props.C04", "Exmex.Props.C10", "Exmex.Props.C01Parse"],
        theorems=["Exmex.C10.resetVars_sound", "Exmex.C10.operateBin_sound", "Exmex.C01.findVars_toks", "Exmex.C04.findVars_sorted", "Exmex.C04.mem_findVars", "Exmex.C04.flat_eval_wrong_arity",
                  "Exmex.C04.flat_evalRelaxed_surplus", "Exmex.C04.deep_eval_wrong_arity", "Exmex.C04.braced_is_var"],
        level_text=("kernel-checked: findVars_sorted / mem_findVars / findVars_toks (the variable list is the sorted duplicate-free list of the names in the text; braces make any text a name), arity theorems for eval / eval_relaxed / consuming evaluation, flat and deep (wrong length is an error, surplus values are ignored by the relaxed form), resetVars_sound / operateBin_sound (derived expressions list the sorted union and bind by name); binding of the k-th value to the k-th name through every entry point is judged at run time"),
        rule="expressions with 0..40 variables (bare ASCII/Greek identifiers, braced arbitrary text incl. spaces, digits, emoji, operator look-alikes), every slice length 0..n+3 on eval / eval_relaxed / eval_vec / eval_iter, flat and deep; with the exact length all entry points must return the value of eval (binding of the k-th value to the k-th name, also for repeated variables in the consuming entry points); plus the flat generator for the variable list; non-trivial = at least 2 distinct variables; distinct by request hash",
        kinds=[dict(kind="vars", quick=6000, thorough=150000, corr=["vars", "dvars", "ar"],
                    oracle=[("vars", "svars"), ("dvars", "svars"), ("ar", "sar")], oracle_const=[("bind", "ok")], guards=["render", "toks"],
                    nontrivial=lambda req, A, B: A.get("vars", "").count(",") >= 1),
               dict(kind="flat", quick=8000, thorough=200000, corr=["vars"], oracle=[("vars", "svars")],
                    guards=["render", "toks"], nontrivial=flat_nontrivial),
               # derived expressions (operator application, substitution, derivative): sorted union of the names
               dict(kind="hist", quick=6000, thorough=60000, args=["diff"], corr=["pool", "steps"], oracle=[], oracle_const=[("varsbad", "-")], nontrivial=lambda req, A, B: req.split("\t")[5].count("|") >= 1),
               dict(kind="histf", quick=6000, thorough=100000, args=["diff"], no_model=True, corr=[], oracle_const=[("r", "ok")], nontrivial=lambda req, A, B: req.split("\t")[3].count("|") >= 1),
               dict(kind="histf", quick=4000, thorough=100000, args=["default"], no_model=True, corr=[], oracle_const=[("r", "ok")], nontrivial=lambda req, A, B: req.split("\t")[3].count("|") >= 1)],
    ),
    "C10": dict(
        level="proof",
        modules=["Exmex.Props.FlatApi", "Exmex.Props.Reach", "Exmex.Props.ReachCorollaries", "Exmex.Props.C10", "Exmex.Props.C10Shortcuts", "Exmex.Proofs.WrapOK", "Exmex.Props.C02Deep", "Exmex.Props.C03"],
        theorems=["Exmex.Reach.reach_inv", "Exmex.FlatApi.flat_operateBin_sound", "Exmex.FlatApi.flat_operateUnary_sound", "Exmex.FlatApi.flat_operateBin_unknown", "Exmex.FlatApi.toDeep_good", "Exmex.FlatApi.fgood_parse", "Exmex.FlatApi.fgood_fromDeep", "Exmex.Reach.reach_operateBin_sound", "Exmex.Reach.reach_mul_sound", "Exmex.C10.resetVars_sound", "Exmex.C10.operateBin_sound", "Exmex.C10.operateUnary_sound", "Exmex.C10.operateBin_unknown",
                  "Exmex.C10.add_sound", "Exmex.C10.mul_sound", "Exmex.C10.div_sound", "Exmex.C10.pow_sound", "Exmex.C10.sub_sound", "Exmex.C10.neg_sound",
                  "Exmex.C10.operateUnary_yields", "Exmex.Shortcut.compile_folded", "Exmex.Shortcut.operateBin_folded", "Exmex.Shortcut.wrapOK_of_folded",
                  "Exmex.C02.deep_new_sound", "Exmex.C02.deep_compile_sound", "Exmex.C03.fromDeep_sound"],
        level_text=("kernel-checked: operate_bin / operate_unary on deep expressions are homomorphisms (operateBin_sound, operateUnary_sound: sorted union of the "
                    "variables, value = operator applied to the operands' values under every environment; resetVars_sound; unknown names are errors), on top of the deep folding "
                    "theorems and, for flat expressions, the conversion theorem (fromDeep_sound); the neutral-element shortcuts of + * / pow are sound (add_sound, mul_sound, div_sound, "
                    "pow_sound: same variables, and the same value as the plain operator at every assignment where the law the shortcut relies on holds for the values involved; "
                    "0^0 of two literals is the documented error) on expressions in folded form (Folded: what compile/new/operate_* return, compile_folded, operateBin_folded) - "
                    "is_num looks through single-node wrappers without applying their unary operators, which is unsound on unfolded trees (machine-checked counterexample "
                    "Proofs/ShortcutCex.lean) but unreachable through the API because every constructor folds. Not yet proved: arbitrary histories as one induction. "
                    "The model of the whole calculation API (union of variables, shortcuts of + * / pow, unknown names) is tied to the code by exact symbolic correspondence on histories, "
                    "and the implementation is judged against an independent f64 reference (operator applied to the operands' values) at random points"),
        rule="pools of 2-5 parsed expressions with overlapping/disjoint variable sets, histories of 1-6 applications through operate_binary/operate_unary, the overloaded + - * / pow and neg (deep form) incl. unknown names; symbolic data type: exact comparison of value/variables/printed text with the Lean model after every step; f64: value at 3 tame points and variable list against the reference; non-trivial = at least 2 steps; distinct by request hash",
        kinds=[dict(kind="hist", quick=8000, thorough=60000, corr=["pool", "steps"], oracle=[], oracle_const=[("varsbad", "-")], nontrivial=lambda req, A, B: req.split("\t")[5].count("|") >= 1),
               dict(kind="histf", quick=8000, thorough=100000, no_model=True, corr=[], oracle_const=[("r", "ok")], nontrivial=lambda req, A, B: req.split("\t")[3].count("|") >= 1)],
    ),
    "C11": dict(
        level="proof",
        modules=["Exmex.Props.FlatApi", "Exmex.Props.Reach", "Exmex.Props.ReachCorollaries", "Exmex.Props.C11", "Exmex.Props.C02Deep", "Exmex.Props.C03"],
        theorems=["Exmex.Reach.reach_inv", "Exmex.FlatApi.flat_subs_sound", "Exmex.Reach.reach_subs_sound", "Exmex.C11.subs_sound", "Exmex.C11.subs_none", "Exmex.C11.subs_sound_gen", "Exmex.C11.subs_listed", "Exmex.C02.deep_compile_sound", "Exmex.C03.fromDeep_sound"],
        level_text=("kernel-checked for the deep form: subs_sound (the result lists exactly the sorted, duplicate-free union of the untouched variables and the replacements' variables, "
                    "and its value under every environment is the value of the original with each replaced variable bound to the value of its replacement - simultaneous, "
                    "replacements not re-substituted, self-referential replacements included), subs_none (nothing replaced: same variables, same function), subs_listed (the "
                    "invariant `every group lists only variables of the top list` is re-established, so the theorem applies to repeated substitution); the hypothesis Listed is "
                    "needed (machine-checked counterexample subs_vars_cex: a nested group listing a stray name) and holds for everything the API returns. For flat expressions "
                    "subs goes through to_deepex/from_deepex (toDeep_sound, fromDeep_sound). The model of subs is tied to the code by exact symbolic correspondence, and the "
                    "implementation is judged against an independent f64 reference (substitution by environment) at random points"),
        rule="histories dominated by substitution steps (partial maps incl. self-referential, constant, renaming, swapping replacements; repeated substitution), flat and deep; symbolic: exact comparison with the Lean model; f64: values at tame points and variable lists against the reference; non-trivial = at least 2 steps; distinct by request hash",
        kinds=[dict(kind="hist", quick=8000, thorough=60000, args=["subs"], corr=["pool", "steps"], oracle=[], oracle_const=[("varsbad", "-")], nontrivial=lambda req, A, B: req.split("\t")[5].count("|") >= 1),
               dict(kind="histf", quick=8000, thorough=100000, args=["subs"], no_model=True, corr=[], oracle_const=[("r", "ok")], nontrivial=lambda req, A, B: req.split("\t")[3].count("|") >= 1),
               # substitution into derivatives (expressions that list variables which no longer occur)
               dict(kind="hist", quick=5000, thorough=60000, args=["diff"], corr=["pool", "steps"], oracle=[], oracle_const=[("varsbad", "-")], nontrivial=lambda req, A, B: "s:" in req.split("\t")[5]),
               dict(kind="histf", quick=5000, thorough=100000, args=["diff"], no_model=True, corr=[], oracle_const=[("r", "ok")], nontrivial=lambda req, A, B: "s:" in req.split("\t")[3])],
    ),
    "C05": dict(
        level="proof",
        modules=["Exmex.Props.Tie", "Exmex.Props.Reach", "Exmex.Props.ReachCorollaries", "Exmex.Props.C05", "Exmex.Props.C09", "Exmex.Props.C02Deep", "Exmex.Props.C03"],
        theorems=["Exmex.Tie.diff_rule_names", "Exmex.Reach.reach_inv", "Exmex.Reach.reach_partial_sound", "Exmex.C05.partial_sound", "Exmex.C05.partial_norule", "Exmex.C05.Demo.demo", "Exmex.C09.partial_preserves", "Exmex.C09.partialIter_sound_single",
                  "Exmex.C09.flat_partialIter_single_sound", "Exmex.C02.deep_compile_sound", "Exmex.C03.fromDeep_sound"],
        level_text=("kernel-checked (partial_sound): for every deep expression over + - * / ^ and the differentiable unary operators, every variable index and every "
                    "assignment, the expression returned by partial differentiation has the same variable list and evaluates to the derivative component of evaluating the "
                    "same expression over dual numbers with the textbook rules (Spec/Dual.lean: sum, product, quotient, general power rule, chain rule with the table of outer "
                    "derivatives), whenever the dual evaluation stays inside the domain of the rules (b != 0 for a/b, a != 0 for a^b), over any arithmetic satisfying the listed "
                    "laws of exact arithmetic (0+x, 1*x, x/1, x^1, x^0, 0/x, 0^e, commutative-associative *, no zero divisors); the engine (value/derivative pairs reduced in "
                    "priority order, chain rule along the unary composition, neutral-element shortcuts, sorted union of variables, folding) is covered, under the invariants "
                    "every API result satisfies (Named, Folded, Scoped; machine-checked counterexamples show each is needed). partial_norule: an operator without a rule makes "
                    "differentiation fail. Demo: the hypotheses are satisfiable (x*x over Nat). Not in the theorem: that dual numbers compute derivatives of real functions "
                    "(textbook), floats (rounding), higher orders as jets (each further derivative is again covered as a derivative of the previous expression). The model is tied "
                    "to the code by exact symbolic correspondence of the derivative expressions, and the implementation is judged against an independent reference "
                    "(symbolic textbook differentiation evaluated in f64) at tame points"),
        rule="expression trees over + - * / ^ (variable exponents), unary +/-, sqrt ln log log2 log10 exp and the (inverse) trigonometric and hyperbolic functions, plus 0-10% operators without rule; index sequences of length 0..3; flat and deep; previously differentiated and substituted expressions; symbolic: exact comparison of the derivative expression with the Lean model; f64: value of the derivative at 3 tame points against textbook differentiation; non-trivial = at least one differentiation step; distinct by request hash",
        kinds=[dict(kind="hist", quick=8000, thorough=60000, args=["diff"], corr=["pool", "steps"], oracle=[], oracle_const=[("varsbad", "-")], nontrivial=lambda req, A, B: "p:" in req.split("\t")[5]),
               dict(kind="histf", quick=10000, thorough=100000, args=["diff"], no_model=True, corr=[], oracle_const=[("r", "ok")], nontrivial=lambda req, A, B: "p:" in req.split("\t")[3])],
    ),
    "C09": dict(
        level="proof",
        modules=["Exmex.Props.FlatApi", "Exmex.Props.Reach", "Exmex.Props.ReachCorollaries", "Exmex.Props.C09", "Exmex.Props.C05", "Exmex.Props.C02Deep", "Exmex.Props.C03"],
        theorems=["Exmex.Reach.reach_inv", "Exmex.FlatApi.flat_partialIter_vars", "Exmex.FlatApi.flat_partialIter_index_error", "Exmex.Reach.reach_partial_vars", "Exmex.C09.partial_vars", "Exmex.C09.partial_preserves", "Exmex.C09.partialIter_index_error", "Exmex.C09.partialIter_ok_inrange",
                  "Exmex.C09.partialIter_nil", "Exmex.C09.partialIter_nil_sound", "Exmex.C09.partialIter_cons", "Exmex.C09.partialIter_replicate_succ",
                  "Exmex.C09.partialIter_sound_single", "Exmex.C09.partialIter_vars", "Exmex.C09.flat_partialIter_single_sound", "Exmex.C05.partial_sound"],
        level_text=("kernel-checked: partial_vars / partialIter_vars (a derivative lists exactly the variables of its antiderivative - purely structural, for any index "
                    "sequence, no arithmetic laws needed); partialIter_index_error / partialIter_ok_inrange (an index >= the number of variables is the error `index`, decided "
                    "before any work, for every sequence); partialIter_nil(_sound) (order zero = folding only: same value); partialIter_cons / go_append / "
                    "partialIter_replicate_succ (iterated = sequential in that order, n-th = n single steps); partial_preserves (the result satisfies every hypothesis of "
                    "partial_sound again, so each further derivative is covered by C05.partial_sound); partialIter_sound_single and flat_partialIter_single_sound (first "
                    "derivative through the public entry point, deep and flat - the flat one through to_deepex / from_deepex with the link invariants proved). Not proved: "
                    "symmetry of mixed partials (a fact about the functions denoted, judged numerically). The model is tied to the code by exact symbolic correspondence and "
                    "judged against the reference (error for an out-of-range index, variable list, sequential textbook derivatives)"),
        rule="as C05 with index sequences of length 0..3 incl. out-of-range entries (10%), repeated and mixed indices; the variable list of every derivative must equal that of its antiderivative (also after substitution), an out-of-range index must be an error; non-trivial = at least one differentiation step; distinct by request hash",
        kinds=[dict(kind="hist", quick=8000, thorough=60000, args=["diff"], corr=["pool", "steps"], oracle=[], oracle_const=[("varsbad", "-")], nontrivial=lambda req, A, B: "p:" in req.split("\t")[5]),
               dict(kind="histf", quick=10000, thorough=100000, args=["diff"], no_model=True, corr=[], oracle_const=[("r", "ok")], nontrivial=lambda req, A, B: "p:" in req.split("\t")[3])],
    ),
    "C18": dict(
        level="proof",
        modules=["Exmex.Props.Tie", "Exmex.Props.C18", "Exmex.Props.C18Dual", "Exmex.Props.C05", "Exmex.Props.C16"],
        theorems=["Exmex.Tie.diff_rule_names", "Exmex.C18.cmp_untouched", "Exmex.C18.piecewise_if", "Exmex.C18.piecewise_else", "Exmex.C18.no_rule_is_error", "Exmex.C16.if_else",
                  "Exmex.C18.cmp_carried", "Exmex.C18.piecewise_dual", "Exmex.C18.partial_sound_piecewise", "Exmex.C05.partial_sound"],
        level_text=("kernel-checked: C05.partial_sound covers expressions with comparisons and `if`/`else` (the dual-number reference carries a comparison unchanged and "
                    "differentiates `x if c`, `y else z` operand-wise); cmp_carried, piecewise_dual: for `(a if c) else b` with a carried condition the reference value and "
                    "derivative are those of the branch the condition selects (given what `if`/`else` compute on the value type: PWLaws); partial_sound_piecewise: hence the "
                    "derivative expression of `a if c else b` evaluates to a' where c holds and to b' where it does not. Arithmetic on the value type is not exact arithmetic "
                    "(error values), so the laws are assumptions about the points considered. Also: the rule table treats comparisons as carried conditions and `if`/`else` per operand (C18 module), and `a if c else b` selects by the "
                    "truth of c (C16.if_else); the derivative engine of the model is tied to partial.rs by exact symbolic correspondence on piecewise expressions; the "
                    "implementation is judged numerically on the real value type against branch-wise textbook differentiation at points off the branch boundaries"),
        rule="nested piecewise expressions `f if cond else g` with arithmetic around them, ints and floats mixed, comparison conditions that depend on a variable; parse_val(..).partial_iter(idxs).eval(point) at 3 tame points (>= 1e-3 away from every comparison boundary) against branch-wise textbook derivatives, order 1 and 2; comparisons at top level must stay untouched; plus the symbolic correspondence of the rule table (hist, piecewise profile); non-trivial = contains a piecewise or comparison node; distinct by request hash",
        kinds=[dict(kind="valdiff", quick=12000, thorough=400000, no_model=True, corr=[], oracle_const=[("r", "ok")], nontrivial=lambda req, A, B: b" if " in bytes.fromhex(req.split("\t")[1]) or A.get("judged", "0") != "0"),
               dict(kind="hist", quick=6000, thorough=60000, args=["val"], corr=["pool", "steps"], oracle=[], oracle_const=[("varsbad", "-")], nontrivial=lambda req, A, B: "p:" in req.split("\t")[5])],
    ),
    "C19": dict(
        level="translation_validation",
        modules=["Exmex.Props.C19", "Exmex.Props.Tie", "Exmex.Props.C16Table"],
        theorems=["Exmex.C19.float_table_matches_doc", "Exmex.C19.float_table_names_nodup", "Exmex.C16.float_runtime_matches_source"],
        level_text=("the operator table of FloatOpsFactory::make() is re-extracted from the source text on every run (name, role, closure body, priority, flag) and proved "
                    "equal to the documented table by the Lean kernel (decide); that a closure which is the primitive call computes the primitive is Rust semantics, cross-checked "
                    "bit for bit at run time for f32 and f64 on an exhaustive special-value catalogue and random values, directly and through parsed expressions"),
        technique="Lean 4 table theorem over source-extracted data + exhaustive bitwise cross-check",
        rule="every operator and constant of the default table x {f32, f64} x special values {0, -0, +-1, subnormal, min normal, huge, +-inf, NaN, ...} (22 values; binary: all ordered pairs) exhaustively, random finite values across magnitudes; applied directly (Operator::bin/unary/constant) and through FlatEx::parse in infix, call and juxtaposition form and eval_str; bitwise comparison with an independent name->std primitive table; programs = operator applications; distinct by request hash; three-term chains `t0 o t1 o t2` of one table operator (one variable, two literals; folded, unfolded and deep) against the operator function applied left to right - only operators documented as re-associable may be regrouped",
        kinds=[dict(kind="fopx", quick=8988, thorough=8988, no_model=True, corr=[], oracle_const=[("r", "ok")], nontrivial=always),
               dict(kind="fop", quick=20000, thorough=1000000, no_model=True, corr=[], oracle_const=[("r", "ok")], nontrivial=always),
               # the flags of the table as the evaluator uses them: x - 2 - 3 is (x - 2) - 3
               dict(kind="chain3", quick=20000, thorough=400000, no_model=True, corr=[], oracle_const=[("r", "ok")], nontrivial=always)],
    ),
    "C20": dict(
        level="other",
        modules=["Exmex.Props.C20"],
        theorems=["Exmex.C20.schedule_independent", "Exmex.C20.eval_does_not_modify"],
        level_text=("partial: in the Lean model parse and eval are functions of immutable values, so every interleaving returns the sequential results (schedule_independent, "
                    "kernel-checked but true by purity); that the implementation is such a function is decided by rustc (Send + Sync static assertions in the harness, which "
                    "fail to compile otherwise), by a source scan for interior mutability, and by a concurrent history check (2/8/16 threads, shared Arc expressions, first-use "
                    "regex initialisation raced in a fresh process per round); no exploration of interleavings"),
        technique="purity theorem in Lean + rustc Send/Sync assertions + concurrent history check",
        explanation="C20 is the weakest fit for a Lean proof: the model is pure by construction. The check = (1) kernel-checked schedule-independence of the model, (2) compile-time Send+Sync assertions for FlatEx<f64>, FlatEx<f32>, DeepEx<'static,f64>, FlatExVal<i32,f64>, FlatEx<Sym>; the harness does not build if they fail, (3) source scan of /repo/src for Cell|RefCell|Mutex|Atomic|UnsafeCell|static mut|thread_local (reported in evidence; only lazy_static regexes expected), (4) rounds of concurrent parse+eval histories compared with a sequential run of the same operations in the same process.",
        rule="rounds with 2, 8 and 16 threads released by a barrier in a fresh process (first parse of the process is concurrent), 40 mixed operations per thread (flat/deep/value parse + eval, eval of shared Arc<FlatEx>/Arc<DeepEx>), compared with the sequential run; shared expressions compared before/after; non-trivial = every round; distinct by request hash",
        kinds=[dict(kind="threads", quick=150, thorough=4000, no_model=True, corr=[], oracle_const=[("r", "ok")], nontrivial=always)],
    ),
    "C06": dict(
        level="proof",
        modules=["Exmex.Props.C06Total", "Exmex.Props.C07", "Exmex.Props.C14", "Exmex.Props.C02", "Exmex.Props.C02Deep", "Exmex.Props.C17"],
        theorems=["Exmex.C06.flat_parse_no_panic", "Exmex.C06.deep_parse_no_panic", "Exmex.C06.flat_eval_no_panic", "Exmex.C06.deep_eval_no_panic",
                  "Exmex.C14.evalNumbers_any_order", "Exmex.C02.compile_sound", "Exmex.C02.deep_compile_sound", "Exmex.C02.deep_new_sound",
                  "Exmex.C17.valBin_total", "Exmex.C17.valUn_total"],
        level_text=("kernel-checked: the model has an explicit panic outcome at every indexing / unwrap / unsigned-subtraction site of the parsers, the folding loops, the "
                    "bit trackers and the evaluators, and at the exhaustion of its own fuel. flat_parse_no_panic, deep_parse_no_panic: for EVERY text, operator table, literal "
                    "matcher and interpretation - no hypothesis at all - parse, parse_wo_compile and DeepEx::parse return an expression or a proper error, never a panic (in "
                    "particular the deep recursion always terminates within the model's fuel); flat_eval_no_panic, deep_eval_no_panic: evaluating anything they accept never "
                    "panics (strict, relaxed, consuming entry points; any number of operands incl. the multi-word tracker). Val operators: valBin_total / valUn_total (C17). "
                    "Outside the theorems and covered by the correspondence run: the faithfulness of the model's panic sites (exhaustive short strings over a 14-symbol alphabet, "
                    "token soup, mutated texts, 1000-token / depth-100 texts, every parsing entry point incl. f64, Val and statements under catch_unwind, follow-up calls on "
                    "everything accepted), panics inside user-supplied operator closures, allocation failure, and stack consumption (a run-time check: one call per child process on a 2 MiB thread; KNOWN-FINDING D11)"),
        rule="all strings up to length 4 (thorough: 5) over {a,1,.,+,-,*,s,m,(,),comma,{,},space} exhaustively; random strings, token soup with unicode/control characters, mutated well-formed texts, texts of ~1000 tokens nested up to 100 deep; 16 entry points x 4 depths x 4 nesting styles in isolated processes for stack use; non-trivial = text of at least 3 characters; distinct by request hash",
        kinds=[dict(kind="crashx", quick=41371, thorough=579195, corr=["r", "fu"], oracle_const=[("r", "[oe]{3}"), ("fu", "[oe-]*"), ("x", "ok")],
                    nontrivial=lambda req, A, B: len(req.split("\t")[3]) >= 6),
               dict(kind="crash", quick=12000, thorough=400000, corr=["r", "fu"], oracle_const=[("r", "[oe]{3}"), ("fu", "[oe-]*"), ("x", "ok")],
                    nontrivial=lambda req, A, B: len(req.split("\t")[3]) >= 6),
               dict(kind="stack", quick=256, thorough=256, single=True, no_model=True, corr=[], oracle_const=[("r", "ok")], nontrivial=always),
               # the value type: every operator on every pair of kinds / boundary values, and literal-rich value
               # expressions (constant folding runs the operators inside the parser): never a panic
               dict(kind="valopx", quick=72012, thorough=72012, corr=["r"], oracle_const=[("r", "(?!PANIC).*")], norm=val_norm, nontrivial=always),
               dict(kind="valexpr", quick=12000, thorough=400000, corr=["p", "r"], oracle_const=[("r", "(?!PANIC).*"), ("p", "(?!PANIC).*")], norm=valexpr_norm, nontrivial=always)],
    ),
    "C16": dict(
        level="proof",
        modules=["Exmex.Props.C16", "Exmex.Props.C16Table", "Exmex.Props.C01Parse"],
        theorems=["Exmex.C16.val_table_matches_doc", "Exmex.C16.val_bin_names", "Exmex.C16.val_un_names", "Exmex.C16.val_flagged", "Exmex.C01.parse_eval_eq_denote", "Exmex.C16.int_add", "Exmex.C16.int_div", "Exmex.C16.int_rem", "Exmex.C16.promote_left", "Exmex.C16.promote_right",
                  "Exmex.C16.eq_int_float", "Exmex.C16.eq_mismatch", "Exmex.C16.ord_mismatch", "Exmex.C16.error_absorbs", "Exmex.C16.unary_error", "Exmex.C16.if_else"],
        level_text=("kernel-checked over abstract floats: the typing table of the value type (int op int stays int with checked overflow, int/float promotes, comparisons across kinds, error absorption, if/else selection, bit operators on ints only ...: 17 table theorems plus val_table_matches_doc over the operator table extracted from the running library: names, priorities, flags); every operator on every pair of kinds and boundary values is compared with the model bit by bit at run time"),
        rule="every unary operator of ValOpsFactory x every catalogue value and every binary operator x every ordered pair of catalogue values (17 ints incl. MIN/MAX/0/-1, 23 floats incl. NaN/inf/-0.0/subnormal/huge/int-range boundaries, bools, 7 arrays of length 0..5, none, error): 72012 applications, exhaustive; plus random operands; results compared by kind and bit pattern (NaN payload ignored, libm-backed functions to 9 digits); non-trivial = binary application; distinct by request hash; three-term chains `t0 o t1 o t2` of one table operator (one variable, two literals; folded, unfolded and deep) against the operator function applied left to right - only operators documented as re-associable may be regrouped",
        kinds=[dict(kind="valopx", quick=72012, thorough=72012, corr=["r"], oracle=[("r", "r")], norm=val_norm, nontrivial=lambda req, A, B: req.split("\t")[1] == "bin"),
               dict(kind="valop", quick=20000, thorough=1000000, corr=["r"], oracle=[("r", "r")], norm=val_norm, nontrivial=lambda req, A, B: req.split("\t")[1] == "bin"),
               dict(kind="valexpr", quick=20000, thorough=600000, corr=["p", "vars", "r"], oracle=[("r", "r"), ("p", "p")], norm=valexpr_norm, nontrivial=lambda req, A, B: len(req.split("\t")[1]) >= 16),
               # t0 o t1 o t2 with one operator of the built-in tables (one variable, two literals): left to right
               # unless the documentation flags the operator as re-associable (flat folded/unfolded, deep)
               dict(kind="chain3", quick=20000, thorough=400000, no_model=True, corr=[], oracle_const=[("r", "ok")], nontrivial=always)],
    ),
    "C17": dict(
        level="proof",
        modules=["Exmex.Props.C17"],
        theorems=["Exmex.C17.valBin_total", "Exmex.C17.valUn_total", "Exmex.C17.neg_min", "Exmex.C17.abs_min", "Exmex.C17.rem_min_neg_one", "Exmex.C17.to_int_invalid"],
        level_text=("kernel-checked: valBin_total / valUn_total - every binary and unary operator of the value type returns a value (possibly Val::Error) for every pair of operands over abstract floats: each trap site of the code (overflowing arithmetic, MIN / -1, MIN % -1, -MIN, abs(MIN), shifts, casts, array index) is a panic branch of the model and none is reachable; the harness runs with overflow checks on"),
        rule="the C16 catalogue run under catch_unwind: no operator of the value table may panic for any operand (72012 applications exhaustive + random operands); the same values through parse_val literals folded at parse time and through variables; non-trivial = every application; distinct by request hash",
        kinds=[dict(kind="valopx", quick=72012, thorough=72012, corr=["r"], oracle_const=[("r", "(?!PANIC).*")], norm=val_norm, nontrivial=always),
               dict(kind="valop", quick=20000, thorough=1000000, corr=["r"], oracle_const=[("r", "(?!PANIC).*")], norm=val_norm, nontrivial=always),
               dict(kind="valexpr", quick=20000, thorough=600000, corr=["p", "r"], oracle_const=[("r", "(?!PANIC).*"), ("p", "(?!PANIC).*")], norm=valexpr_norm, nontrivial=always)],
    ),
    "C07": dict(
        level="proof",
        modules=["Exmex.Props.C07", "Exmex.Props.C07Balance", "Exmex.Proofs.BalanceCex"],
        theorems=["Exmex.C07.flat_rejects_frontEnd", "Exmex.C07.deep_rejects_frontEnd", "Exmex.C07.blank_rejected",
                  "Exmex.C07.trailing_operator_rejected", "Exmex.C07.unbalanced_rejected", "Exmex.C07.adjacent_operands_rejected",
                  "Exmex.C07.unknown_rejected", "Exmex.C07.flat_count", "Exmex.C07.lexLoop_balance",
                  "Exmex.C07.unbalanced_text_rejected", "Exmex.C07.accepted_balanced", "Exmex.C07.dipped_iff",
                  "Exmex.BalanceCex.repaired₁", "Exmex.BalanceCex.repaired₂", "Exmex.BalanceCex.nonempty_needed"],
        level_text=("kernel-checked: unbalanced_text_rejected / accepted_balanced - EVERY text whose parentheses (outside braces) do not balance is rejected by all three parsers (tables with non-empty, paren-free operator names); blank_rejected, trailing_operator_rejected, unknown_rejected, adjacent_operands_rejected, flat_count (operand count = binary operator count + 1 for whatever is accepted), flat/deep_rejects_frontEnd; the proof attempt of the first statement found defect D12 (repaired)"),
        rule="well-formed renderings damaged at one point (delete/insert one parenthesis, append a binary operator, extra operand beside an operand, illegal character, blank text) x random tables; FlatEx::parse, parse_wo_compile, DeepEx::parse must all reject; non-trivial = damaged text of at least 3 characters; distinct by request hash",
        kinds=[dict(kind="damage", quick=30000, thorough=800000, corr=["r"], oracle_const=[("r", "eee")],
                    nontrivial=lambda req, A, B: len(req.split("\t")[3]) >= 6)],
    ),
    "C08": dict(
        level="proof",
        modules=["Exmex.Props.C08", "Exmex.Props.C08Any"],
        theorems=["Exmex.C08.call_any", "Exmex.C08.infix_any", "Exmex.C08.skip_of_balanced", "Exmex.C08.call_tokens", "Exmex.C08.call_tokens_dipped", "Exmex.C08.feed_comma_dipped", "Exmex.C08.call_tokens_init", "Exmex.C08.lexStep_comma"],
        level_text=("kernel-checked: call_tokens - the raw tokens of any well-formed expression with calls `op ( a , b )` at any nesting and position are rewritten to exactly the canonical tokens `( ( a ) op ( b ) )`, restoring depth and the stack of owed parentheses; call_any / infix_any - the same for ARBITRARY closed argument token sequences; lexStep_open/close/comma tie the token-level machine to the character-level tokenizer; with C01 the value is that of the infix form"),
        rule="expressions in which 25-60% of the operand positions are calls op(a, b) (alphabetic and symbolic binary-only operators), rendered in call form, nested in first and second arguments, inside parentheses and under unary operators, depth up to 6; the implementation's token stream must equal the canonical tokens ((a) op (b)) and the value the documented one; non-trivial = at least one call and two operators; distinct by request hash",
        kinds=[dict(kind="flat", quick=20000, thorough=500000, args=["calls"],
                    corr=["toksimpl", "wo", "c", "vars"], oracle=[("toksimpl", "stoks"), ("wo_nf", "spec_nf"), ("c_nf", "spec_nf")],
                    guards=["render", "toks"],
                    nontrivial=lambda req, A, B: " C " in (" " + req.split("\t")[4] + " ") and n_binops(req.split("\t")[4]) >= 2)],
    ),
    "C13": dict(
        level="proof",
        modules=["Exmex.Props.C13", "Exmex.Props.C13Lex"],
        theorems=["Exmex.C13.isNumericText_spec", "Exmex.C13.findOps_sound", "Exmex.C13.findOps_longest",
                  "Exmex.C13.name_continued_not_matched", "Exmex.C13.exact_name_matched", "Exmex.C13.sign_role", "Exmex.C13.brace_var",
                  "Exmex.C13.tokenize_render_spaced", "Exmex.C13.tokText_braced", "Exmex.C13.tokText_lit", "Exmex.C13.tokText_op", "Exmex.C13.tokText_ident"],
        level_text=("kernel-checked: findOps_sound / findOps_longest (longest eligible name wins, for every table), name_continued_not_matched / exact_name_matched (identifier continuation), sign_role (a sign is unary exactly at the start or after an operator or opening parenthesis), isNumericText_spec (digits with at most one dot), brace_var (anything in braces is one variable), tokenize_render_spaced and the tokText lemmas (character level); the implementation is additionally judged against a reference tokenizer written from the statement"),
        rule="token streams of tokenize_and_analyze (hook) vs the Lean tokenizer and vs a reference tokenizer written in the harness from the statement (longest eligible name, identifier continuation, literal and brace rules; commas and unclosed braces not judged): operator/constant names extended and truncated by identifier and non-identifier characters in several left contexts, sign chains, literal spellings over {0,1,.}, braces with arbitrary content, call fragments, token soup; random tables with prefix-related names; plus well-formed renderings (flat kind) whose token stream must equal the canonical tokens of the chain; non-trivial = text of at least 2 characters; distinct by request hash",
        kinds=[dict(kind="lex", quick=30000, thorough=600000, corr=["toks"], oracle=[], oracle_const=[("ref", "ok")], nontrivial=lambda req, A, B: len(req.split("\t")[3]) >= 4),
               # the tokens, and what the parser makes of them (which signs are unary): value of the documented reading
               dict(kind="flat", quick=8000, thorough=200000, corr=["wo", "vars"],
                    oracle=[("toksimpl", "stoks"), ("wo_nf", "spec_nf", ["toks"]), ("c_nf", "spec_nf", ["toks"])],
                    guards=["render"], nontrivial=flat_nontrivial)],
    ),
    "C15": dict(
        level="proof",
        modules=["Exmex.Props.C15"],
        theorems=["Exmex.C15.consumeNodes_spec", "Exmex.C15.consuming_eq_cloning"],
        level_text=("kernel-checked: consumeNodes_spec / consuming_eq_cloning - for every flat expression and every value slice the consuming evaluation (eval_vec / eval_iter) returns the value of the borrowing one and clones each variable exactly (occurrences - 1) times; flat_eval_no_panic covers whatever the parsers accept"),
        rule="flat generator (random tables, chains with repeated variables, folded and unfolded); eval_vec on a clone-counting data type whose Default is a visible hole; non-trivial = at least two binary operators; distinct by request hash; every number of handed-over values 0..n+3 against `eval` on a slice of that length (value or error alike)",
        kinds=[dict(kind="flat", quick=24000, thorough=600000, args=["vars_repeat"],
                    corr=["cons", "c", "vars"], oracle=[("cons_nf", "spec_nf"), ("wcons_nf", "spec_nf"), ("witer_nf", "spec_nf"), ("clones", "sclones")],
                    guards=["render", "toks"], nontrivial=flat_nontrivial),
               # every number of values 0..n+3: the consuming entry points return a value or an error exactly
               # when `eval` on a slice of that length does; with the exact length, the same value
               dict(kind="vars", quick=6000, thorough=150000, corr=["vars", "ar"], oracle=[("ar", "sar")],
                    oracle_const=[("bind", "ok"), ("consume", "ok")], guards=["render", "toks"],
                    nontrivial=lambda req, A, B: A.get("vars", "").count(",") >= 1)],
    ),
    "C14": dict(
        level="proof",
        modules=["Exmex.Props.C14"],
        theorems=["Exmex.C14.evalBinary_word_any_order", "Exmex.C14.evalBinary_words_any_order", "Exmex.C14.evalNumbers_any_order"],
        level_text=("kernel-checked: evalBinary_word_any_order / evalBinary_words_any_order / evalNumbers_any_order - for every duplicate-free order of the operators and every number of operands, the single-word and the multi-word bit tracker find exactly the neighbouring unconsumed operands (refinement of the bit trackers to a list of flags); the choice of tracker by the public evaluation path is exercised at the word boundaries at run time"),
        rule="eval_binary through the hook: all 46233 orders of 1..8 operators (exhaustive), structured and random orders for 3..1000 operands incl. both sides of 64/128/192/256; NumberTracker (usize, [usize] of 1..5 words) driven with random legal get_previous/get_next/ignore sequences; non-trivial = at least 3 operands / at least one query; distinct by request hash",
        kinds=[dict(kind="bigeval", quick=48, thorough=600, no_model=True, corr=[], oracle_const=[("r", "ok")], nontrivial=always),
               dict(kind="flat", quick=3000, thorough=60000, args=["sizes"], corr=["wo", "vars"],
                    oracle=[("wo_nf", "spec_nf"), ("c_nf", "spec_nf"), ("wcons_nf", "spec_nf")], guards=["render", "toks"], nontrivial=flat_nontrivial),
               
            dict(kind="orderx", quick=46233, thorough=46233, single=True, corr=["w", "ws"], oracle=[("w", "spec"), ("ws", "spec")], nontrivial=order_nontrivial),
            dict(kind="order", quick=4000, thorough=60000, corr=["w", "ws"], oracle=[("w", "spec"), ("ws", "spec")], nontrivial=order_nontrivial),
            dict(kind="track", quick=4000, thorough=100000, corr=["r"], oracle=[("r", "flags")], nontrivial=always),
        ],
    ),
}
