#!/usr/bin/env python3
"""Prints the markdown table of seeded changes (DESIGN.md section 9) from seeded/*/meta.json."""
import json, glob, os, re
rows = []
SUM = json.load(open("/verif/seeded/SUMMARIES.json"))
for d in sorted(glob.glob("/verif/seeded/*/")):
    m = json.load(open(d + "meta.json"))
    note = open(d + "note.md").read() if os.path.exists(d + "note.md") else ""
    ch = re.search(r"\*\*Change\*?\*?[^:]*:?\*?\*?\s*(.*)", note)
    change = SUM.get(os.path.basename(d.rstrip("/")), (ch.group(1) if ch else note.strip().split("\n")[0])[:230]).replace("|", "/").strip()
    files = sorted(set(re.findall(r"^\+\+\+ b/(\S+)", open(d + "patch.diff").read(), re.M)))
    rows.append((os.path.basename(d.rstrip("/")), m["property"], ", ".join(files), change,
                 m.get("pinned_suite_with_change", "?"), ", ".join(m.get("detected_by", [])) or "-",
                 ", ".join(m.get("detected_with_failing_input", [])) or "-"))
print("| seeded change | property | file(s) | what it does | pinned suite with it | detected by | with a failing input |")
print("|---|---|---|---|---|---|---|")
for r in rows:
    print("| " + " | ".join(r) + " |")
