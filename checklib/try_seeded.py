#!/usr/bin/env python3
"""Confirms a seeded change produced by an independent agent and runs our checks against it.

usage: try_seeded.py <worktree dir, e.g. /tmp/mut/C05> <property id> [more property ids to run]

1. in the scratch worktree: demo passes on the unchanged code, the pinned suite passes with the
   change, the demo fails with the change;
2. in /repo: apply the patch, run ./check <id> --tier quick (and the extra ids), undo the patch;
3. store patch.diff, demo.rs, note.md and meta.json under /verif/seeded/<name>/.
"""
import sys, os, subprocess, json, shutil, re

def sh(cmd, cwd=None, timeout=3600):
    p = subprocess.run(cmd, cwd=cwd, shell=isinstance(cmd, str), stdout=subprocess.PIPE, stderr=subprocess.STDOUT, text=True, timeout=timeout,
                       env=dict(os.environ, CARGO_NET_OFFLINE="true"))
    return p.returncode, p.stdout

wt = sys.argv[1].rstrip("/")
pid = sys.argv[2]
extra = sys.argv[3:]
name = os.environ.get("SEED_NAME", pid + "-" + os.path.basename(wt))
out = os.path.join(wt, "out")
patch = os.path.join(out, "patch.diff")
demo = os.path.join(out, "demo.rs")
meta = dict(property=pid, source="independent sub-agent, given only the property text and a scratch worktree", worktree=wt)
assert os.path.exists(patch) and os.path.exists(demo), "patch.diff / demo.rs missing"

# 1. confirm in the scratch worktree
sh("git checkout -- src", cwd=wt)
shutil.copy(demo, os.path.join(wt, "tests", "demo_seeded.rs"))
rc, o = sh("cargo test --offline --all-features --test demo_seeded 2>&1 | tail -15", cwd=wt)
meta["demo_without_change"] = "passes" if re.search(r"test result: ok", o) and "FAILED" not in o else "DOES NOT PASS"
rc, o = sh("git apply " + patch, cwd=wt)
meta["patch_applies"] = rc == 0
os.remove(os.path.join(wt, "tests", "demo_seeded.rs"))
rc, o = sh("cargo test --workspace --no-fail-fast --offline 2>&1 | grep -E '^test result|FAILED|^error' ", cwd=wt)
passed = sum(int(m) for m in re.findall(r"(\d+) passed", o))
failed = sum(int(m) for m in re.findall(r"(\d+) failed", o))
meta["pinned_suite_with_change"] = "%d passed, %d failed" % (passed, failed)
rc, o = sh("cargo test --offline --all-features 2>&1 | grep -E '^test result|FAILED'", cwd=wt)
meta["all_features_suite_with_change"] = "%d passed, %d failed" % (sum(int(m) for m in re.findall(r"(\d+) passed", o)), sum(int(m) for m in re.findall(r"(\d+) failed", o)))
shutil.copy(demo, os.path.join(wt, "tests", "demo_seeded.rs"))
rc, o = sh("cargo test --offline --all-features --test demo_seeded 2>&1 | tail -25", cwd=wt)
meta["demo_with_change"] = "fails" if ("FAILED" in o or "panicked" in o or "error" in o.lower()) and not re.search(r"test result: ok", o) else "DOES NOT FAIL"
os.remove(os.path.join(wt, "tests", "demo_seeded.rs"))
valid = meta["demo_without_change"] == "passes" and meta["patch_applies"] and failed == 0 and passed >= 38 and meta["demo_with_change"] == "fails"
meta["confirmed"] = valid

# 2. our checks against the change
results = {}
if valid:
    rc, o = sh("git -C /repo status --short -- src | head -3")
    assert o.strip() == "", "/repo has uncommitted changes"
    rc, o = sh("git -C /repo apply " + patch)
    # the evidence files describe the unchanged tree: keep them, the runs below overwrite them
    saved = {}
    for i in [pid] + extra:
        ev = "/verif/evidence/%s.json" % i
        if os.path.exists(ev):
            saved[ev] = open(ev).read()
    try:
        for i in [pid] + extra:
            rc, o = sh(["./check", i, "--tier", "quick"], cwd="/verif", timeout=3000)
            lines = [l for l in o.split("\n") if l.startswith("VIOLATION") or l.startswith("KNOWN") or " tier=" in l or l.startswith("PROOF-PROBLEM")]
            results[i] = dict(exit=rc, lines=[l[:300] for l in lines[:6]])
            rep = re.findall(r"replay=(\S+)", o)
            if rep and os.path.exists(rep[0]):
                r = json.load(open(rep[0]))
                results[i]["replay_example"] = dict(readable=r.get("readable"), oracle_mismatch=(r.get("oracle_mismatch") or [])[:2], kind=r.get("kind"))
    finally:
        sh("git -C /repo checkout -- .")
        for ev, content in saved.items():
            open(ev, "w").write(content)
meta["checks"] = results
meta["detected_by"] = [i for i, r in results.items() if r["exit"] == 1 and any(l.startswith("VIOLATION") for l in r["lines"])]
meta["detected_with_failing_input"] = [i for i, r in results.items() if any(l.startswith("VIOLATION") and "no-failing-input-found" not in l for l in r["lines"])]

# 3. store
dst = os.path.join("/verif/seeded", name)
os.makedirs(dst, exist_ok=True)
shutil.copy(patch, os.path.join(dst, "patch.diff"))
shutil.copy(demo, os.path.join(dst, "demo.rs"))
if os.path.exists(os.path.join(out, "note.md")):
    shutil.copy(os.path.join(out, "note.md"), os.path.join(dst, "note.md"))
    meta["needs_to_manifest"] = open(os.path.join(out, "note.md")).read()[:1500]
meta["what_was_run"] = ["cargo test --offline --all-features --test demo_seeded (without / with change)", "cargo test --workspace --no-fail-fast --offline (with change)",
                        "git -C /repo apply patch.diff; ./check <id> --tier quick; git -C /repo checkout -- ."]
json.dump(meta, open(os.path.join(dst, "meta.json"), "w"), indent=1)
print(json.dumps({k: meta[k] for k in ["confirmed", "demo_without_change", "pinned_suite_with_change", "demo_with_change", "all_features_suite_with_change", "detected_by", "detected_with_failing_input"]}, indent=1))
for i, r in results.items():
    print(i, r["exit"], *r["lines"], sep="\n   ")
