#!/usr/bin/env python3
"""Re-runs checks against a stored seeded change (seeded/<name>/patch.diff) and refreshes the
`checks` / `detected_*` fields of its meta.json. Never run concurrently with other checks:
/repo is patched while this runs.

usage: recheck_seeded.py <name> [property ids; default: those recorded in meta.json]
"""
import sys, os, subprocess, json, re

def sh(cmd, cwd=None, timeout=3600):
    p = subprocess.run(cmd, cwd=cwd, shell=isinstance(cmd, str), stdout=subprocess.PIPE, stderr=subprocess.STDOUT, text=True, timeout=timeout,
                       env=dict(os.environ, CARGO_NET_OFFLINE="true"))
    return p.returncode, p.stdout

name = sys.argv[1]
dst = os.path.join("/verif/seeded", name)
meta = json.load(open(os.path.join(dst, "meta.json")))
ids = sys.argv[2:] or list(meta.get("checks", {}).keys()) or [meta["property"]]
rc, o = sh("git -C /repo status --short -- src | head -3")
assert o.strip() == "", "/repo has uncommitted changes"
saved = {}
for i in ids:
    ev = "/verif/evidence/%s.json" % i
    if os.path.exists(ev):
        saved[ev] = open(ev).read()
rc, o = sh("git -C /repo apply " + os.path.join(dst, "patch.diff"))
assert rc == 0, o
results = dict(meta.get("checks", {}))
try:
    for i in ids:
        rc, o = sh(["./check", i, "--tier", "quick"], cwd="/verif", timeout=3000)
        lines = [l for l in o.split("\n") if l.startswith("VIOLATION") or l.startswith("KNOWN") or " tier=" in l or l.startswith("PROOF-PROBLEM")]
        results[i] = dict(exit=rc, lines=[l[:300] for l in lines[:6]])
        rep = re.findall(r"replay=(\S+)", o)
        if rep and os.path.exists(rep[0]):
            r = json.load(open(rep[0]))
            results[i]["replay_example"] = dict(readable=r.get("readable"), oracle_mismatch=(r.get("oracle_mismatch") or [])[:2], kind=r.get("kind"))
finally:
    sh("git -C /repo checkout -- .")
    for ev, content in saved.items():
        open(ev, "w").write(content)
meta["checks"] = results
meta["detected_by"] = [i for i, r in results.items() if r["exit"] == 1 and any(l.startswith("VIOLATION") for l in r["lines"])]
meta["detected_with_failing_input"] = [i for i, r in results.items() if any(l.startswith("VIOLATION") and "no-failing-input-found" not in l for l in r["lines"])]
json.dump(meta, open(os.path.join(dst, "meta.json"), "w"), indent=1)
print(name, "detected_by", meta["detected_by"], "with input", meta["detected_with_failing_input"])
