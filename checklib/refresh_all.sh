#!/bin/sh
# Runs every quick check on the current tree (rewrites all evidence files) and validates them.
cd /verif || exit 1
git -C /repo status --short -- src | grep . && { echo "/repo has uncommitted changes"; exit 1; }
rc=0
for i in C01 C02 C03 C04 C05 C06 C07 C08 C09 C10 C11 C12 C13 C14 C15 C16 C17 C18 C19 C20; do
  ./check $i --tier quick 2>&1 | tail -1 | cut -c1-130 || rc=1
done
python3-vt - <<'PY'
import json, jsonschema, glob
es = json.load(open('/root/.vp/EVIDENCE.schema.json'))
for f in sorted(glob.glob('/verif/evidence/*.json')):
    d = json.load(open(f)); jsonschema.validate(d, es)
    c = d['coverage']
    assert c['discharged'] == c['obligations'] >= 1 and d['tier'] == 'quick', f
print('evidence ok')
PY
exit $rc
