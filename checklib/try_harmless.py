#!/usr/bin/env python3
"""Applies a behaviour-preserving rewrite (harmless/<name>.diff) to /repo, runs every quick check,
undoes the patch and records which checks raised an alarm (none should).
Never run concurrently with other checks.

usage: try_harmless.py <name> [property ids]
"""
import sys, os, subprocess, json, re
sys.path.insert(0, os.path.dirname(os.path.abspath(__file__)))
import props

def sh(cmd, cwd=None, timeout=3600):
    p = subprocess.run(cmd, cwd=cwd, shell=isinstance(cmd, str), stdout=subprocess.PIPE, stderr=subprocess.STDOUT, text=True, timeout=timeout,
                       env=dict(os.environ, CARGO_NET_OFFLINE="true"))
    return p.returncode, p.stdout

name = sys.argv[1]
ids = sys.argv[2:] or sorted(props.PROPS.keys())
patch = "/verif/harmless/%s.diff" % name
rc, o = sh("git -C /repo status --short -- src | head -3")
assert o.strip() == "", "/repo has uncommitted changes"
saved = {}
for i in ids:
    ev = "/verif/evidence/%s.json" % i
    if os.path.exists(ev):
        saved[ev] = open(ev).read()
rc, o = sh("git -C /repo apply " + patch)
assert rc == 0, o
res = {}
try:
    for i in ids:
        rc, o = sh(["./check", i, "--tier", "quick"], cwd="/verif", timeout=3000)
        lines = [l[:300] for l in o.split("\n") if l.startswith("VIOLATION") or " tier=" in l or l.startswith("PROOF-PROBLEM")]
        res[i] = dict(exit=rc, lines=lines[:5])
        print(i, rc, lines[-1] if lines else "", flush=True)
finally:
    sh("git -C /repo checkout -- .")
    for ev, content in saved.items():
        open(ev, "w").write(content)
out = "/verif/harmless/%s.result.json" % name
json.dump(dict(patch=os.path.basename(patch), alarms=[i for i, r in res.items() if r["exit"] != 0], checks=res), open(out, "w"), indent=1)
print(name, "alarms:", [i for i, r in res.items() if r["exit"] != 0])
