#!/usr/bin/env python3
"""Rewrites the seeded-changes table at the end of DESIGN.md (everything after the marker)."""
import subprocess
p = "/verif/DESIGN.md"
s = open(p).read()
marker = "<!-- SEEDED-TABLE -->"
i = s.rindex(marker)
tbl = subprocess.run(["python3", "/verif/checklib/seeded_table.py"], capture_output=True, text=True).stdout
open(p, "w").write(s[:i] + marker + "\n### Seeded changes\n\n" + tbl)
