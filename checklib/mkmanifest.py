#!/usr/bin/env python3
"""Regenerates MANIFEST.json from the registry (checklib/props.py)."""
import json, os, sys
sys.path.insert(0, os.path.dirname(os.path.abspath(__file__)))
import props

ROOT = os.path.dirname(os.path.dirname(os.path.abspath(__file__)))
ids = ["C%02d" % i for i in range(1, 21)]
claimed = [i for i in ids if i in props.PROPS]
checks = []
for i in claimed:
    P = props.PROPS[i]
    checks.append(dict(
        property_id=i, quick_cmd="./check %s --tier quick" % i, thorough_cmd="./check %s --tier thorough" % i,
        evidence_file="/verif/evidence/%s.json" % i, replay_cmd_template="./check %s --replay {path}" % i,
        engine="lean-model",
        level_claimed=dict(category=P["level"], text=P.get("level_text", props.DEFAULT_LEVEL_TEXT), design_ref="DESIGN.md §7 " + i),
        level_note=P.get("level_note", props.DEFAULT_LEVEL_NOTE),
        technique=P.get("technique", "Lean 4 proof + model/implementation correspondence")))
M = dict(
    version=1,
    setup_cmd="cd /verif/lean && lake build Exmex driver && cd /verif/harness && (cp -n /repo/Cargo.lock . ; CARGO_NET_OFFLINE=true cargo build --release --offline --bin exmex-verif-harness && CARGO_NET_OFFLINE=true cargo build --release --offline --bin exmex-verif-threads --features threads)",
    hooks=dict(guard="exmex_verif",
               enable="RUSTFLAGS='--cfg exmex_verif' (set in /verif/harness/.cargo/config.toml; the harness depends on /repo by path)",
               baseline_off_cmd="cd /repo && cargo test --workspace --no-fail-fast --offline",
               source_commits=["c5a2dbd"], add_only=True),
    engines=[dict(name="lean-model", path="/verif/lean", serves_properties=claimed,
                  kind_free_text="Lean 4 model + spec + kernel-checked theorems; native driver for the correspondence run"),
             dict(name="harness", path="/verif/harness", serves_properties=claimed,
                  kind_free_text="Rust harness running the real library in-process (free term algebra data type, f64, Val)")],
    checks=checks,
    notes="see DESIGN.md; known_findings.json lists repaired defects (fixed entries suppress nothing)",
    not_applicable=[dict(property_id=i, reason=props.NOT_YET.get(i, "check under construction in this session (not yet registered)")) for i in ids if i not in claimed])
json.dump(M, open(os.path.join(ROOT, "MANIFEST.json"), "w"), indent=1)
print("claimed:", " ".join(claimed))
