use exmex::prelude::*;
use exmex::{DeepEx, Differentiate, parse_val, Val};
use std::panic::catch_unwind;
fn main() {
    std::panic::set_hook(Box::new(|_| {}));
    // C07: accepted-unbalanced
    for s in ["max(a, min(b, c)))", "(* a)(b)", "{abc", "{}", "a b", "2 3", "(2)(3)", "max(1,2,3)", "a\tb", "sin()", "sin(,)", "max(,1)", "max(1,)", "(1,2)", "1,2", "max 1,2", "+", "(+)", "((1))", "1 2 +", "-", "a -", "sin", "sin cos", "2sin(x)", "x y +", "min(max(1,2),min(3,4))", "min(1,max(2,min(3,4)))"] {
        let f = catch_unwind(|| FlatEx::<f64>::parse(s).map(|e| (e.var_names().to_vec(), e.eval(&vec![2.0; e.var_names().len()]))));
        let d = catch_unwind(|| DeepEx::<f64>::parse(s).map(|e| (e.var_names().to_vec(), e.eval(&vec![2.0; e.var_names().len()]))));
        println!("{:28} flat={:?}\n{:28} deep={:?}", s, f.map(|r| r.map_err(|e| e.msg().chars().take(50).collect::<String>())), "", d.map(|r| r.map_err(|e| e.msg().chars().take(50).collect::<String>())));
    }
    // C13
    for s in ["sin4", "sin 4", "PI5", "Erwin", "expx", "maxi", "minimum", "atan2x", "log2 8", "log10 100", "log 8", "e2", "ex", "2e", "sinπ", "x max y", "xmaxy", "x max2", "1.", ".5", "1.2.3", "1..2", "--1", "-+-1", "2--1", "2-(-1)", "(-1)", "2*-1", "2^-1", "-2^2", "sin-1", "sin -x", "-sin x", "a-sin x", "cos sin x", "e", "E", "π"] {
        let f = catch_unwind(|| FlatEx::<f64>::parse(s).map(|e| (e.var_names().to_vec(), e.eval(&vec![2.0; e.var_names().len()]))));
        println!("{:12} {:?}", s, f.map(|r| r.map_err(|e| e.msg().chars().take(60).collect::<String>())));
    }
    // C09/C05 basics
    for (s, i) in [("x*y", 0usize), ("x*y", 2), ("sin(x)^y", 1), ("abs(x)", 0), ("x min y", 0), ("x/y/2", 0), ("x^2/4/2", 0), ("x-1-3", 0), ("2^x", 0), ("cbrt(x)", 0)] {
        let f = FlatEx::<f64>::parse(s).unwrap();
        let r = catch_unwind(|| f.clone().partial(i).map(|d| (d.unparse().to_string(), d.var_names().to_vec(), d.eval(&vec![1.5; d.var_names().len()]))));
        println!("d/d{} {:10} = {:?}", i, s, r.map(|r| r.map_err(|e| e.msg().chars().take(60).collect::<String>())));
    }
    let f = FlatEx::<f64>::parse("x*y").unwrap();
    println!("nth0 {:?}", f.clone().partial_nth(0, 0).map(|d| d.unparse().to_string()));
    println!("nth0 bad idx {:?}", f.clone().partial_nth(5, 0).map(|d| d.unparse().to_string()));
    println!("iter [0,5] {:?}", f.clone().partial_iter([0usize,5].iter().copied()).map(|d| d.unparse().to_string()).map_err(|e| e.msg().to_string()));
    // C18
    let e = parse_val::<i32,f64>("3*x if x > 1 else x^2").unwrap();
    let d = e.clone().partial(0);
    println!("C18 {:?}", d.as_ref().map(|d| d.unparse().to_string()).map_err(|e| e.msg().to_string()));
    if let Ok(d) = d { for x in [0.5, 7.0] { println!("   at {} -> {:?}", x, d.eval(&[Val::Float(x)])); } }
    // C10
    let a = FlatEx::<f64>::parse("x+1").unwrap(); let b = FlatEx::<f64>::parse("y*a").unwrap();
    let c = a.clone().operate_binary(b.clone(), "/").unwrap();
    println!("C10 {} vars {:?} val {:?}", c.unparse(), c.var_names(), c.eval(&[2.0, 3.0, 4.0]));
    println!("C10 unknown {:?}", a.clone().operate_binary(b.clone(), "foo").map(|e| e.unparse().to_string()).map_err(|e| e.msg().to_string()));
    println!("C10 unary {:?}", a.clone().operate_unary("sin").map(|e| e.unparse().to_string()));
    // C11
    let e = FlatEx::<f64>::parse("x*y+x").unwrap();
    let mut sub = |v: &str| if v == "x" { Some(FlatEx::<f64>::parse("x+y").unwrap()) } else if v == "y" { Some(FlatEx::<f64>::parse("x").unwrap()) } else { None };
    let s = e.subs(&mut sub).unwrap();
    println!("C11 {} vars {:?} val {:?} (expect (2+3)*2+(2+3)=15)", s.unparse(), s.var_names(), s.eval(&[2.0, 3.0]));
    // C04
    let e = FlatEx::<f64>::parse("b+{ a}+A+α+{B c}+_z+{1}").unwrap();
    println!("C04 {:?}", e.var_names());
    println!("C04 arity {:?} {:?} {:?}", e.eval(&[1.0]).is_err(), e.eval_relaxed(&vec![1.0; 9]).is_ok(), e.eval_relaxed(&vec![1.0; 3]).is_err());
    // C12 negative const
    let d = DeepEx::<f64>::parse("x*(0-2)").unwrap(); println!("C12 {}", d.unparse());
    let d = DeepEx::<f64>::parse("x^-2").unwrap(); println!("C12 {}", d.unparse());
    let d = DeepEx::<f64>::parse("-x").unwrap(); println!("C12 {}", d.unparse());
    let d = DeepEx::<f64>::parse("--x").unwrap(); println!("C12 {}", d.unparse());
    let d = DeepEx::<f64>::parse("- sin x").unwrap(); println!("C12 {} reparse {:?}", d.unparse(), FlatEx::<f64>::parse(d.unparse()).map(|e| e.eval(&[1.0])));
}
