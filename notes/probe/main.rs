use exmex::prelude::*;
use exmex::{DeepEx, Val, parse_val, Differentiate};
use std::panic::catch_unwind;
fn main() {
    let e = exmex::parse::<f64>("sin(x+3+2)").unwrap();
    println!("C01 sin(x+3+2) @1 = {} ; expect sin(6)={} ; x+sin(5)={}", e.eval(&[1.0]).unwrap(), 6f64.sin(), 1.0+5f64.sin());
    let e = FlatEx::<f64>::parse_wo_compile("sin(x+3+2)").unwrap();
    println!("C01 wo_compile sin(x+3+2) @1 = {}", e.eval(&[1.0]).unwrap());
    let e = parse_val::<i32,f64>("10-2+3").unwrap();
    println!("C01/C16 val 10-2+3 = {:?}", e.eval(&[]).unwrap());
    let e = DeepEx::<f64>::parse("x^2/4/2").unwrap();
    println!("C02 deep x^2/4/2 @2 = {} (expect 0.5) unparse {}", e.eval(&[2.0]).unwrap(), e.unparse());
    let e = FlatEx::<f64>::parse("x^2/4/2").unwrap();
    println!("C02 flat x^2/4/2 @2 = {}", e.eval(&[2.0]).unwrap());
    let e = DeepEx::<f64>::parse("x*2-1-3").unwrap();
    println!("C02 deep x*2-1-3 @1 = {} (expect -2) unparse {}", e.eval(&[1.0]).unwrap(), e.unparse());
    let e = FlatEx::<f64>::parse("x*2-1-3").unwrap();
    println!("C02 flat x*2-1-3 @1 = {}", e.eval(&[1.0]).unwrap());
    let r = catch_unwind(|| parse_val::<i32,f64>("to_int(10000000000.0)").map(|e| e.eval(&[])));
    println!("C06 to_int(1e10): panicked={}", r.is_err());
    let r = FlatEx::<f64>::parse("max(1, min(2,3))");
    println!("C08 max(1, min(2,3)): {:?}", r.map(|e| e.eval(&[])));
    let r = FlatEx::<f64>::parse("max(min(2,3), 1)");
    println!("C08 max(min(2,3),1): {:?}", r.map(|e| e.eval(&[])));
    let d = DeepEx::<f64>::parse("x*0.0000001").unwrap();
    println!("C12 unparse: {}  reparse: {:?}", d.unparse(), DeepEx::<f64>::parse(d.unparse()).map(|e| e.eval(&[1.0])));
    for s in ["x == 2 == false", "10 - 2 + 3", "10 - 2 - 3", "2 * 3 / 4", "8 / 2 * 2", "x - 2 + 3"] {
        let e = parse_val::<i32,f64>(s).unwrap();
        let n = e.var_names().len();
        let v: Vec<Val> = (0..n).map(|_| Val::Int(2)).collect();
        println!("C16 {} = {:?}", s, e.eval(&v));
    }
    for s in ["-x", "abs(x)"] {
        let r = catch_unwind(|| { let e = parse_val::<i32,f64>(s).unwrap(); e.eval(&[Val::Int(i32::MIN)]) });
        println!("C17 {} @MIN panicked={}", s, r.is_err());
    }
    let r = catch_unwind(|| { let e = parse_val::<i32,f64>("x % y").unwrap(); e.eval(&[Val::Int(i32::MIN), Val::Int(-1)]) });
    println!("C17 MIN % -1 panicked={}", r.is_err());
    let r = catch_unwind(|| { let e = parse_val::<i32,f64>("to_int(x)").unwrap(); e.eval(&[Val::Float(f64::NAN)]) });
    println!("C17 to_int(NaN) panicked={}", r.is_err());
    let r = catch_unwind(|| { let e = parse_val::<i32,f64>("x ^ y").unwrap(); e.eval(&[Val::Float(2.0), Val::Int(3)]) });
    println!("C17 2.0^3 {:?}", r);
    // default float table: equal prio mixing? + prio0, - prio1
    for (s, x) in [("x-1+2", 0.0), ("x+1-2", 0.0), ("2*x/3", 1.0), ("x/2*3", 1.0), ("1-x+2", 0.0), ("x atan2 1 + 2",1.0), ("1 + x min 3", 5.0)] {
        let f = FlatEx::<f64>::parse(s).unwrap().eval(&[x]).unwrap();
        let d = DeepEx::<f64>::parse(s).unwrap().eval(&[x]).unwrap();
        println!("f64 {} @{} flat={} deep={}", s, x, f, d);
    }
    let e = FlatEx::<f64>::parse("x+y").unwrap();
    println!("{:?}", e.clone().partial(0).map(|d| d.unparse().to_string()));
}
