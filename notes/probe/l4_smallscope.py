# Exhaustive small-scope check of lemma L4: splitTree(key) == splitTree(10*prio) modulo associativity of flagged ops
import itertools, sys
def split_tree(keys, ops, leaves, unary, lo, hi):
    # leaves lo..hi inclusive, ops lo..hi-1 ; split at right-most minimal key
    if lo == hi: return ('L', lo)
    k = min(range(lo, hi), key=lambda i: (keys[i], -i))
    t = ('B', ops[k], split_tree(keys, ops, leaves, unary, lo, k), split_tree(keys, ops, leaves, unary, k+1, hi))
    return ('U', t) if unary[k] else t
def flat_assoc(t, flagged):
    if t[0] == 'L': return t
    if t[0] == 'U': return ('U', flat_assoc(t[1], flagged))
    o = t[1]
    if o in flagged:
        out = []
        def coll(x):
            if x[0] == 'B' and x[1] == o: coll(x[2]); coll(x[3])
            else: out.append(flat_assoc(x, flagged))
        coll(t); return ('N', o, tuple(out))
    return ('B', o, flat_assoc(t[2], flagged), flat_assoc(t[3], flagged))
def bump_scan(i, prios, ops, lit, unary, flagged, use_unary=True):
    if ops[i] not in flagged or not (lit[i] and lit[i+1]): return False
    if use_unary and unary[i]: return False
    for j in range(i-1, -1, -1):
        if prios[j] <= prios[i]:
            return prios[j] < prios[i] or ops[j] == ops[i]
    return True
def bump_imm(i, prios, ops, lit, unary, flagged, use_unary=True):
    if ops[i] not in flagged or not (lit[i] and lit[i+1]): return False
    if use_unary and unary[i]: return False
    return i == 0 or prios[i-1] < prios[i] or (prios[i-1] == prios[i] and ops[i-1] == ops[i])
def bump_old(i, prios, ops, lit, unary, flagged, use_unary=True):
    return ops[i] in flagged and lit[i] and lit[i+1]
# operators: id -> prio fixed per table; unary only on the right-most lowest op of whole chain (one group) or none
def run(rule, nmax):
    bad = 0; total = 0
    for nops in range(1, nmax+1):
        for table in itertools.product([0,1], repeat=3):           # prio of op ids 0,1,2
            for flags in itertools.product([False, True], repeat=3):
                flagged = {i for i in range(3) if flags[i]}
                for ops in itertools.product(range(3), repeat=nops):
                    prios = [table[o] for o in ops]
                    for lit in itertools.product([False, True], repeat=nops+1):
                        for has_un in (False, True):
                            unary = [False]*nops
                            if has_un:
                                k = min(range(nops), key=lambda i: (prios[i], -i)); unary[k] = True
                            keys = [10*prios[i] + (5 if rule(i, prios, ops, lit, unary, flagged) else 0) for i in range(nops)]
                            ref = split_tree([10*p for p in prios], ops, lit, unary, 0, nops)
                            got = split_tree(keys, ops, lit, unary, 0, nops)
                            total += 1
                            if flat_assoc(ref, flagged) != flat_assoc(got, flagged):
                                bad += 1
                                if bad <= 3: print("  CEX", rule.__name__, ops, prios, sorted(flagged), lit, unary)
    print(rule.__name__, "nmax", nmax, "total", total, "bad", bad)
n = int(sys.argv[1])
run(bump_old, n); run(bump_scan, n); run(bump_imm, n)
run(lambda *a: bump_scan(*a, use_unary=False), n)
