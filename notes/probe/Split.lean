-- spike: splitTree by right-most minimal key, and flattening lemma for one associative op
inductive T (α : Type) where
  | leaf : α → T α
  | node : Nat → T α → T α → T α
deriving Repr, DecidableEq

structure Item (α : Type) where
  op : Nat
  key : Int
  val : α

/-- index of the right-most minimal key in a non-empty list -/
def argminR : List Int → Nat
  | [] => 0
  | [_] => 0
  | k :: ks => let j := argminR ks; if ks[j]! ≤ k then j + 1 else 0

theorem argminR_lt : ∀ (l : List Int), l ≠ [] → argminR l < l.length
  | [_], _ => by simp [argminR]
  | k :: k' :: ks, _ => by
      have ih := argminR_lt (k' :: ks) (by simp)
      unfold argminR; simp only []; split <;> simp_all <;> omega

def splitTree {α} (a : α) (xs : List (Item α)) : T α :=
  if h : xs = [] then .leaf a else
    let j := argminR (xs.map (·.key))
    have hj : j < xs.length := by simpa using argminR_lt (xs.map (·.key)) (by simpa using h)
    let x := xs[j]
    .node x.op (splitTree a (xs.take j)) (splitTree x.val (xs.drop (j+1)))
termination_by xs.length
decreasing_by
  · simp only [List.length_take]; omega
  · simp only [List.length_drop]; omega

def ev {α} (f : Nat → α → α → α) : T α → α
  | .leaf a => a
  | .node o l r => f o (ev f l) (ev f r)

#eval ev (fun o a b => s!"({a} {o} {b})") (splitTree "a" [⟨1, 0, "b"⟩, ⟨2, 10, "c"⟩, ⟨1, 0, "d"⟩, ⟨1, 5, "e"⟩])

-- left fold with one associative operator equals any tree shape over the same leaves
def leaves {α} : T α → List α
  | .leaf a => [a]
  | .node _ l r => leaves l ++ leaves r
def allOp {α} (o : Nat) : T α → Prop
  | .leaf _ => True
  | .node o' l r => o' = o ∧ allOp o l ∧ allOp o r

theorem ev_assoc {α} (f : Nat → α → α → α) (o : Nat)
    (hA : ∀ x y z, f o (f o x y) z = f o x (f o y z)) :
    ∀ (t : T α), allOp o t → ∀ acc, f o acc (ev f t) = (leaves t).foldl (f o) acc
  | .leaf a, _, acc => by simp [ev, leaves]
  | .node o' l r, h, acc => by
      obtain ⟨rfl, hl, hr⟩ := h
      simp only [ev, leaves, List.foldl_append]
      rw [← hA, ev_assoc f o' hA l hl, ev_assoc f o' hA r hr]
