// Scratch probe: free term algebra data type + random operator tables + reference semantics.
use exmex::prelude::*;
use exmex::{BinOp, DeepEx, MakeOperators, Operator, NumberMatcher};
use std::str::FromStr;
use std::sync::RwLock;
use std::panic::catch_unwind;

#[derive(Clone, Default, PartialEq, Eq, PartialOrd, Ord)]
enum Sym { #[default] Hole, Lit(String), Var(usize), Un(usize, Box<Sym>), Bin(usize, Box<Sym>, Box<Sym>) }
impl std::fmt::Debug for Sym { fn fmt(&self, f: &mut std::fmt::Formatter<'_>) -> std::fmt::Result { match self { Sym::Lit(l) => write!(f, "{}", l), Sym::Hole => write!(f, "HOLE"), Sym::Var(i) => write!(f, "VAR{}", i), Sym::Un(k, a) => write!(f, "UN{}[{:?}]", k, a), Sym::Bin(k, a, b) => write!(f, "BIN{}[{:?},{:?}]", k, a, b) } } }
impl FromStr for Sym { type Err = String; fn from_str(s: &str) -> Result<Self, String> { Ok(Sym::Lit(s.to_string())) } }

#[derive(Clone, Debug)]
struct OpCfg { name: &'static str, bin: Option<(i64, bool)>, un: bool }
static TABLE: RwLock<Vec<OpCfg>> = RwLock::new(Vec::new());

macro_rules! mk_fns { ($($k:literal),*) => {
    const BINS: &[fn(Sym,Sym)->Sym] = &[$( |a,b| Sym::Bin($k, Box::new(a), Box::new(b)) ),*];
    const UNS: &[fn(Sym)->Sym] = &[$( |a| Sym::Un($k, Box::new(a)) ),*];
}}
mk_fns!(0,1,2,3,4,5,6,7,8,9,10,11,12,13,14,15);

#[derive(Clone, Debug)]
struct SymOps;
impl MakeOperators<Sym> for SymOps {
    fn make<'a>() -> Vec<Operator<'a, Sym>> {
        TABLE.read().unwrap().iter().enumerate().map(|(k, c)| match (c.bin, c.un) {
            (Some((p, comm)), false) => Operator::make_bin(c.name, BinOp{apply: BINS[k], prio: p, is_commutative: comm}),
            (Some((p, comm)), true) => Operator::make_bin_unary(c.name, BinOp{apply: BINS[k], prio: p, is_commutative: comm}, UNS[k]),
            (None, true) => Operator::make_unary(c.name, UNS[k]),
            _ => unreachable!(),
        }).collect()
    }
}
type F = FlatEx<Sym, SymOps, NumberMatcher>;
type D<'a> = DeepEx<'a, Sym, SymOps, NumberMatcher>;

// surface syntax
#[derive(Clone, Debug)]
enum Base { Lit(String), Var(usize), Par(Box<Chain>) }
#[derive(Clone, Debug)]
struct Atom { uns: Vec<usize>, base: Base }
#[derive(Clone, Debug)]
struct Chain { atoms: Vec<Atom>, ops: Vec<usize> }

struct Rng(u64);
impl Rng { fn next(&mut self) -> u64 { self.0 ^= self.0 << 13; self.0 ^= self.0 >> 7; self.0 ^= self.0 << 17; self.0 }
  fn below(&mut self, n: usize) -> usize { (self.next() % n as u64) as usize } }

fn gen_chain(r: &mut Rng, depth: usize, t: &[OpCfg], nvars: usize) -> Chain {
    let bins: Vec<usize> = (0..t.len()).filter(|i| t[*i].bin.is_some()).collect();
    let uns: Vec<usize> = (0..t.len()).filter(|i| t[*i].un).collect();
    let n = 1 + r.below(if depth == 0 { 5 } else { 4 });
    let mut atoms = vec![]; let mut ops = vec![];
    for i in 0..n {
        if i > 0 { ops.push(bins[r.below(bins.len())]); }
        let mut u = vec![];
        while !uns.is_empty() && r.below(4) == 0 { u.push(uns[r.below(uns.len())]); }
        let base = match r.below(if depth >= 3 { 6 } else { 8 }) {
            0..=2 => Base::Lit(format!("{}", 1 + r.below(9))),
            3..=5 => Base::Var(r.below(nvars)),
            _ => Base::Par(Box::new(gen_chain(r, depth + 1, t, nvars))),
        };
        atoms.push(Atom{uns: u, base});
    }
    Chain{atoms, ops}
}
fn render(c: &Chain, t: &[OpCfg], out: &mut String) {
    for (i, a) in c.atoms.iter().enumerate() {
        if i > 0 { out.push(' '); out.push_str(t[c.ops[i-1]].name); out.push(' '); }
        for u in &a.uns { out.push_str(t[*u].name); out.push(' '); }
        match &a.base { Base::Lit(s) => out.push_str(s), Base::Var(v) => { out.push_str(&format!("v{}", v)); }
            Base::Par(ch) => { out.push('('); render(ch, t, out); out.push(')'); } }
    }
}
fn reference(c: &Chain, t: &[OpCfg]) -> Sym {
    let mut vals: Vec<Sym> = c.atoms.iter().map(|a| {
        let mut v = match &a.base { Base::Lit(s) => Sym::Lit(s.clone()), Base::Var(i) => Sym::Var(*i), Base::Par(ch) => reference(ch, t) };
        for u in a.uns.iter().rev() { v = Sym::Un(*u, Box::new(v)); }
        v }).collect();
    let mut ops = c.ops.clone();
    while !ops.is_empty() {
        let mut best = 0;
        for i in 1..ops.len() { if t[ops[i]].bin.unwrap().0 > t[ops[best]].bin.unwrap().0 { best = i; } }
        let b = vals.remove(best + 1); let a = std::mem::take(&mut vals[best]);
        vals[best] = Sym::Bin(ops[best], Box::new(a), Box::new(b)); ops.remove(best);
    }
    vals.pop().unwrap()
}
// AC normal form for flagged ops
fn acnf(s: &Sym, t: &[OpCfg]) -> Sym {
    match s {
        Sym::Bin(k, _, _) if t[*k].bin.unwrap().1 => {
            fn collect(s: &Sym, k: usize, t: &[OpCfg], out: &mut Vec<Sym>) { match s { Sym::Bin(k2, a, b) if *k2 == k => { collect(a, k, t, out); collect(b, k, t, out); } _ => out.push(acnf(s, t)) } }
            let mut v = vec![]; collect(s, *k, t, &mut v); v.sort();
            let mut it = v.into_iter(); let mut acc = it.next().unwrap();
            for x in it { acc = Sym::Bin(*k, Box::new(acc), Box::new(x)); } acc }
        Sym::Bin(k, a, b) => Sym::Bin(*k, Box::new(acnf(a, t)), Box::new(acnf(b, t))),
        Sym::Un(k, a) => Sym::Un(*k, Box::new(acnf(a, t))),
        _ => s.clone(),
    }
}
// assoc-only normal form (right-nest to left-nest for flagged ops)
fn anf(s: &Sym, t: &[OpCfg]) -> Sym {
    match s {
        Sym::Bin(k, _, _) if t[*k].bin.unwrap().1 => {
            fn collect(s: &Sym, k: usize, t: &[OpCfg], out: &mut Vec<Sym>) { match s { Sym::Bin(k2, a, b) if *k2 == k => { collect(a, k, t, out); collect(b, k, t, out); } _ => out.push(anf(s, t)) } }
            let mut v = vec![]; collect(s, *k, t, &mut v);
            let mut it = v.into_iter(); let mut acc = it.next().unwrap();
            for x in it { acc = Sym::Bin(*k, Box::new(acc), Box::new(x)); } acc }
        Sym::Bin(k, a, b) => Sym::Bin(*k, Box::new(anf(a, t)), Box::new(anf(b, t))),
        Sym::Un(k, a) => Sym::Un(*k, Box::new(anf(a, t))),
        _ => s.clone(),
    }
}
fn show(s: &Sym, t: &[OpCfg]) -> String { match s { Sym::Hole => "HOLE".into(), Sym::Lit(l) => l.clone(), Sym::Var(i) => format!("v{}", i),
    Sym::Un(k, a) => format!("{}[{}]", t[*k].name, show(a, t)), Sym::Bin(k, a, b) => format!("({} {} {})", show(a, t), t[*k].name, show(b, t)) } }

fn main() {
    std::panic::set_hook(Box::new(|_| {}));
    let seed: u64 = std::env::args().nth(1).map(|s| s.parse().unwrap()).unwrap_or(1);
    let n: usize = std::env::args().nth(2).map(|s| s.parse().unwrap()).unwrap_or(20000);
    let mode: String = std::env::args().nth(3).unwrap_or("rand".into());
    let mut r = Rng(seed.wrapping_mul(0x9E3779B97F4A7C15) | 1);
    let names_sym = ["+", "-", "*", "/", "^", "%", "&&", "<=", "<"];
    let names_alpha = ["min", "max", "atan2"];
    let names_un = ["sin", "cos", "neg"];
    let mut stats = std::collections::BTreeMap::<String, (usize, Vec<String>)>::new();
    let mut bump = |k: &str, ex: String| { let e = stats.entry(k.to_string()).or_insert((0, vec![])); e.0 += 1; if e.1.len() < 6 || ex.len() < e.1.iter().map(|s| s.len()).max().unwrap() { e.1.push(ex); e.1.sort_by_key(|s| s.len()); e.1.truncate(6); } };
    for _ in 0..n {
        let mut t = vec![];
        let nb = 2 + r.below(4);
        let pmax = if mode == "distinct" { 100 } else { [2, 3, 4, 100][r.below(4)] };
        let mut used = vec![];
        for _ in 0..nb {
            let name = if r.below(4) == 0 { names_alpha[r.below(3)] } else { names_sym[r.below(9)] };
            if used.contains(&name) { continue; } used.push(name);
            let mut p = r.below(pmax) as i64;
            if mode == "distinct" { while t.iter().any(|c: &OpCfg| c.bin.map(|b| b.0) == Some(p)) { p = r.below(100) as i64; } }
            let comm = if mode == "nocomm" { false } else { r.below(2) == 0 };
            t.push(OpCfg{name, bin: Some((p, comm)), un: (name == "+" || name == "-") && r.below(2) == 0});
        }
        for nm in names_un { if r.below(2) == 0 { t.push(OpCfg{name: nm, bin: None, un: true}); } }
        *TABLE.write().unwrap() = t.clone();
        let nvars = 1 + r.below(3);
        let c = gen_chain(&mut r, 0, &t, nvars);
        let mut text = String::new(); render(&c, &t, &mut text);
        let rf = reference(&c, &t);
        let tdesc = format!("{:?}", t.iter().map(|c| (c.name, c.bin, c.un)).collect::<Vec<_>>());
        let res = catch_unwind(|| {
            let mut out: Vec<(String, Result<Sym, String>, Vec<String>)> = vec![];
            let ev = |vn: &[String]| -> Vec<Sym> { vn.iter().map(|n| Sym::Var(n[1..].parse().unwrap())).collect() };
            match F::parse_wo_compile(&text) { Ok(e) => { let v = ev(e.var_names()); out.push(("flat_wo".into(), e.eval(&v).map_err(|e| e.msg().to_string()), e.var_names().to_vec())); }, Err(e) => out.push(("flat_wo".into(), Err(e.msg().to_string()), vec![])) }
            match F::parse(&text) { Ok(e) => { let v = ev(e.var_names()); out.push(("flat".into(), e.eval(&v).map_err(|e| e.msg().to_string()), e.var_names().to_vec()));
                    let mut e2 = e.clone(); e2.compile(); out.push(("flat_recompile".into(), e2.eval(&v).map_err(|e| e.msg().to_string()), vec![]));
                    match e.clone().to_deepex() { Ok(d) => { out.push(("flat_to_deep".into(), d.eval(&v).map_err(|e| e.msg().to_string()), d.var_names().to_vec()));
                        match F::from_deepex(d.clone()) { Ok(f2) => { out.push(("flat_to_deep_to_flat".into(), f2.eval(&v).map_err(|e| e.msg().to_string()), f2.var_names().to_vec()));
                           }, Err(e) => out.push(("flat_to_deep_to_flat".into(), Err(e.msg().to_string()), vec![])) }
                        let up = d.unparse().to_string();
                        match F::parse(&up) { Ok(f3) => out.push(("deep_unparse_reparse".into(), f3.eval(&v).map_err(|e| e.msg().to_string()), f3.var_names().to_vec())), Err(e) => out.push(("deep_unparse_reparse".into(), Err(format!("{} // {}", e.msg(), up)), vec![])) }
                    }, Err(e) => out.push(("flat_to_deep".into(), Err(e.msg().to_string()), vec![])) }
                }, Err(e) => out.push(("flat".into(), Err(e.msg().to_string()), vec![])) }
            match D::parse(&text) { Ok(e) => { let v = ev(e.var_names()); out.push(("deep".into(), e.eval(&v).map_err(|e| e.msg().to_string()), e.var_names().to_vec()));
                    match F::from_deepex(e.clone()) { Ok(f2) => out.push(("deep_to_flat".into(), f2.eval(&v).map_err(|e| e.msg().to_string()), f2.var_names().to_vec())), Err(e) => out.push(("deep_to_flat".into(), Err(e.msg().to_string()), vec![])) }
                }, Err(e) => out.push(("deep".into(), Err(e.msg().to_string()), vec![])) }
            out
        });
        match res {
            Err(_) => bump("PANIC", format!("{} || {}", text, tdesc)),
            Ok(out) => for (k, v, _vn) in out { match v {
                Err(m) => bump(&format!("{}:ERR", k), format!("{} || {} || {}", text, m.chars().take(80).collect::<String>(), tdesc)),
                Ok(s) => { if s == rf { bump(&format!("{}:exact", k), String::new()) } else if anf(&s, &t) == anf(&rf, &t) { bump(&format!("{}:assoc-equal", k), String::new()) } else if acnf(&s, &t) == acnf(&rf, &t) { bump(&format!("{}:AC-equal", k), format!("{} || got {} || ref {}", text, show(&s, &t), show(&rf, &t))) } else { bump(&format!("{}:WRONG", k), format!("{} || got {} || ref {} || {}", text, show(&s, &t), show(&rf, &t), tdesc)) } }
            } }
        }
    }
    for (k, (c, ex)) in stats { println!("{:32} {}", k, c); if k.contains("WRONG") || k.contains("ERR") || k.contains("PANIC") || k.contains("AC-equal") { for e in ex { println!("      {}", e); } } }
}
