//! kind `threads` (C20): concurrent parsing (first use of the global regexes raced on purpose, one
//! fresh process per round) and concurrent evaluation of shared expressions; every result must be
//! the one of a sequential run.
use crate::gen::Rng;
use exmex::prelude::*;
use exmex::{DeepEx, FlatEx, FlatExVal, Val};
use std::collections::BTreeMap;
use std::sync::{Arc, Barrier};

// compile-time part of the property: the expression types are Send + Sync
fn assert_send_sync<T: Send + Sync>() {}
#[allow(dead_code)]
fn static_assertions() {
    assert_send_sync::<FlatEx<f64>>();
    assert_send_sync::<FlatEx<f32>>();
    assert_send_sync::<DeepEx<'static, f64>>();
    assert_send_sync::<FlatExVal<i32, f64>>();
    assert_send_sync::<FlatEx<crate::sym::Sym, crate::sym::SymOps, exmex::NumberMatcher>>();
}

const TEXTS: &[&str] = &[
    "sin(x+3+2)*y - z/2", "x^2/4/2 + max(1, min(y, z))", "-(x*y)^2 + tanh(z) - 7.5", "{a b} + α*2 - log2(x+1)", "1/(x/y)*(2*x)",
    "x*0.2*5/4+x*2*4*1*1*1*1*1*1*1+2+3+7*sin(y)-z/sin(3.0/2/(1-x*4*1*1*1*1))", "atan2(x, y) + PI*τ", "((x))+((y*z))",
];
const VAL_TEXTS: &[&str] = &["1.0 if x > y else 73", "x + 2 * y == 7 && true", "to_float(x) / 3 - fact(4)", "dot([1,2,3], [x, y, 2]) if x != 0 else 0.5"];

// Two operator factories of the same size whose names are prefixes of each other in one of them:
// "parsing is deterministic" also means that a parse does not depend on which factory was used by the
// previous parse of the process or by another thread (no state shared between parses).
use exmex::{BinOp, MakeOperators, Operator};
#[derive(Clone, Debug)]
pub struct FacA;
impl MakeOperators<f64> for FacA {
    fn make<'a>() -> Vec<Operator<'a, f64>> {
        vec![
            Operator::make_bin("**", BinOp { apply: |a: f64, b: f64| a.powf(b), prio: 5, is_commutative: false }),
            Operator::make_bin("*", BinOp { apply: |a, b| a * b, prio: 3, is_commutative: true }),
            Operator::make_bin("<=", BinOp { apply: |a, b| if a <= b { 1.0 } else { 0.0 }, prio: 1, is_commutative: false }),
            Operator::make_bin("<", BinOp { apply: |a, b| if a < b { 1.0 } else { 0.0 }, prio: 1, is_commutative: false }),
            Operator::make_bin("+", BinOp { apply: |a, b| a + b, prio: 2, is_commutative: true }),
            Operator::make_bin_unary("-", BinOp { apply: |a, b| a - b, prio: 2, is_commutative: false }, |a| -a),
        ]
    }
}
#[derive(Clone, Debug)]
pub struct FacB;
impl MakeOperators<f64> for FacB {
    fn make<'a>() -> Vec<Operator<'a, f64>> {
        vec![
            Operator::make_bin("*", BinOp { apply: |a, b| a * b, prio: 3, is_commutative: true }),
            Operator::make_bin("+", BinOp { apply: |a, b| a + b, prio: 2, is_commutative: true }),
            Operator::make_bin_unary("-", BinOp { apply: |a, b| a - b, prio: 2, is_commutative: false }, |a| -a),
            Operator::make_bin("<", BinOp { apply: |a, b| if a < b { 1.0 } else { 0.0 }, prio: 1, is_commutative: false }),
            Operator::make_bin("/", BinOp { apply: |a, b| a / b, prio: 3, is_commutative: false }),
            Operator::make_bin("%", BinOp { apply: |a: f64, b: f64| a % b, prio: 3, is_commutative: false }),
        ]
    }
}
/// (text, value) under FacA / FacB, fixed by the documented semantics
const FAC_A: &[(&str, f64)] = &[("2**3*2+(1<=2)", 17.0), ("3<=2**2", 1.0), ("-2**2*3", 12.0), ("1<2+2<=1", 1.0)];
const FAC_B: &[(&str, f64)] = &[("2*3+4/2-(1<2)", 7.0), ("7%4*2", 6.0), ("-2*3<1", 1.0), ("8/2/2", 2.0)];

thread_local! {
    static BIG: FlatEx<f64> = FlatEx::<f64>::parse(&big_text()).unwrap();
}

fn custom(which: bool, k: usize) -> String {
    // k also selects the form: both parsers build their own operator table
    let deep = (k / 4) % 2 == 1;
    if which {
        let (t, want) = FAC_A[k % FAC_A.len()];
        let r = if deep { DeepEx::<f64, FacA>::parse(t).and_then(|e| e.eval(&[])) } else { FlatEx::<f64, FacA>::parse(t).and_then(|e| e.eval(&[])) };
        match r {
            Ok(v) if v == want => "ok".into(),
            other => format!("FacA {} gave {:?}, documented {}", t, other.ok(), want),
        }
    } else {
        let (t, want) = FAC_B[k % FAC_B.len()];
        let r = if deep { DeepEx::<f64, FacB>::parse(t).and_then(|e| e.eval(&[])) } else { FlatEx::<f64, FacB>::parse(t).and_then(|e| e.eval(&[])) };
        match r {
            Ok(v) if v == want => "ok".into(),
            other => format!("FacB {} gave {:?}, documented {}", t, other.ok(), want),
        }
    }
}

/// a flat expression with more than 2048 operands (tracker of more than 32 words): `x*y+x*y+...`
fn big_text() -> String {
    let mut s = String::new();
    for k in 0..1100 {
        if k > 0 {
            s.push(if k % 3 == 0 { '-' } else { '+' });
        }
        s.push_str("x*y");
    }
    s
}
fn big_value(x: f64, y: f64) -> f64 {
    // evaluated left to right like the documented semantics
    let mut acc = x * y;
    for k in 1..1100 {
        if k % 3 == 0 {
            acc -= x * y;
        } else {
            acc += x * y;
        }
    }
    acc
}

fn work(round_seed: u64, shared_f: &[Arc<FlatEx<f64>>], shared_d: &[Arc<DeepEx<'static, f64>>]) -> Vec<String> {
    let mut out = vec![];
    let mut r = Rng::new(round_seed);
    for round in 0..40 {
        let t = TEXTS[r.below(TEXTS.len())];
        match FlatEx::<f64>::parse(t) {
            Ok(e) => {
                let v: Vec<f64> = (0..e.var_names().len()).map(|i| 0.25 + i as f64 + (r.below(100) as f64) / 64.0).collect();
                out.push(format!("{}|{:?}|{:?}", e.unparse(), e.var_names(), e.eval(&v).map(|x| x.to_bits()).ok()));
            }
            Err(_) => out.push("E".into()),
        }
        match DeepEx::<f64>::parse(t) {
            Ok(e) => {
                let v: Vec<f64> = (0..e.var_names().len()).map(|i| 0.5 + i as f64).collect();
                out.push(format!("{}|{:?}", e.unparse(), e.eval(&v).map(|x| x.to_bits()).ok()));
            }
            Err(_) => out.push("E".into()),
        }
        // malformed nested texts: a failing parse must leave nothing behind
        for bad in ["((((((x+1)(x-1))))))", "(((((1 2)))))", "((((x y))))"] {
            out.push(format!("bad:{}", DeepEx::<f64>::parse(bad).is_ok() || FlatEx::<f64>::parse(bad).is_ok()));
        }
        let vt = VAL_TEXTS[r.below(VAL_TEXTS.len())];
        match exmex::parse_val::<i32, f64>(vt) {
            Ok(e) => {
                let v: Vec<Val<i32, f64>> = (0..e.var_names().len()).map(|i| if i % 2 == 0 { Val::Int(i as i32 + 1) } else { Val::Float(2.5) }).collect();
                out.push(format!("{:?}", e.eval(&v)));
            }
            Err(_) => out.push("E".into()),
        }
        // repeated evaluation of one large expression on the same thread (evaluation history)
        // (twice in a row, then a pause: the second evaluation meets whatever the first left behind)
        if round % 5 < 2 {
            BIG.with(|b| {
                let (x, y) = (1.0 + r.below(5) as f64, 0.5 + r.below(3) as f64);
                let got = b.eval(&[x, y]).map(|v| v.to_bits()).ok();
                let want = Some(big_value(x, y).to_bits());
                out.push(if got == want { "big ok".to_string() } else { format!("Fac-big eval gave {:?}, documented {:?}", got, want) });
            });
        }
        // two parses with equally sized custom factories, in random order
        let (w1, w2, k1, k2) = (r.chance(1, 2), r.chance(1, 2), r.below(8), r.below(8));
        out.push(custom(w1, k1));
        out.push(custom(w2, k2));
        let k = r.below(shared_f.len());
        let v: Vec<f64> = (0..shared_f[k].var_names().len()).map(|i| 1.0 + i as f64 * 0.5 + (r.below(8) as f64)).collect();
        out.push(format!("{:?}", shared_f[k].eval(&v).map(|x| x.to_bits()).ok()));
        let vd: Vec<f64> = (0..shared_d[k].var_names().len()).map(|i| 1.0 + i as f64 * 0.5).collect();
        out.push(format!("{:?}", shared_d[k].eval(&vd).map(|x| x.to_bits()).ok()));
    }
    out
}

/// child process: `threads` threads released together; returns 0 iff all equal the sequential run
pub fn child(nthreads: usize, seed: u64) -> i32 {
    // the shared expressions are parsed *inside* the racing threads' start-up as well: the very first
    // parse of the process (lazy_static regex initialisation) happens concurrently
    // one round in three: the very first parse of the process uses one of the equally sized custom
    // factories (state initialised by the first caller must not leak into later parses)
    if seed % 3 == 0 && custom(seed % 2 == 0, (seed / 3) as usize) != "ok" {
        return 10;
    }
    let barrier = Arc::new(Barrier::new(nthreads));
    let first: Vec<std::thread::JoinHandle<Vec<Arc<FlatEx<f64>>>>> = (0..nthreads)
        .map(|_| {
            let b = barrier.clone();
            std::thread::spawn(move || {
                b.wait();
                TEXTS.iter().map(|t| Arc::new(FlatEx::<f64>::parse(t).unwrap())).collect()
            })
        })
        .collect();
    let parsed: Vec<Vec<Arc<FlatEx<f64>>>> = first.into_iter().map(|h| h.join().unwrap()).collect();
    for p in &parsed[1..] {
        for (a, b) in p.iter().zip(parsed[0].iter()) {
            if **a != **b {
                return 5;
            }
        }
    }
    let shared_f = parsed[0].clone();
    let shared_d: Vec<Arc<DeepEx<'static, f64>>> = TEXTS.iter().map(|t| Arc::new(DeepEx::<f64>::parse(t).unwrap())).collect();
    let before: Vec<FlatEx<f64>> = shared_f.iter().map(|e| (**e).clone()).collect();
    let barrier = Arc::new(Barrier::new(nthreads));
    let handles: Vec<_> = (0..nthreads)
        .map(|i| {
            let (b, sf, sd) = (barrier.clone(), shared_f.clone(), shared_d.clone());
            std::thread::spawn(move || {
                b.wait();
                work(seed.wrapping_add(i as u64 % 3), &sf, &sd)
            })
        })
        .collect();
    let results: Vec<Vec<String>> = handles.into_iter().map(|h| h.join().unwrap()).collect();
    // sequential reference, computed afterwards in this thread
    for (i, res) in results.iter().enumerate() {
        let reference = work(seed.wrapping_add(i as u64 % 3), &shared_f, &shared_d);
        if *res != reference {
            return 6;
        }
        // the custom-factory parses have documented values, whatever was parsed before
        if res.iter().any(|x| x.starts_with("Fac")) {
            return 8;
        }
    }
    // history independence, sequentially: alternate the two equally sized factories
    for k in 0..64 {
        let (a, b) = (k % 8, (k / 8) % 8);
        if custom(true, a) != "ok" || custom(false, b) != "ok" || custom(false, a) != "ok" || custom(true, b) != "ok" {
            return 9;
        }
    }
    // evaluation did not modify the shared expressions
    for (a, b) in shared_f.iter().zip(before.iter()) {
        if **a != *b {
            return 7;
        }
    }
    0
}

pub fn gen(r: &mut Rng, _tier: &str, _i: usize, stats: &mut BTreeMap<String, u64>) -> String {
    let n = *r.pick(&[2usize, 8, 16]);
    *stats.entry(format!("threads_{}", n)).or_insert(0) += 1;
    format!("threads\t{}\t{}", n, r.next() % 100000)
}

pub fn run(f: &[&str]) -> String {
    let exe = std::env::current_exe().unwrap();
    match std::process::Command::new(exe).arg("threadchild").arg(f[0]).arg(f[1]).output() {
        Ok(o) => match o.status.code() {
            Some(0) => "r=ok".to_string(),
            Some(c) => format!("r=DIFF code {}", c),
            None => "r=DIED".to_string(),
        },
        Err(_) => "r=SPAWN".to_string(),
    }
}
