//! kind `threads` (C20): concurrent parsing (first use of the global regexes raced on purpose, one
//! fresh process per round) and concurrent evaluation of shared expressions; every result must be
//! the one of a sequential run.
use crate::gen::Rng;
use exmex::prelude::*;
use exmex::{DeepEx, FlatEx, FlatExVal, Val};
use std::collections::BTreeMap;
use std::sync::{Arc, Barrier};

// compile-time part of the property: the expression types are Send + Sync
fn assert_send_sync<T: Send + Sync>() {}
#[allow(dead_code)]
fn static_assertions() {
    assert_send_sync::<FlatEx<f64>>();
    assert_send_sync::<FlatEx<f32>>();
    assert_send_sync::<DeepEx<'static, f64>>();
    assert_send_sync::<FlatExVal<i32, f64>>();
    assert_send_sync::<FlatEx<crate::sym::Sym, crate::sym::SymOps, exmex::NumberMatcher>>();
}

const TEXTS: &[&str] = &[
    "sin(x+3+2)*y - z/2", "x^2/4/2 + max(1, min(y, z))", "-(x*y)^2 + tanh(z) - 7.5", "{a b} + α*2 - log2(x+1)", "1/(x/y)*(2*x)",
    "x*0.2*5/4+x*2*4*1*1*1*1*1*1*1+2+3+7*sin(y)-z/sin(3.0/2/(1-x*4*1*1*1*1))", "atan2(x, y) + PI*τ", "((x))+((y*z))",
];
const VAL_TEXTS: &[&str] = &["1.0 if x > y else 73", "x + 2 * y == 7 && true", "to_float(x) / 3 - fact(4)", "dot([1,2,3], [x, y, 2]) if x != 0 else 0.5"];

fn work(round_seed: u64, shared_f: &[Arc<FlatEx<f64>>], shared_d: &[Arc<DeepEx<'static, f64>>]) -> Vec<String> {
    let mut out = vec![];
    let mut r = Rng::new(round_seed);
    for _ in 0..40 {
        let t = TEXTS[r.below(TEXTS.len())];
        match FlatEx::<f64>::parse(t) {
            Ok(e) => {
                let v: Vec<f64> = (0..e.var_names().len()).map(|i| 0.25 + i as f64 + (r.below(100) as f64) / 64.0).collect();
                out.push(format!("{}|{:?}|{:?}", e.unparse(), e.var_names(), e.eval(&v).map(|x| x.to_bits()).ok()));
            }
            Err(_) => out.push("E".into()),
        }
        match DeepEx::<f64>::parse(t) {
            Ok(e) => {
                let v: Vec<f64> = (0..e.var_names().len()).map(|i| 0.5 + i as f64).collect();
                out.push(format!("{}|{:?}", e.unparse(), e.eval(&v).map(|x| x.to_bits()).ok()));
            }
            Err(_) => out.push("E".into()),
        }
        let vt = VAL_TEXTS[r.below(VAL_TEXTS.len())];
        match exmex::parse_val::<i32, f64>(vt) {
            Ok(e) => {
                let v: Vec<Val<i32, f64>> = (0..e.var_names().len()).map(|i| if i % 2 == 0 { Val::Int(i as i32 + 1) } else { Val::Float(2.5) }).collect();
                out.push(format!("{:?}", e.eval(&v)));
            }
            Err(_) => out.push("E".into()),
        }
        let k = r.below(shared_f.len());
        let v: Vec<f64> = (0..shared_f[k].var_names().len()).map(|i| 1.0 + i as f64 * 0.5 + (r.below(8) as f64)).collect();
        out.push(format!("{:?}", shared_f[k].eval(&v).map(|x| x.to_bits()).ok()));
        let vd: Vec<f64> = (0..shared_d[k].var_names().len()).map(|i| 1.0 + i as f64 * 0.5).collect();
        out.push(format!("{:?}", shared_d[k].eval(&vd).map(|x| x.to_bits()).ok()));
    }
    out
}

/// child process: `threads` threads released together; returns 0 iff all equal the sequential run
pub fn child(nthreads: usize, seed: u64) -> i32 {
    // the shared expressions are parsed *inside* the racing threads' start-up as well: the very first
    // parse of the process (lazy_static regex initialisation) happens concurrently
    let barrier = Arc::new(Barrier::new(nthreads));
    let first: Vec<std::thread::JoinHandle<Vec<Arc<FlatEx<f64>>>>> = (0..nthreads)
        .map(|_| {
            let b = barrier.clone();
            std::thread::spawn(move || {
                b.wait();
                TEXTS.iter().map(|t| Arc::new(FlatEx::<f64>::parse(t).unwrap())).collect()
            })
        })
        .collect();
    let parsed: Vec<Vec<Arc<FlatEx<f64>>>> = first.into_iter().map(|h| h.join().unwrap()).collect();
    for p in &parsed[1..] {
        for (a, b) in p.iter().zip(parsed[0].iter()) {
            if **a != **b {
                return 5;
            }
        }
    }
    let shared_f = parsed[0].clone();
    let shared_d: Vec<Arc<DeepEx<'static, f64>>> = TEXTS.iter().map(|t| Arc::new(DeepEx::<f64>::parse(t).unwrap())).collect();
    let before: Vec<FlatEx<f64>> = shared_f.iter().map(|e| (**e).clone()).collect();
    let barrier = Arc::new(Barrier::new(nthreads));
    let handles: Vec<_> = (0..nthreads)
        .map(|i| {
            let (b, sf, sd) = (barrier.clone(), shared_f.clone(), shared_d.clone());
            std::thread::spawn(move || {
                b.wait();
                work(seed.wrapping_add(i as u64 % 3), &sf, &sd)
            })
        })
        .collect();
    let results: Vec<Vec<String>> = handles.into_iter().map(|h| h.join().unwrap()).collect();
    // sequential reference, computed afterwards in this thread
    for (i, res) in results.iter().enumerate() {
        let reference = work(seed.wrapping_add(i as u64 % 3), &shared_f, &shared_d);
        if *res != reference {
            return 6;
        }
    }
    // evaluation did not modify the shared expressions
    for (a, b) in shared_f.iter().zip(before.iter()) {
        if **a != *b {
            return 7;
        }
    }
    0
}

pub fn gen(r: &mut Rng, _tier: &str, _i: usize, stats: &mut BTreeMap<String, u64>) -> String {
    let n = *r.pick(&[2usize, 8, 16]);
    *stats.entry(format!("threads_{}", n)).or_insert(0) += 1;
    format!("threads\t{}\t{}", n, r.next() % 100000)
}

pub fn run(f: &[&str]) -> String {
    let exe = std::env::current_exe().unwrap();
    match std::process::Command::new(exe).arg("threadchild").arg(f[0]).arg(f[1]).output() {
        Ok(o) => match o.status.code() {
            Some(0) => "r=ok".to_string(),
            Some(c) => format!("r=DIFF code {}", c),
            None => "r=DIED".to_string(),
        },
        Err(_) => "r=SPAWN".to_string(),
    }
}
