//! kind `flat`: FlatEx<Sym> parse / parse_wo_compile / compile / eval / eval_vec / listings.
use crate::gen::*;
use crate::sym::*;
use exmex::prelude::*;
use exmex::{FlatEx, NumberMatcher};
use std::collections::BTreeMap;

type F = FlatEx<Sym, SymOps, NumberMatcher>;

pub fn strs(v: &[String]) -> String {
    format!("[{}]", v.iter().map(|s| hex(s)).collect::<Vec<_>>().join(","))
}
pub fn sym_vars(n: usize) -> Vec<Sym> {
    (0..n).map(Sym::Var).collect()
}
pub fn flagged_of(t: &[OpCfg]) -> impl Fn(usize) -> bool + '_ {
    move |k| t.get(k).and_then(|c| c.bin).map(|b| b.1).unwrap_or(false)
}
pub fn res_nf(r: &exmex::ExResult<Sym>, t: &[OpCfg]) -> String {
    match r {
        Ok(s) => s.assoc_nf(&flagged_of(t)).to_string(),
        Err(_) => "E".into(),
    }
}
pub fn res(r: exmex::ExResult<Sym>) -> String {
    match r {
        Ok(s) => s.to_string(),
        Err(_) => "E".into(),
    }
}

pub fn gen(r: &mut Rng, tier: &str, i: usize, stats: &mut BTreeMap<String, u64>) -> String {
    gen_profile(r, tier, i, stats, "default")
}

pub fn gen_profile(r: &mut Rng, tier: &str, i: usize, stats: &mut BTreeMap<String, u64>, profile: &str) -> String {
    let t = gen_table(r);
    let big = tier == "thorough" && r.chance(1, 200) || (tier == "quick" && i % 1500 == 7);
    let cfg = ChainCfg {
        max_depth: if big { 1 } else { 1 + r.below(5) },
        max_len: if big { 60 + r.below(180) } else { *r.pick(&[2usize, 3, 4, 6, 8]) },
        sub_len: if big { 2 } else { *r.pick(&[1usize, 2, 3, 4]) },
        lit_pct: if profile == "lits" { *r.pick(&[60usize, 75, 90]) } else { *r.pick(&[20usize, 40, 60, 80]) },
        n_vars: 1 + r.below(5),
        call_pct: if profile == "calls" { *r.pick(&[25usize, 40, 60]) } else { *r.pick(&[0usize, 0, 8, 20]) },
        un_pct: *r.pick(&[0usize, 10, 25]),
        braced_pct: *r.pick(&[0usize, 0, 10]),
    };
    let mut c = gen_chain(r, 0, &t, &cfg);
    if profile == "sizes" {
        // flat chains of variables with exactly n operands around the word boundaries of the operand
        // tracker (the public evaluation path chooses the tracker), random operators of the table
        let n = *r.pick(&[62usize, 63, 64, 65, 66, 67, 127, 128, 129, 130]);
        let bins: Vec<usize> = t.iter().enumerate().filter(|(_, o)| o.bin.is_some()).map(|(k, _)| k).collect();
        let name = |k: usize| format!("v{:03}", k % 7);
        let mut ch = Chain::Single(Atom::Var(name(n - 1), true));
        for k in (0..n - 1).rev() {
            ch = Chain::Cons(Atom::Var(name(k), true), bins[r.below(bins.len())], Box::new(ch));
        }
        c = ch;
    }
    let big = big || profile == "sizes";
    // keep generated expressions below ~150 operators unless a long chain was asked for
    let mut tries = 0;
    while !big && c.n_ops() > 150 && tries < 20 {
        c = gen_chain(r, 0, &t, &cfg);
        tries += 1;
    }
    if !big && c.n_ops() > 150 {
        c = Chain::Single(Atom::Lit("1".into()));
    }
    let call_form = profile == "calls" || r.chance(3, 4);
    let space_pct = *r.pick(&[0usize, 0, 20, 60]);
    let (text, sp) = render_gen(&c, &t, call_form, r, space_pct);
    *stats.entry(format!("ops_{}", c.n_ops().min(9))).or_insert(0) += 1;
    if big {
        *stats.entry("big".into()).or_insert(0) += 1;
    }
    format!(
        "flat\t{}\tnum\t{}\t{}\t{}\t{}",
        table_to_field(&t),
        hex(&text),
        c.to_field(),
        spaces_field(&sp),
        if call_form { 1 } else { 0 }
    )
}

pub fn run(f: &[&str]) -> String {
    let t = table_from_field(f[0]);
    set_table(&t);
    let text = unhex(f[2]);
    crate::catch(move || {
        let mut out = String::new();
        {
            use exmex::{MakeOperators, MatchLiteral};
            let ops = SymOps::make();
            match exmex::verif::tokenize::<Sym, _>(&text, &ops, NumberMatcher::is_literal, false) {
                Ok(toks) => out.push_str(&format!("toksimpl={}\t", crate::k_lex::show_tokens(&toks))),
                Err(_) => out.push_str("toksimpl=E\t"),
            }
        }
        match F::parse_wo_compile(&text) {
            Err(_) => {
                out.push_str("wo_nf=E\two=E");
                return out;
            }
            Ok(e) => {
                let v = sym_vars(e.var_names().len());
                let r = e.eval(&v);
                out.push_str(&format!("wo_nf={}\t", res_nf(&r, &t)));
                out.push_str(&format!("wo={}\tvars={}\tnwo={}", res(r), strs(e.var_names()), e.verif_structure().0.len()));
                // consuming evaluation of the UNFOLDED expression (literal nodes still carry unary operators)
                let rc = e.eval_vec(v.clone());
                // through an adaptor whose size hint is not exact: the outcome must not depend on the hint
                let ri = e.eval_iter(v.clone().into_iter().filter(|_| true));
                out.push_str(&format!("\twcons_nf={}\twiter_nf={}", res_nf(&rc, &t), res_nf(&ri, &t)));
            }
        }
        match F::parse(&text) {
            Err(_) => out.push_str("\tc_nf=E\tc=E"),
            Ok(e) => {
                let v = sym_vars(e.var_names().len());
                let r = e.eval(&v);
                out.push_str(&format!("\tc_nf={}", res_nf(&r, &t)));
                out.push_str(&format!("\tc={}\tnc={}", res(r), e.verif_structure().0.len()));
                let mut e2 = e.clone();
                e2.compile();
                let r2 = e2.eval(&v);
                out.push_str(&format!("\trc_nf={}", res_nf(&r2, &t)));
                out.push_str(&format!("\trc={}/{}", res(r2), e2.verif_structure().0.len()));
                VAR_CLONES.with(|c| c.set(0));
                let r = e.eval_vec(v.clone());
                // v.clone() above clones every variable once
                let clones = VAR_CLONES.with(|c| c.get()) - v.len();
                out.push_str(&format!("\tcons_nf={}\tclones={}", res_nf(&r, &t), clones));
                out.push_str(&format!("\tcons={}", match r { Ok(s) => format!("{}/{}", s, clones), Err(_) => "E".into() }));
                out.push_str(&format!("\tbr={}\tur={}", strs(&e.binary_reprs()), strs(&e.unary_reprs())));
            }
        }
        out
    })
}
