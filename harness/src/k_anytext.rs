//! kind `anytext` (C03): sloppy texts that both parsers may accept although they are no renderings
//! of well-formed expressions — groups that start with a binary operator (`* 1 2`), operands next
//! to each other — must still denote the same function in the flat and in the deep form.
use crate::gen::*;
use crate::k_flat::{res_nf, strs, sym_vars};
use crate::sym::*;
use exmex::prelude::*;
use exmex::{DeepEx, FlatEx, MakeOperators, MatchLiteral, NumberMatcher};
use std::collections::BTreeMap;

type F = FlatEx<Sym, SymOps, NumberMatcher>;
type D<'a> = DeepEx<'a, Sym, SymOps, NumberMatcher>;

pub fn table() -> Vec<OpCfg> {
    vec![
        OpCfg { name: "+".into(), bin: Some((1, true)), un: false, konst: false },
        OpCfg { name: "-".into(), bin: Some((1, false)), un: true, konst: false },
        OpCfg { name: "*".into(), bin: Some((2, true)), un: false, konst: false },
        OpCfg { name: "^".into(), bin: Some((3, false)), un: false, konst: false },
        OpCfg { name: "s".into(), bin: None, un: true, konst: false },
    ]
}

fn operand(r: &mut Rng, depth: usize) -> String {
    match r.below(if depth >= 3 { 3 } else { 7 }) {
        0 => (*r.pick(&["1", "2", "3"])).to_string(),
        1 | 2 => (*r.pick(&["x", "y", "z"])).to_string(),
        3 => format!("({})", group(r, depth + 1)),
        4 => format!("s({})", group(r, depth + 1)),
        5 => format!("-({})", group(r, depth + 1)),
        _ => format!("({})", group(r, depth + 1)),
    }
}

/// a group: optionally some leading binary operators, then operands with or without operators between them
fn group(r: &mut Rng, depth: usize) -> String {
    let bins = ["+", "-", "*", "^"];
    let mut s = String::new();
    let lead = if r.chance(1, 2) { 1 + r.below(2) } else { 0 };
    for _ in 0..lead {
        s.push_str(*r.pick(&["*", "^", "+"]));
        s.push(' ');
    }
    let n = 1 + lead + r.below(3);
    let mut owed = lead;
    for k in 0..n {
        if k > 0 {
            // an operator between two operands unless one is still owed to a leading operator
            if owed > 0 && r.chance(2, 3) {
                owed -= 1;
                s.push(' ');
            } else {
                s.push_str(*r.pick(&bins));
            }
        }
        s.push_str(&operand(r, depth));
    }
    s
}

pub fn gen(r: &mut Rng, _tier: &str, _i: usize, stats: &mut BTreeMap<String, u64>) -> String {
    let t = table();
    let text = group(r, 0);
    *stats.entry(format!("len_{}", (text.len() / 8) * 8)).or_insert(0) += 1;
    format!("anytext\t{}\tnum\t{}", table_to_field(&t), hex(&text))
}

pub fn run(f: &[&str]) -> String {
    let t = table_from_field(f[0]);
    set_table(&t);
    let text = unhex(f[2]);
    crate::catch(move || {
        let cls = |ok: bool| if ok { 'o' } else { 'e' };
        let fl = F::parse(&text);
        let wo = F::parse_wo_compile(&text);
        let dp = D::parse(&text);
        let acc = format!("{}{}{}", cls(fl.is_ok()), cls(wo.is_ok()), cls(dp.is_ok()));
        let val_f = |e: &F| res_nf(&e.eval(&sym_vars(e.var_names().len())), &t);
        let fv = fl.as_ref().map(|e| val_f(e)).unwrap_or_else(|_| "-".into());
        let wv = wo.as_ref().map(|e| val_f(e)).unwrap_or_else(|_| "-".into());
        let dv = dp.as_ref().map(|e| res_nf(&e.eval(&sym_vars(e.var_names().len())), &t)).unwrap_or_else(|_| "-".into());
        // a group that starts with a binary operator (no operand on its left)
        let ops = SymOps::make();
        let lead = match exmex::verif::tokenize::<Sym, _>(&text, &ops, NumberMatcher::is_literal, false) {
            Ok(toks) => toks.iter().enumerate().any(|(i, tk)| match tk {
                exmex::verif::VerifToken::Op(k) => {
                    t[*k].bin.is_some() && !t[*k].un && (i == 0 || matches!(toks[i - 1], exmex::verif::VerifToken::Open))
                }
                _ => false,
            }),
            Err(_) => false,
        };
        let agree = match (&fl, &wo, &dp) {
            (Ok(a), Ok(w), Ok(d)) => {
                if a.var_names() != d.var_names() || w.var_names() != d.var_names() {
                    format!("VARS flat={} deep={}", strs(a.var_names()), strs(d.var_names()))
                } else if fv != dv || wv != dv {
                    format!("DIFF flat={} unfolded={} deep={}", fv, wv, dv)
                } else {
                    "ok".to_string()
                }
            }
            _ => "-".to_string(),
        };
        // conversions of whatever was accepted: flat -> deep -> flat and deep -> flat -> deep keep the value
        let mut conv = "ok".to_string();
        if let Ok(a) = &fl {
            match a.clone().to_deepex() {
                Ok(d2) => {
                    let v2 = res_nf(&d2.eval(&sym_vars(d2.var_names().len())), &t);
                    if v2 != fv || d2.var_names() != a.var_names() {
                        conv = format!("flat->deep gives {} instead of {}", v2, fv);
                    }
                    match F::from_deepex(d2) {
                        Ok(g) => {
                            let v3 = val_f(&g);
                            if (v3 != fv || g.var_names() != a.var_names()) && conv == "ok" {
                                conv = format!("flat->deep->flat gives {} instead of {}", v3, fv);
                            }
                        }
                        Err(_) => conv = "flat->deep->flat fails".into(),
                    }
                }
                Err(_) => conv = "flat->deep fails".into(),
            }
        }
        if let Ok(d) = &dp {
            match F::from_deepex(d.clone()) {
                Ok(g) => {
                    let v2 = val_f(&g);
                    if (v2 != dv || g.var_names() != d.var_names()) && conv == "ok" {
                        conv = format!("deep->flat gives {} instead of {}", v2, dv);
                    }
                }
                Err(_) => conv = "deep->flat fails".into(),
            }
        }
        format!("acc={}\tfv={}\twv={}\tdv={}\tagree={}\tconv={}\tlead={}", acc, fv, wv, dv, agree, conv, if lead { 1 } else { 0 })
    })
}
