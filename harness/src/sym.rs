//! Free term algebra data type + runtime-configurable operator table for the real library.
use exmex::{BinOp, MakeOperators, Operator};
use std::fmt;
use std::str::FromStr;
use std::sync::RwLock;

thread_local! {
    /// number of times a `Sym::Var` (a variable value) has been cloned on this thread
    pub static VAR_CLONES: std::cell::Cell<usize> = const { std::cell::Cell::new(0) };
}

impl Clone for Sym {
    fn clone(&self) -> Sym {
        match self {
            Sym::Hole => Sym::Hole,
            Sym::Lit(s) => Sym::Lit(s.clone()),
            Sym::Var(i) => {
                VAR_CLONES.with(|c| c.set(c.get() + 1));
                Sym::Var(*i)
            }
            Sym::Const(k) => Sym::Const(*k),
            Sym::Un(k, a) => Sym::Un(*k, a.clone()),
            Sym::Bin(k, a, b) => Sym::Bin(*k, a.clone(), b.clone()),
        }
    }
}

#[derive(Default, PartialEq, Eq, PartialOrd, Ord, Hash)]
pub enum Sym {
    #[default]
    Hole,
    Lit(String),
    Var(usize),
    Const(usize),
    Un(usize, Box<Sym>),
    Bin(usize, Box<Sym>, Box<Sym>),
}

impl fmt::Display for Sym {
    fn fmt(&self, f: &mut fmt::Formatter<'_>) -> fmt::Result {
        match self {
            Sym::Hole => write!(f, "H"),
            Sym::Lit(s) => write!(f, "L{}", s),
            Sym::Var(i) => write!(f, "V{}", i),
            Sym::Const(k) => write!(f, "K{}", k),
            Sym::Un(k, a) => write!(f, "(U{} {})", k, a),
            Sym::Bin(k, a, b) => write!(f, "(B{} {} {})", k, a, b),
        }
    }
}
/// `Debug` is what `DeepEx::unparse` prints for a literal: a literal prints as its text, a folded
/// value as a re-parseable expression over the operator names of the current table.
impl fmt::Debug for Sym {
    fn fmt(&self, f: &mut fmt::Formatter<'_>) -> fmt::Result {
        let name = |k: usize| -> String { TABLE.read().unwrap().get(k).map(|c| c.name.to_string()).unwrap_or_default() };
        match self {
            Sym::Hole => write!(f, "HOLE"),
            Sym::Lit(s) => write!(f, "{}", s),
            Sym::Var(i) => write!(f, "VAR{}", i),
            Sym::Const(k) => write!(f, "({})", name(*k)),
            Sym::Un(k, a) => write!(f, "{}({:?})", name(*k), a),
            Sym::Bin(k, a, b) => write!(f, "({:?} {} {:?})", a, name(*k), b),
        }
    }
}
impl FromStr for Sym {
    type Err = String;
    fn from_str(s: &str) -> Result<Self, String> {
        Ok(Sym::Lit(s.to_string()))
    }
}
impl From<u8> for Sym {
    fn from(x: u8) -> Self {
        Sym::Lit(format!("{}", x))
    }
}
impl From<f32> for Sym {
    fn from(x: f32) -> Self {
        Sym::Lit(format!("{:?}", x))
    }
}

impl Sym {
    /// Normal form modulo associativity of flagged operators: nests of one flagged operator
    /// become left combs.
    pub fn assoc_nf(&self, flagged: &dyn Fn(usize) -> bool) -> Sym {
        match self {
            Sym::Bin(k, _, _) if flagged(*k) => {
                fn collect(s: &Sym, k: usize, flagged: &dyn Fn(usize) -> bool, out: &mut Vec<Sym>) {
                    match s {
                        Sym::Bin(k2, a, b) if *k2 == k => {
                            collect(a, k, flagged, out);
                            collect(b, k, flagged, out);
                        }
                        _ => out.push(s.assoc_nf(flagged)),
                    }
                }
                let mut v = vec![];
                collect(self, *k, flagged, &mut v);
                let mut it = v.into_iter();
                let mut acc = it.next().unwrap();
                for x in it {
                    acc = Sym::Bin(*k, Box::new(acc), Box::new(x));
                }
                acc
            }
            Sym::Bin(k, a, b) => Sym::Bin(*k, Box::new(a.assoc_nf(flagged)), Box::new(b.assoc_nf(flagged))),
            Sym::Un(k, a) => Sym::Un(*k, Box::new(a.assoc_nf(flagged))),
            _ => self.clone(),
        }
    }
}

#[derive(Clone, Debug, PartialEq)]
pub struct OpCfg {
    pub name: String,
    pub bin: Option<(i64, bool)>,
    pub un: bool,
    pub konst: bool,
}

pub struct LeakedCfg {
    pub name: &'static str,
    pub bin: Option<(i64, bool)>,
    pub un: bool,
    pub konst: bool,
}

pub static TABLE: RwLock<Vec<LeakedCfg>> = RwLock::new(Vec::new());

pub fn set_table(t: &[OpCfg]) {
    let mut w = TABLE.write().unwrap();
    w.clear();
    for c in t {
        w.push(LeakedCfg {
            name: Box::leak(c.name.clone().into_boxed_str()),
            bin: c.bin,
            un: c.un,
            konst: c.konst,
        });
    }
}

macro_rules! mk_fns { ($($k:literal),*) => {
    pub const BINS: &[fn(Sym,Sym)->Sym] = &[$( |a,b| Sym::Bin($k, Box::new(a), Box::new(b)) ),*];
    pub const UNS: &[fn(Sym)->Sym] = &[$( |a| Sym::Un($k, Box::new(a)) ),*];
}}
mk_fns!(
    0, 1, 2, 3, 4, 5, 6, 7, 8, 9, 10, 11, 12, 13, 14, 15, 16, 17, 18, 19, 20, 21, 22, 23, 24, 25, 26, 27, 28,
    29, 30, 31, 32, 33, 34, 35, 36, 37, 38, 39, 40, 41, 42, 43, 44, 45, 46, 47, 48, 49, 50, 51, 52, 53, 54,
    55, 56, 57, 58, 59, 60, 61, 62, 63
);

#[derive(Clone, Debug)]
pub struct SymOps;
impl MakeOperators<Sym> for SymOps {
    fn make<'a>() -> Vec<Operator<'a, Sym>> {
        TABLE
            .read()
            .unwrap()
            .iter()
            .enumerate()
            .map(|(k, c)| {
                if c.konst {
                    return Operator::make_constant(c.name, Sym::Const(k));
                }
                match (c.bin, c.un) {
                    (Some((p, comm)), false) => Operator::make_bin(
                        c.name,
                        BinOp { apply: BINS[k], prio: p, is_commutative: comm },
                    ),
                    (Some((p, comm)), true) => Operator::make_bin_unary(
                        c.name,
                        BinOp { apply: BINS[k], prio: p, is_commutative: comm },
                        UNS[k],
                    ),
                    (None, true) => Operator::make_unary(c.name, UNS[k]),
                    _ => unreachable!(),
                }
            })
            .collect()
    }
}

pub fn hex(s: &str) -> String {
    if s.is_empty() {
        return "-".to_string();
    }
    s.bytes().map(|b| format!("{:02x}", b)).collect()
}
pub fn unhex(s: &str) -> String {
    if s == "-" {
        return String::new();
    }
    let b: Vec<u8> = (0..s.len() / 2).map(|i| u8::from_str_radix(&s[2 * i..2 * i + 2], 16).unwrap_or(0)).collect();
    String::from_utf8_lossy(&b).to_string()
}

pub fn table_to_field(t: &[OpCfg]) -> String {
    if t.is_empty() {
        return "-".into();
    }
    t.iter()
        .map(|c| {
            format!(
                "{}:{}:{}:{}",
                hex(&c.name),
                match c.bin {
                    Some((p, comm)) => format!("{},{}", p, if comm { "c" } else { "n" }),
                    None => "-".into(),
                },
                if c.un { "u" } else { "-" },
                if c.konst { "k" } else { "-" }
            )
        })
        .collect::<Vec<_>>()
        .join(";")
}
pub fn table_from_field(s: &str) -> Vec<OpCfg> {
    if s == "-" {
        return vec![];
    }
    s.split(';')
        .map(|e| {
            let p: Vec<&str> = e.split(':').collect();
            OpCfg {
                name: unhex(p[0]),
                bin: if p[1] == "-" {
                    None
                } else {
                    let q: Vec<&str> = p[1].split(',').collect();
                    Some((q[0].parse().unwrap(), q[1] == "c"))
                },
                un: p[2] == "u",
                konst: p[3] == "k",
            }
        })
        .collect()
}
