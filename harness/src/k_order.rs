//! kinds `order`/`orderx` (eval_binary through the hook with arbitrary application orders) and
//! `track` (NumberTracker driven directly).
use crate::gen::*;
use crate::sym::*;
use exmex::verif::{eval_binary, NumberTracker, OperateBinary};
use std::collections::BTreeMap;

struct OpK(usize);
impl OperateBinary<Sym> for OpK {
    fn apply(&self, a: Sym, b: Sym) -> Sym {
        Sym::Bin(self.0, Box::new(a), Box::new(b))
    }
}

fn perm_field(p: &[usize]) -> String {
    if p.is_empty() {
        "-".into()
    } else {
        p.iter().map(|x| x.to_string()).collect::<Vec<_>>().join(",")
    }
}

/// the i-th permutation in the enumeration "all orders of k operators, k = 1..=8"
pub fn gen_exhaustive(i: usize) -> String {
    let mut fact = vec![1usize; 10];
    for k in 1..10 {
        fact[k] = fact[k - 1] * k;
    }
    let mut idx = i % 46233;
    let mut k = 1;
    while idx >= fact[k] {
        idx -= fact[k];
        k += 1;
    }
    // Lehmer decode
    let mut items: Vec<usize> = (0..k).collect();
    let mut p = vec![];
    for j in (0..k).rev() {
        let d = idx / fact[j];
        idx %= fact[j];
        p.push(items.remove(d));
    }
    format!("order\t{}\t{}", k + 1, perm_field(&p))
}

pub fn gen(r: &mut Rng, tier: &str, _i: usize, stats: &mut BTreeMap<String, u64>) -> String {
    let sizes: &[usize] = if tier == "thorough" {
        &[3, 9, 17, 31, 32, 33, 63, 64, 65, 66, 67, 127, 128, 129, 130, 191, 192, 193, 194, 255, 256, 257, 258, 300, 511, 513, 1000]
    } else {
        &[3, 9, 31, 32, 33, 63, 64, 65, 66, 127, 128, 129, 130, 191, 192, 193, 194, 257, 1000]
    };
    let n = *r.pick(sizes);
    let k = n - 1;
    let shape = r.below(8);
    let mut p: Vec<usize> = (0..k).collect();
    match shape {
        0 => {}
        1 => p.reverse(),
        2 => {
            // alternating: evens ascending then odds descending
            p = (0..k).filter(|x| x % 2 == 0).chain((0..k).rev().filter(|x| x % 2 == 1)).collect();
        }
        3 => {
            // inside-out from the middle
            let mid = k / 2;
            p = vec![];
            for d in 0..=k {
                if mid + d < k {
                    p.push(mid + d);
                }
                if d > 0 && d <= mid {
                    p.push(mid - d);
                }
            }
        }
        4 => {
            // zig-zag across word boundaries: positions near multiples of 64 first
            p.sort_by_key(|x| ((*x as i64 % 64) - 32).abs());
            p.reverse();
        }
        5 => {
            // outside-in
            let mut q = vec![];
            let (mut a, mut b) = (0i64, k as i64 - 1);
            while a <= b {
                q.push(a as usize);
                if a != b {
                    q.push(b as usize);
                }
                a += 1;
                b -= 1;
            }
            p = q;
        }
        _ => {
            for i in (1..k).rev() {
                let j = r.below(i + 1);
                p.swap(i, j);
            }
        }
    }
    // occasionally an incomplete order (not every operator applied)
    if r.chance(1, 10) && !p.is_empty() {
        let cut = r.below(p.len());
        p.truncate(cut);
    }
    *stats.entry(format!("n_{}", n)).or_insert(0) += 1;
    *stats.entry(format!("shape_{}", shape.min(6))).or_insert(0) += 1;
    format!("order\t{}\t{}", n, perm_field(&p))
}

pub fn run_order(f: &[&str]) -> String {
    let n: usize = f[0].parse().unwrap();
    let p: Vec<usize> = if f[1] == "-" { vec![] } else { f[1].split(',').map(|x| x.parse().unwrap()).collect() };
    let ops: Vec<OpK> = (0..n.saturating_sub(1)).map(OpK).collect();
    let p1 = p.clone();
    let w = if n <= 64 {
        crate::catch(move || {
            let mut numbers: Vec<Sym> = (0..n).map(Sym::Var).collect();
            let mut t: usize = 0;
            eval_binary(&mut numbers[..], &ops, &p1, &mut t).to_string()
        })
    } else {
        "-".into()
    };
    let ops: Vec<OpK> = (0..n.saturating_sub(1)).map(OpK).collect();
    let ws = crate::catch(move || {
        let mut numbers: Vec<Sym> = (0..n).map(Sym::Var).collect();
        let mut t: Vec<usize> = vec![0; 1 + n / 64];
        eval_binary(&mut numbers[..], &ops, &p, &mut t[..]).to_string()
    });
    format!("w={}\tws={}", w, ws)
}

pub fn gen_track(r: &mut Rng, _tier: &str, _i: usize, stats: &mut BTreeMap<String, u64>) -> String {
    let nwords = *r.pick(&[0usize, 0, 1, 2, 3, 4, 5]);
    let nslots = if nwords == 0 { 64 } else { 64 * nwords };
    let mut consumed = vec![false; nslots];
    let len = 20 + r.below(200);
    let mut ops: Vec<String> = vec![];
    // bias: consume long runs so that carries across full words happen
    let run_mode = r.chance(1, 2);
    let mut cursor = 1 + r.below(nslots - 1);
    for _ in 0..len {
        let kind = r.below(3);
        match kind {
            0 => {
                let i = if run_mode && r.chance(3, 4) {
                    let c = cursor;
                    cursor = if cursor + 1 < nslots { cursor + 1 } else { 1 + r.below(nslots - 1) };
                    c
                } else {
                    1 + r.below(nslots - 1)
                };
                consumed[i] = true;
                ops.push(format!("i{}", i));
            }
            1 => {
                // slot 0 is never consumed, so a live slot at or below always exists
                let i = r.below(nslots);
                ops.push(format!("p{}", i));
            }
            _ => {
                let i = r.below(nslots);
                if (i + 1..nslots).any(|j| !consumed[j]) {
                    ops.push(format!("n{}", i));
                }
            }
        }
    }
    *stats.entry(format!("words_{}", nwords)).or_insert(0) += 1;
    format!("track\t{}\t{}", nwords, if ops.is_empty() { "-".to_string() } else { ops.join(",") })
}

pub fn run_track(f: &[&str]) -> String {
    let nwords: usize = f[0].parse().unwrap();
    let ops: Vec<String> = if f[1] == "-" { vec![] } else { f[1].split(',').map(|s| s.to_string()).collect() };
    crate::catch(move || {
        let mut out: Vec<String> = vec![];
        if nwords == 0 {
            let mut t: usize = 0;
            for o in &ops {
                let i: usize = o[1..].parse().unwrap();
                match &o[..1] {
                    "p" => out.push(t.get_previous(i).to_string()),
                    "n" => out.push(t.get_next(i).to_string()),
                    _ => t.ignore(i),
                }
            }
        } else {
            let mut v: Vec<usize> = vec![0; nwords];
            for o in &ops {
                let i: usize = o[1..].parse().unwrap();
                match &o[..1] {
                    "p" => out.push(v[..].get_previous(i).to_string()),
                    "n" => out.push(v[..].get_next(i).to_string()),
                    _ => v[..].ignore(i),
                }
            }
        }
        format!("r={}", out.join(","))
    })
}
