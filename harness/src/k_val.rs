//! kind `valop`: operator functions of `ValOpsFactory::<i32, f64>::make()` applied directly.
use crate::gen::*;
use crate::sym::hex;
use exmex::{ExError, MakeOperators, Val, ValOpsFactory};
use smallvec::SmallVec;
use std::collections::BTreeMap;

type V = Val<i32, f64>;

pub fn enc(v: &V) -> String {
    match v {
        Val::None => "n".into(),
        Val::Error(_) => "e".into(),
        Val::Int(i) => format!("i:{}", i),
        Val::Bool(b) => format!("b:{}", if *b { 1 } else { 0 }),
        Val::Float(x) => format!("f:{:016x}", x.to_bits()),
        Val::Array(a) => format!("a:{}", a.iter().map(|x| format!("{:016x}", x.to_bits())).collect::<Vec<_>>().join(";")),
    }
}
pub fn dec(s: &str) -> V {
    if s == "n" {
        Val::None
    } else if s == "e" {
        Val::Error(ExError::new("e"))
    } else if let Some(r) = s.strip_prefix("i:") {
        Val::Int(r.parse().unwrap())
    } else if let Some(r) = s.strip_prefix("b:") {
        Val::Bool(r == "1")
    } else if let Some(r) = s.strip_prefix("f:") {
        Val::Float(f64::from_bits(u64::from_str_radix(r, 16).unwrap()))
    } else if let Some(r) = s.strip_prefix("a:") {
        let mut a: SmallVec<[f64; 4]> = SmallVec::new();
        if !r.is_empty() {
            for h in r.split(';') {
                a.push(f64::from_bits(u64::from_str_radix(h, 16).unwrap()));
            }
        }
        Val::Array(a)
    } else {
        Val::None
    }
}

pub fn catalogue() -> Vec<V> {
    let mut v: Vec<V> = vec![];
    for i in [i32::MIN, i32::MIN + 1, -65536, -13, -1, 0, 1, 2, 3, 12, 13, 31, 32, 33, 65536, i32::MAX - 1, i32::MAX] {
        v.push(Val::Int(i));
    }
    for x in [
        0.0, -0.0, 1.0, -1.0, 0.5, -0.5, 2.5, 3.0, 5e-324, 1e308, -1e308, f64::INFINITY, f64::NEG_INFINITY, f64::NAN, 2147483647.0,
        2147483647.5, 2147483648.0, -2147483648.0, -2147483648.9, -2147483649.0, 1e10, 31.0, 1e-7,
    ] {
        v.push(Val::Float(x));
    }
    v.push(Val::Bool(true));
    v.push(Val::Bool(false));
    let arrs: Vec<Vec<f64>> = vec![vec![], vec![1.0], vec![1.0, 2.0], vec![1.0, 2.0, 3.0], vec![0.5, -1.5, 2.0], vec![f64::NAN, f64::INFINITY, 0.0], vec![1.0, 2.0, 3.0, 4.0, 5.0]];
    for a in arrs {
        v.push(Val::Array(a.into_iter().collect()));
    }
    v.push(Val::None);
    v.push(Val::Error(ExError::new("e")));
    v
}

fn op_lists() -> (Vec<String>, Vec<String>) {
    let ops = ValOpsFactory::<i32, f64>::make();
    let bins = ops.iter().filter(|o| o.has_bin()).map(|o| o.repr().to_string()).collect();
    let uns = ops.iter().filter(|o| o.has_unary()).map(|o| o.repr().to_string()).collect();
    (bins, uns)
}

/// exhaustive enumeration: every unary x every value, then every binary x every ordered pair
pub fn n_exhaustive() -> usize {
    let (b, u) = op_lists();
    let c = catalogue().len();
    u.len() * c + b.len() * c * c
}
pub fn gen_exhaustive(i: usize) -> String {
    let (b, u) = op_lists();
    let cat = catalogue();
    let c = cat.len();
    let i = i % n_exhaustive();
    if i < u.len() * c {
        format!("valop\tun\t{}\t{}", hex(&u[i / c]), enc(&cat[i % c]))
    } else {
        let j = i - u.len() * c;
        format!("valop\tbin\t{}\t{}\t{}", hex(&b[j / (c * c)]), enc(&cat[(j / c) % c]), enc(&cat[j % c]))
    }
}

fn rand_val(r: &mut Rng) -> V {
    match r.below(10) {
        0..=3 => Val::Int(match r.below(4) {
            0 => r.next() as i32,
            1 => (r.below(200) as i32) - 100,
            2 => i32::MAX - r.below(3) as i32,
            _ => i32::MIN + r.below(3) as i32,
        }),
        4..=6 => Val::Float(match r.below(4) {
            0 => f64::from_bits(r.next()),
            1 => (r.below(2000) as f64 - 1000.0) / 8.0,
            2 => (r.next() as i32) as f64 + 0.5,
            _ => (r.below(64) as f64).exp2() * if r.chance(1, 2) { 1.0 } else { -1.0 },
        }),
        7 => Val::Bool(r.chance(1, 2)),
        8 => {
            let n = r.below(6);
            Val::Array((0..n).map(|_| (r.below(200) as f64 - 100.0) / 4.0).collect())
        }
        _ => {
            if r.chance(1, 2) {
                Val::None
            } else {
                Val::Error(ExError::new("e"))
            }
        }
    }
}

pub fn gen(r: &mut Rng, _tier: &str, _i: usize, stats: &mut BTreeMap<String, u64>) -> String {
    let (b, u) = op_lists();
    if r.chance(1, 4) {
        let name = r.pick(&u).clone();
        *stats.entry("unary".into()).or_insert(0) += 1;
        format!("valop\tun\t{}\t{}", hex(&name), enc(&rand_val(r)))
    } else {
        let name = r.pick(&b).clone();
        *stats.entry("binary".into()).or_insert(0) += 1;
        format!("valop\tbin\t{}\t{}\t{}", hex(&name), enc(&rand_val(r)), enc(&rand_val(r)))
    }
}

pub fn run(f: &[&str]) -> String {
    let name = crate::sym::unhex(f[1]);
    let ops = ValOpsFactory::<i32, f64>::make();
    let op = match ops.iter().find(|o| o.repr() == name && ((f[0] == "bin" && o.has_bin()) || (f[0] == "un" && o.has_unary()))) {
        Some(o) => o.clone(),
        None => return "r=NOOP".into(),
    };
    let a = dec(f[2]);
    if f[0] == "un" {
        let fun = op.unary().unwrap();
        match std::panic::catch_unwind(move || fun(a)) {
            Ok(v) => format!("r={}", enc(&v)),
            Err(_) => "r=PANIC".into(),
        }
    } else {
        let b = dec(f[3]);
        let fun = op.bin().unwrap().apply;
        match std::panic::catch_unwind(move || fun(a, b)) {
            Ok(v) => format!("r={}", enc(&v)),
            Err(_) => "r=PANIC".into(),
        }
    }
}

// ---------------------------------------------------------------------------------------------
// kind `valexpr`: whole expressions over the value table through parse_val (literals folded at
// parse time) and eval (variables)

const VNAMES: &[&str] = &["v", "x", "y", "z"];

fn gen_vexpr(r: &mut Rng, depth: usize, used: &mut Vec<usize>) -> String {
    let roll = r.below(20);
    if depth >= 3 || roll < 7 {
        // leaf
        return match r.below(12) {
            0..=3 => {
                let i = r.below(VNAMES.len());
                if !used.contains(&i) {
                    used.push(i);
                }
                VNAMES[i].to_string()
            }
            4..=5 => format!("{}", r.below(20)),
            6 => r.pick(&["2147483647", "2147483648", "99999999999", "0", "1", "31", "32", "13"]).to_string(),
            7..=8 => format!("{}.{}", r.below(10), r.below(100)),
            9 => r.pick(&["10000000000.0", "0.0", "2147483647.5", "1.0", "0.5"]).to_string(),
            10 => r.pick(&["true", "false"]).to_string(),
            _ => r.pick(&["[1, 2, 3]", "[0.5,2]", "[1]", "[3, 4.5, 1, 2]", "[ 1 , 2 ]"]).to_string(),
        };
    }
    if roll < 10 {
        let u = *r.pick(&["-", "+", "abs", "sin", "to_int", "to_float", "fact", "signum", "sqrt", "floor", "length", "ln", "swap_bytes", "round"]);
        let inner = gen_vexpr(r, depth + 1, used);
        return if r.chance(1, 3) && (u == "-" || u == "+") { format!("{}{}", u, inner) } else { format!("{}({})", u, inner) };
    }
    if roll < 12 {
        // piecewise
        return format!("{} if {} else {}", gen_vexpr(r, depth + 1, used), gen_vexpr(r, depth + 1, used), gen_vexpr(r, depth + 1, used));
    }
    let o = *r.pick(&["+", "-", "*", "/", "^", "%", "|", "&", "XOR", "<<", ">>", "&&", "||", "==", "!=", "<", "<=", ">", ">=", "min", "max", "dot", "cross", ".", "atan2", "+", "*", "-"]);
    let a = gen_vexpr(r, depth + 1, used);
    let b = gen_vexpr(r, depth + 1, used);
    match r.below(4) {
        0 => format!("({}) {} ({})", a, o, b),
        1 if o.chars().all(|c| c.is_alphabetic()) => format!("{}({}, {})", o, a, b),
        _ => format!("{} {} {}", a, o, b),
    }
}

pub fn gen_expr(r: &mut Rng, _tier: &str, _i: usize, stats: &mut BTreeMap<String, u64>) -> String {
    let mut used = vec![];
    let text = gen_vexpr(r, 0, &mut used);
    used.sort_by_key(|i| VNAMES[*i]);
    let vals: Vec<String> = used.iter().map(|_| enc(&rand_val(r))).collect();
    *stats.entry(format!("nvars_{}", used.len())).or_insert(0) += 1;
    format!("valexpr\t{}\t{}", hex(&text), if vals.is_empty() { "-".to_string() } else { vals.join("|") })
}

pub fn run_expr(f: &[&str]) -> String {
    let text = crate::sym::unhex(f[0]);
    let vals: Vec<V> = if f[1] == "-" { vec![] } else { f[1].split('|').map(dec).collect() };
    let t2 = text.clone();
    let parsed = std::panic::catch_unwind(move || exmex::parse_val::<i32, f64>(&t2));
    match parsed {
        Err(_) => "p=PANIC".into(),
        Ok(Err(_)) => "p=E".into(),
        Ok(Ok(e)) => {
            use exmex::Express;
            let vars = e.var_names().to_vec();
            let r = std::panic::catch_unwind(std::panic::AssertUnwindSafe(|| e.eval(&vals)));
            let rs = match r {
                Err(_) => "PANIC".to_string(),
                Ok(Err(_)) => "E".to_string(),
                Ok(Ok(v)) => enc(&v),
            };
            format!("p=ok\tvars={}\tr={}", crate::k_flat::strs(&vars), rs)
        }
    }
}

// ---------------------------------------------------------------------------------------------
// kind `chain3`: `t0 o t1 o t2` with ONE binary operator of the built-in value / float table, one
// term a variable, the others literals. Documented semantics: left to right, i.e. (t0 o t1) o t2;
// only the operators the documentation flags as re-associable (`+ * dot | & XOR && ||` of the
// value table, `+ *` of the float table) may be regrouped/reordered when literals are folded.
// Judged inside the harness against the operator function of the table applied by hand.

const VAL_FLAGGED: &[&str] = &["+", "dot", "*", "|", "&", "XOR", "&&", "||"];
const F64_FLAGGED: &[&str] = &["+", "*"];
const VAL_LITS: &[&str] = &[
    "0", "1", "2", "3", "8", "13", "31", "32", "40", "65536", "2147483647", "2147483646", "0.0", "0.5", "1.0", "2.5", "3.0", "10000000000.0", "2147483647.5",
    "true", "false", "[1, 2, 3]", "[0.5, 2]", "[1]", "[3, 4.5, 1]", "(-1)", "(-13)", "(-0.5)",
];
const F64_LITS: &[&str] = &["0", "1", "2", "3", "8", "0.5", "2.5", "0.1", "0.7", "10000000000.0", "0.0000001", "100000000000000000000000000000000000000000.0", "7.25", "(-1)", "(-2.5)", "(-0.1)"];

pub fn gen_chain3(r: &mut Rng, _tier: &str, _i: usize, stats: &mut BTreeMap<String, u64>) -> String {
    let val = r.chance(2, 3);
    let (name, a, b, x) = if val {
        let (bops, _) = op_lists();
        if r.chance(1, 2) {
            // integers only: shifts, bit operators, powers and remainders are defined there
            let ints = &VAL_LITS[..12];
            let x = Val::Int(match r.below(3) {
                0 => r.below(5000) as i32,
                1 => (r.next() as i32) >> r.below(24),
                _ => r.next() as i32,
            });
            (r.pick(&bops).clone(), r.pick(ints).to_string(), r.pick(ints).to_string(), enc(&x))
        } else {
            (r.pick(&bops).clone(), r.pick(VAL_LITS).to_string(), r.pick(VAL_LITS).to_string(), enc(&rand_val(r)))
        }
    } else {
        use exmex::FloatOpsFactory;
        let bops: Vec<String> = FloatOpsFactory::<f64>::make().iter().filter(|o| o.has_bin()).map(|o| o.repr().to_string()).collect();
        let x = match r.below(4) {
            0 => (r.below(2000) as f64 - 1000.0) / 8.0,
            1 => r.below(20) as f64,
            2 => (r.below(1000) as f64) / 1000.0,
            _ => f64::from_bits(r.next()),
        };
        (r.pick(&bops).clone(), r.pick(F64_LITS).to_string(), r.pick(F64_LITS).to_string(), format!("{:016x}", x.to_bits()))
    };
    let pos = r.below(3);
    *stats.entry(format!("{}_pos{}", if val { "val" } else { "f64" }, pos)).or_insert(0) += 1;
    format!("chain3\t{}\t{}\t{}\t{}\t{}\t{}", if val { "val" } else { "f64" }, hex(&name), pos, hex(&a), hex(&b), x)
}

fn same_f(a: f64, b: f64) -> bool {
    (a.is_nan() && b.is_nan()) || a.to_bits() == b.to_bits()
}
fn same_v(a: &V, b: &V) -> bool {
    match (a, b) {
        (Val::Float(x), Val::Float(y)) => same_f(*x, *y),
        (Val::Array(x), Val::Array(y)) => x.len() == y.len() && x.iter().zip(y.iter()).all(|(p, q)| same_f(*p, *q)),
        (Val::Error(_), Val::Error(_)) => true,
        (Val::None, Val::None) => true,
        (Val::Int(x), Val::Int(y)) => x == y,
        (Val::Bool(x), Val::Bool(y)) => x == y,
        _ => false,
    }
}

/// all values the three terms may legitimately produce: left-to-right, plus every grouping of
/// every order when the operator is documented as re-associable
fn allowed<T: Clone>(f: fn(T, T) -> T, t: [T; 3], flagged: bool) -> Vec<T> {
    let g = |i: usize, j: usize, k: usize| -> Vec<T> {
        vec![f(f(t[i].clone(), t[j].clone()), t[k].clone()), f(t[i].clone(), f(t[j].clone(), t[k].clone()))]
    };
    if !flagged {
        return vec![f(f(t[0].clone(), t[1].clone()), t[2].clone())];
    }
    let mut v = vec![];
    for (i, j, k) in [(0, 1, 2), (0, 2, 1), (1, 0, 2), (1, 2, 0), (2, 0, 1), (2, 1, 0)] {
        v.extend(g(i, j, k));
    }
    v
}

pub fn run_chain3(f: &[&str]) -> String {
    use exmex::{DeepEx, Express, FlatEx, FlatExVal, FloatOpsFactory};
    let name = crate::sym::unhex(f[1]);
    let pos: usize = f[2].parse().unwrap();
    let (a, b) = (crate::sym::unhex(f[3]), crate::sym::unhex(f[4]));
    let mut terms = vec![a.clone(), b.clone()];
    terms.insert(pos, "v".to_string());
    let text = format!("{} {} {} {} {}", terms[0], name, terms[1], name, terms[2]);
    let xs = f[5].to_string();
    let is_val = f[0] == "val";
    let res = std::panic::catch_unwind(move || -> Result<String, String> {
        if is_val {
            let ops = ValOpsFactory::<i32, f64>::make();
            let op = ops.iter().find(|o| o.repr() == name && o.has_bin()).ok_or("NOOP")?;
            let fun = op.bin().unwrap().apply;
            let x = dec(&xs);
            let lit = |s: &str| -> Result<V, String> { exmex::parse_val::<i32, f64>(s).and_then(|e| e.eval(&[])).map_err(|_| format!("LIT {}", s)) };
            let mut t = vec![lit(&a)?, lit(&b)?];
            t.insert(pos, x.clone());
            let ok = allowed(fun, [t[0].clone(), t[1].clone(), t[2].clone()], VAL_FLAGGED.contains(&name.as_str()));
            let got = [
                ("fold", exmex::parse_val::<i32, f64>(&text).and_then(|e| e.eval(&[x.clone()]))),
                ("wo", FlatExVal::<i32, f64>::parse_wo_compile(&text).and_then(|e| e.eval(&[x.clone()]))),
                ("deep", DeepEx::<V, ValOpsFactory<i32, f64>, exmex::ValMatcher>::parse(&text).and_then(|e| e.eval(&[x.clone()]))),
            ];
            for (tag, g) in got {
                match g {
                    Err(_) => return Ok(format!("r=DIFF {} rejected text={}", tag, hex(&text))),
                    Ok(v) => {
                        if !ok.iter().any(|w| same_v(w, &v)) {
                            return Ok(format!("r=DIFF {}={} documented={} text={}", tag, enc(&v), enc(&ok[0]), hex(&text)));
                        }
                    }
                }
            }
            Ok("r=ok".into())
        } else {
            let ops = FloatOpsFactory::<f64>::make();
            let op = ops.iter().find(|o| o.repr() == name && o.has_bin()).ok_or("NOOP")?;
            let fun = op.bin().unwrap().apply;
            let x = f64::from_bits(u64::from_str_radix(&xs, 16).unwrap());
            let lit = |s: &str| -> Result<f64, String> { FlatEx::<f64>::parse(s).and_then(|e| e.eval(&[])).map_err(|_| format!("LIT {}", s)) };
            let mut t = vec![lit(&a)?, lit(&b)?];
            t.insert(pos, x);
            let ok = allowed(fun, [t[0], t[1], t[2]], F64_FLAGGED.contains(&name.as_str()));
            let got = [
                ("fold", FlatEx::<f64>::parse(&text).and_then(|e| e.eval(&[x]))),
                ("wo", FlatEx::<f64>::parse_wo_compile(&text).and_then(|e| e.eval(&[x]))),
                ("deep", DeepEx::<f64>::parse(&text).and_then(|e| e.eval(&[x]))),
            ];
            for (tag, g) in got {
                match g {
                    Err(_) => return Ok(format!("r=DIFF {} rejected text={}", tag, hex(&text))),
                    Ok(v) => {
                        if !ok.iter().any(|w| same_f(*w, v)) {
                            return Ok(format!("r=DIFF {}={:016x} documented={:016x} text={}", tag, v.to_bits(), ok[0].to_bits(), hex(&text)));
                        }
                    }
                }
            }
            Ok("r=ok".into())
        }
    });
    match res {
        Ok(Ok(s)) => s,
        Ok(Err(e)) => format!("r={}", e),
        Err(_) => "PANIC".into(),
    }
}
