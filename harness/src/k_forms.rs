//! kind `forms`: flat and deep parse, conversions in both directions, conversion histories,
//! deep printing + re-parsing, operator listings of both forms.
use crate::gen::*;
use crate::k_flat::{res, res_nf, strs, sym_vars};
use crate::sym::*;
use exmex::prelude::*;
use exmex::{DeepEx, FlatEx, NumberMatcher};
use std::collections::BTreeMap;

type F = FlatEx<Sym, SymOps, NumberMatcher>;
type D<'a> = DeepEx<'a, Sym, SymOps, NumberMatcher>;

pub fn gen(r: &mut Rng, tier: &str, i: usize, stats: &mut BTreeMap<String, u64>, profile: &str) -> String {
    let base = crate::k_flat::gen_profile(r, tier, i, stats, profile);
    let n = r.below(7);
    let mut hist = String::new();
    for _ in 0..n {
        hist.push(if r.chance(1, 2) { 'D' } else { 'F' });
    }
    if hist.is_empty() {
        hist.push('-');
    }
    *stats.entry(format!("hist_{}", n)).or_insert(0) += 1;
    format!("forms{}\t{}", &base[4..], hist)
}

enum Either<'a> {
    Fl(F),
    De(D<'a>),
}

pub fn run(f: &[&str]) -> String {
    let t = table_from_field(f[0]);
    set_table(&t);
    let text = unhex(f[2]);
    let hist = f[6].to_string();
    crate::catch(move || {
        let mut out = String::new();
        match F::parse(&text) {
            Err(_) => out.push_str("f_nf=E\tf=E"),
            Ok(e) => {
                let v = sym_vars(e.var_names().len());
                let r = e.eval(&v);
                out.push_str(&format!("f_nf={}\tf={}\tfvars={}", res_nf(&r, &t), res(r), strs(e.var_names())));
                out.push_str(&format!(
                    "\tbr={}\tur={}\tor={}\tfu={}",
                    strs(&e.binary_reprs()),
                    strs(&e.unary_reprs()),
                    strs(&e.operator_reprs()),
                    hex(e.unparse())
                ));
                match e.clone().to_deepex() {
                    Err(_) => out.push_str("\tf2d_nf=E\tf2d=E"),
                    Ok(d) => {
                        let vd = sym_vars(d.var_names().len());
                        let r = d.eval(&vd);
                        out.push_str(&format!(
                            "\tf2d_nf={}\tf2d={}\tf2dvars={}\tf2dtext={}",
                            res_nf(&r, &t),
                            res(r),
                            strs(d.var_names()),
                            hex(d.unparse())
                        ));
                        // operator listings of the converted form
                        out.push_str(&format!("\tf2dbr={}\tf2dur={}\tf2dor={}", strs(&d.binary_reprs()), strs(&d.unary_reprs()), strs(&d.operator_reprs())));
                    }
                }
                // the unfolded flat expression converted to the deep form (literal nodes still carry
                // their unary operators here)
                match F::parse_wo_compile(&text).and_then(|w| w.to_deepex()) {
                    Err(_) => out.push_str("\two2d_nf=E\two2d=E"),
                    Ok(d) => {
                        let vd = sym_vars(d.var_names().len());
                        let r = d.eval(&vd);
                        out.push_str(&format!("\two2d_nf={}\two2d={}\two2dtext={}", res_nf(&r, &t), res(r), hex(d.unparse())));
                    }
                }
                // history
                let mut cur: Result<Either, ()> = Ok(Either::Fl(e.clone()));
                for c in hist.chars() {
                    cur = match (c, cur) {
                        ('D', Ok(Either::Fl(fl))) => fl.to_deepex().map(Either::De).map_err(|_| ()),
                        ('F', Ok(Either::De(d))) => F::from_deepex(d).map(Either::Fl).map_err(|_| ()),
                        (_, x) => x,
                    };
                }
                match cur {
                    Err(_) => out.push_str("\th_nf=E\th=E"),
                    Ok(Either::Fl(g)) => {
                        let vg = sym_vars(g.var_names().len());
                        let r = g.eval(&vg);
                        out.push_str(&format!("\th_nf={}\th={}\thvars={}\thtext={}", res_nf(&r, &t), res(r), strs(g.var_names()), hex(g.unparse())));
                        // serde round trip of a flat expression derived from conversions
                        // (from a string slice and from a reader: the latter cannot lend the deserialiser a borrowed str)
                        match serde_json::to_string(&g).ok().and_then(|js| {
                            let a = serde_json::from_str::<F>(&js).ok()?;
                            let b = serde_json::from_reader::<_, F>(js.as_bytes()).ok()?;
                            if a.unparse() == b.unparse() && a.var_names() == b.var_names() { Some(b) } else { None }
                        }) {
                            None => out.push_str("\tsj_nf=E\tsj=E"),
                            Some(g2) => {
                                let v2 = sym_vars(g2.var_names().len());
                                let r2 = g2.eval(&v2);
                                out.push_str(&format!("\tsj_nf={}\tsj={}\tsjvars={}", res_nf(&r2, &t), res(r2), strs(g2.var_names())));
                            }
                        }
                    }
                    Ok(Either::De(d)) => {
                        let vg = sym_vars(d.var_names().len());
                        let r = d.eval(&vg);
                        out.push_str(&format!("\th_nf={}\th={}\thvars={}\thtext={}", res_nf(&r, &t), res(r), strs(d.var_names()), hex(d.unparse())));
                    }
                }
            }
        }
        match D::parse(&text) {
            Err(_) => out.push_str("\td_nf=E\td=E"),
            Ok(d) => {
                let v = sym_vars(d.var_names().len());
                let r = d.eval(&v);
                let txt = d.unparse().to_string();
                out.push_str(&format!("\td_nf={}\td={}\tdvars={}\tdtext={}", res_nf(&r, &t), res(r), strs(d.var_names()), hex(&txt)));
                out.push_str(&format!(
                    "\tdbr={}\tdur={}\tdor={}",
                    strs(&d.binary_reprs()),
                    strs(&d.unary_reprs()),
                    strs(&d.operator_reprs())
                ));
                match F::from_deepex(d.clone()) {
                    Err(_) => out.push_str("\td2f_nf=E\td2f=E"),
                    Ok(g) => {
                        let vg = sym_vars(g.var_names().len());
                        let r = g.eval(&vg);
                        out.push_str(&format!("\td2f_nf={}\td2f={}\td2fvars={}", res_nf(&r, &t), res(r), strs(g.var_names())));
                    }
                }
                match F::parse(&txt) {
                    Err(_) => out.push_str("\trt_nf=E\trt=E"),
                    Ok(g) => {
                        let vg = sym_vars(g.var_names().len());
                        let r = g.eval(&vg);
                        out.push_str(&format!("\trt_nf={}\trt={}\trtvars={}", res_nf(&r, &t), res(r), strs(g.var_names())));
                    }
                }
            }
        }
        out
    })
}
