//! kind `damage`: a well-formed rendering damaged at one point must be rejected by every parser.
use crate::gen::*;
use crate::sym::*;
use exmex::prelude::*;
use exmex::{DeepEx, FlatEx, NumberMatcher};
use std::collections::BTreeMap;

type F = FlatEx<Sym, SymOps, NumberMatcher>;
type D<'a> = DeepEx<'a, Sym, SymOps, NumberMatcher>;

/// byte positions (char boundaries) outside of `{…}`
fn outside_braces(text: &str) -> Vec<usize> {
    let mut v = vec![];
    let mut inside = false;
    for (i, c) in text.char_indices() {
        if !inside {
            v.push(i);
            if c == '{' {
                inside = true;
            }
        } else if c == '}' {
            inside = false;
        }
    }
    if !inside {
        v.push(text.len());
    }
    v
}

/// call-notation soup: calls with two or three arguments nested in either argument, operands with a
/// leading binary operator, redundant parentheses
fn call_soup(r: &mut Rng, t: &[OpCfg], depth: usize) -> String {
    let bins: Vec<&OpCfg> = t.iter().filter(|c| c.bin.is_some()).collect();
    let operand = |r: &mut Rng| -> String {
        let lead = if r.chance(1, 4) { bins[r.below(bins.len())].name.clone() } else { String::new() };
        format!("{}{}", lead, *r.pick(&["1", "2", "x", "y", "{z}", "3.5"]))
    };
    if depth >= 3 || r.chance(1, 3) {
        return operand(r);
    }
    match r.below(6) {
        0 => format!("({})", call_soup(r, t, depth + 1)),
        1 => format!("{} {} {}", call_soup(r, t, depth + 1), bins[r.below(bins.len())].name, call_soup(r, t, depth + 1)),
        _ => {
            let name = &bins[r.below(bins.len())].name;
            let a = call_soup(r, t, depth + 1);
            let b = call_soup(r, t, depth + 1);
            if r.chance(1, 3) {
                format!("{}({},{},{})", name, a, b, call_soup(r, t, depth + 1))
            } else {
                format!("{}({},{})", name, a, b)
            }
        }
    }
}

pub fn gen(r: &mut Rng, _tier: &str, _i: usize, stats: &mut BTreeMap<String, u64>) -> String {
    let t = gen_table(r);
    if r.chance(1, 5) {
        // unbalanced call soup: whatever the comma rewriting does, a text whose parentheses do not
        // balance is rejected
        let mut s = call_soup(r, &t, 0);
        let k = 1 + r.below(3);
        for _ in 0..k {
            if r.chance(3, 4) {
                s.push(')');
            } else {
                s.insert(0, '(');
            }
        }
        // a closing parenthesis without partner, and further right an opening one (the totals may even
        // agree): the call rewrite of a later comma must not repair this
        if r.chance(1, 2) {
            let bins: Vec<&OpCfg> = t.iter().filter(|c| c.bin.is_some()).collect();
            let name = &bins[r.below(bins.len())].name;
            let op2 = &bins[r.below(bins.len())].name;
            let inner = call_soup(r, &t, 2);
            s = match r.below(3) {
                0 => format!("1 {} {} 1) {} (({},2)", op2, name, bins[r.below(bins.len())].name, inner),
                1 => format!("{}({} 1))) {} {}(1,({},({},4))", name, name, op2, name, inner, inner),
                _ => {
                    let cs: Vec<char> = s.chars().collect();
                    let p1 = r.below(cs.len() + 1);
                    let p2 = p1 + r.below(cs.len() + 1 - p1);
                    let mut o: String = cs[..p1].iter().collect();
                    o.push(')');
                    o.extend(cs[p1..p2].iter());
                    o.push('(');
                    o.extend(cs[p2..].iter());
                    // judged only if really unbalanced (a prefix with more `)` than `(`, or unequal totals)
                    let mut d = 0i64;
                    let mut neg = false;
                    let mut inside = false;
                    for c in o.chars() {
                        if inside {
                            inside = c != '}';
                        } else if c == '{' {
                            inside = true;
                        } else if c == '(' {
                            d += 1;
                        } else if c == ')' {
                            d -= 1;
                            neg = neg || d < 0;
                        }
                    }
                    if neg || d != 0 {
                        o
                    } else {
                        format!("1 {} {} 1) {} ((3,2)", op2, name, op2)
                    }
                }
            };
            *stats.entry("unmatched_then_comma".to_string()).or_insert(0) += 1;
            return format!("damage\t{}\tnum\t{}\t{}", table_to_field(&t), hex(&s), "unmatched_then_comma");
        }
        let open = s.chars().filter(|c| *c == '(').count();
        let close = s.chars().filter(|c| *c == ')').count();
        if open == close {
            s.push(')');
        }
        *stats.entry("unbalanced_calls".to_string()).or_insert(0) += 1;
        return format!("damage\t{}\tnum\t{}\t{}", table_to_field(&t), hex(&s), "unbalanced_calls");
    }
    let cfg = ChainCfg {
        max_depth: 1 + r.below(4),
        max_len: *r.pick(&[1usize, 2, 3, 5]),
        sub_len: *r.pick(&[1usize, 2, 3]),
        lit_pct: 50,
        n_vars: 3,
        call_pct: *r.pick(&[0usize, 10, 25]),
        un_pct: *r.pick(&[0usize, 15]),
        braced_pct: *r.pick(&[0usize, 20]),
    };
    let c = gen_chain(r, 0, &t, &cfg);
    let sp_pct = *r.pick(&[0usize, 30]);
    let (text, _) = render_gen(&c, &t, true, r, sp_pct);
    let pos = outside_braces(&text);
    let kind = r.below(7);
    let mut damaged = text.clone();
    let mut kname = "none";
    match kind {
        0 => {
            // delete one parenthesis
            let parens: Vec<usize> = pos.iter().copied().filter(|&p| p < text.len() && (text[p..].starts_with('(') || text[p..].starts_with(')'))).collect();
            if !parens.is_empty() {
                let p = *r.pick(&parens);
                damaged.remove(p);
                kname = "del_paren";
            }
        }
        1 => {
            let p = *r.pick(&pos);
            damaged.insert(p, if r.chance(1, 2) { '(' } else { ')' });
            kname = "ins_paren";
        }
        2 => {
            let bins: Vec<&OpCfg> = t.iter().filter(|c| c.bin.is_some()).collect();
            damaged.push(' ');
            damaged.push_str(&bins[r.below(bins.len())].name);
            if r.chance(1, 2) {
                damaged.push(' ');
            }
            kname = "append_op";
        }
        3 => {
            // an extra operand directly beside an existing operand (after a literal, variable or `)`)
            let cands: Vec<usize> = pos
                .iter()
                .copied()
                .filter(|&p| {
                    p > 0 && {
                        let prev = text[..p].chars().last().unwrap();
                        let next = text[p..].chars().next();
                        // end of an operand: previous char ends a number/identifier/brace/paren and the next does not continue it
                        let run: String = text[..p].chars().rev().take_while(|c| is_word_char(*c)).collect::<Vec<_>>().into_iter().rev().collect();
                        let is_op_name = t.iter().any(|c| !run.is_empty() && run.ends_with(c.name.as_str()));
                        !is_op_name && (prev.is_ascii_digit() || prev == '}' || prev == ')') && next.map(|n| !is_word_char(n)).unwrap_or(true)
                    }
                })
                .collect();
            if !cands.is_empty() {
                let p = *r.pick(&cands);
                damaged.insert_str(p, *r.pick(&[" 7", " {w}", " (3)"]));
                kname = "extra_operand";
                // half of the time also a trailing binary operator: operand and operator counts fit
                // again, the text still ends in an operator
                if r.chance(1, 2) {
                    let bins: Vec<&OpCfg> = t.iter().filter(|c| c.bin.is_some()).collect();
                    damaged.push(' ');
                    damaged.push_str(&bins[r.below(bins.len())].name);
                    kname = "extra_operand_trailing_op";
                }
            }
        }
        6 => {
            // a literal or variable directly followed by a parenthesised group that STARTS with a binary
            // operator: `2(*3)`, `{x} (/ 4 ^ 2)` - operand and operator counts agree, the shape
            // "operand then `(`" is what must be refused
            let cands: Vec<usize> = pos
                .iter()
                .copied()
                .filter(|&p| {
                    p > 0 && {
                        let prev = text[..p].chars().last().unwrap();
                        let next = text[p..].chars().next();
                        let run: String = text[..p].chars().rev().take_while(|c| is_word_char(*c)).collect::<Vec<_>>().into_iter().rev().collect();
                        let is_op_name = t.iter().any(|c| !run.is_empty() && run.ends_with(c.name.as_str()));
                        !is_op_name && (prev.is_ascii_digit() || prev == '}') && next.map(|n| !is_word_char(n) && n != '.').unwrap_or(true)
                    }
                })
                .collect();
            let bins: Vec<&OpCfg> = t.iter().filter(|c| c.bin.is_some()).collect();
            if !cands.is_empty() {
                let p = *r.pick(&cands);
                // prefer operators without a unary role (with one, `2(-3)` is "two adjacent operands")
                let only: Vec<&&OpCfg> = bins.iter().filter(|c| !c.un).collect();
                let o = if !only.is_empty() && r.chance(3, 4) { only[r.below(only.len())].name.clone() } else { bins[r.below(bins.len())].name.clone() };
                let mut g = format!("{}({} {}", if r.chance(1, 3) { " " } else { "" }, o, *r.pick(&["3", "{w}", "0.5"]));
                if r.chance(1, 3) {
                    g.push_str(&format!(" {} 2", bins[r.below(bins.len())].name));
                }
                g.push(')');
                damaged.insert_str(p, &g);
                kname = "operand_then_group";
            }
        }
        4 => {
            let p = *r.pick(&pos);
            // also blanks other than the ASCII space: only ' ' separates tokens
            damaged.insert(p, *r.pick(&['#', '$', '@', '?', '`', '\\', ';', '"', '\t', '\n', '\u{a0}', '\u{2003}', '\u{3000}', '\u{2028}']));
            kname = "illegal_char";
        }
        _ => {
            damaged = " ".repeat(r.below(4));
            kname = "blank";
        }
    }
    *stats.entry(kname.to_string()).or_insert(0) += 1;
    if kname == "none" {
        // nothing applicable: fall back to a blank text
        damaged = String::new();
        kname = "blank";
    }
    format!("damage\t{}\tnum\t{}\t{}", table_to_field(&t), hex(&damaged), kname)
}

pub fn run(f: &[&str]) -> String {
    let t = table_from_field(f[0]);
    set_table(&t);
    let text = unhex(f[2]);
    let cls = |r: Result<bool, ()>| match r {
        Ok(true) => "o",
        Ok(false) => "e",
        Err(_) => "p",
    };
    let t1 = text.clone();
    let a = std::panic::catch_unwind(move || F::parse(&t1).is_ok()).map_err(|_| ());
    let t2 = text.clone();
    let b = std::panic::catch_unwind(move || F::parse_wo_compile(&t2).is_ok()).map_err(|_| ());
    let t3 = text.clone();
    let c = std::panic::catch_unwind(move || D::parse(&t3).is_ok()).map_err(|_| ());
    format!("r={}{}{}", cls(a), cls(b), cls(c))
}
