//! kind `vars`: variable lists and the outcome of every evaluation entry point for every
//! slice length 0..kmax, flat and deep.
use crate::gen::*;
use crate::k_flat::{strs, sym_vars};
use crate::sym::*;
use exmex::prelude::*;
use exmex::{DeepEx, FlatEx, NumberMatcher};
use std::collections::BTreeMap;

type F = FlatEx<Sym, SymOps, NumberMatcher>;
type D<'a> = DeepEx<'a, Sym, SymOps, NumberMatcher>;

pub fn gen(r: &mut Rng, _tier: &str, _i: usize, stats: &mut BTreeMap<String, u64>) -> String {
    let t = gen_table(r);
    let n_vars = *r.pick(&[0usize, 1, 2, 3, 5, 8, 15, 16, 17, 18, 24, 33, 40]);
    let cfg = ChainCfg {
        max_depth: 1 + r.below(3),
        max_len: (n_vars + 1).max(2).min(45),
        sub_len: 3,
        lit_pct: if n_vars == 0 { 100 } else { *r.pick(&[0usize, 10, 30]) },
        n_vars,
        call_pct: *r.pick(&[0usize, 8]),
        un_pct: *r.pick(&[0usize, 10]),
        braced_pct: *r.pick(&[0usize, 30, 60]),
    };
    let c = gen_chain(r, 0, &t, &cfg);
    let call_form = r.chance(3, 4);
    let space_pct = *r.pick(&[0usize, 20]);
    let (text, sp) = render_gen(&c, &t, call_form, r, space_pct);
    *stats.entry(format!("nvars_pool_{}", n_vars)).or_insert(0) += 1;
    format!(
        "vars\t{}\tnum\t{}\t{}\t{}\t{}\t{}",
        table_to_field(&t),
        hex(&text),
        c.to_field(),
        spaces_field(&sp),
        if call_form { 1 } else { 0 },
        n_vars + 3
    )
}

fn cls<T>(r: &exmex::ExResult<T>) -> &'static str {
    match r {
        Ok(_) => "o",
        Err(_) => "e",
    }
}
fn guard<T, FN: FnOnce() -> exmex::ExResult<T> + std::panic::UnwindSafe>(f: FN) -> Result<exmex::ExResult<T>, ()> {
    std::panic::catch_unwind(f).map_err(|_| ())
}

pub fn run(f: &[&str]) -> String {
    let t = table_from_field(f[0]);
    set_table(&t);
    let text = unhex(f[2]);
    let kmax: usize = f[6].parse().unwrap();
    crate::catch(move || {
        let fl = F::parse(&text);
        let dp = D::parse(&text);
        let (fl, dp) = match (fl, dp) {
            (Ok(a), Ok(b)) => (a, b),
            _ => return "vars=E".to_string(),
        };
        let n = fl.var_names().len();
        let exact = fl.eval(&sym_vars(n));
        let mut ar = vec![];
        let mut consume = "ok".to_string();
        for k in 0..=kmax {
            let vs = sym_vars(k);
            let same = |r: &exmex::ExResult<Sym>| match (r, &exact) {
                (Ok(a), Ok(b)) => {
                    if a.assoc_nf(&crate::k_flat::flagged_of(&t)) == b.assoc_nf(&crate::k_flat::flagged_of(&t)) {
                        "="
                    } else {
                        "#"
                    }
                }
                _ => "-",
            };
            let c = |x: Result<exmex::ExResult<Sym>, ()>| match x {
                Ok(r) => cls(&r).to_string(),
                Err(_) => "p".to_string(),
            };
            let strict = guard(std::panic::AssertUnwindSafe(|| fl.eval(&vs)));
            let rel = guard(std::panic::AssertUnwindSafe(|| fl.eval_relaxed(&vs)));
            let vec_ = guard(std::panic::AssertUnwindSafe(|| fl.eval_vec(vs.clone())));
            let iter_ = guard(std::panic::AssertUnwindSafe(|| fl.eval_iter(vs.clone().into_iter())));
            let dstrict = guard(std::panic::AssertUnwindSafe(|| dp.eval(&vs)));
            let drel = guard(std::panic::AssertUnwindSafe(|| dp.eval_relaxed(&vs)));
            let rel_same = match &rel {
                Ok(r) => same(r),
                Err(_) => "-",
            };
            let drel_same = match &drel {
                Ok(r) => same(r),
                Err(_) => "-",
            };
            // the same values through an adaptor whose size hint is (0, Some(k)): the outcome must not
            // depend on the hint
            let iter_f = guard(std::panic::AssertUnwindSafe(|| fl.eval_iter(vs.clone().into_iter().filter(|_| true))));
            let iter_ = match (iter_, iter_f) {
                (Ok(a), Ok(b)) if cls(&a) == cls(&b) => Ok(a),
                (Err(_), Err(_)) => Err(()),
                _ => Ok(Err(exmex::ExError::new("eval_iter depends on the size hint"))).and_then(|_: exmex::ExResult<Sym>| Err(())),
            };
            let vi = match (&vec_, &iter_) {
                (Ok(a), Ok(b)) if cls(a) == cls(b) => cls(a).to_string(),
                (Err(_), Err(_)) => "p".to_string(),
                _ => "X".to_string(),
            };
            // C15: handing over k values gives what borrowing a slice of k values gives (a value or an
            // error), whatever k is
            if consume == "ok" {
                let cs = match &strict {
                    Ok(r) => cls(r).to_string(),
                    Err(_) => "p".to_string(),
                };
                if vi != cs {
                    consume = format!("{} values: eval is {} but eval_vec/eval_iter are {}", k, cs, vi);
                }
            }
            ar.push(format!("{}:{}{}{}{}{}{}{}", k, c(strict), c(rel), rel_same, vi, c(dstrict), c(drel), drel_same));
        }
        // binding: with a slice of exactly the right length every entry point binds the k-th value to
        // the k-th name, i.e. all of them return the value `eval` returns (modulo associativity of
        // flagged operators); the consuming entry points also when variables repeat
        let vs = sym_vars(n);
        let nf = |r: exmex::ExResult<Sym>| r.map(|s| s.assoc_nf(&crate::k_flat::flagged_of(&t)).to_string()).unwrap_or_else(|_| "E".into());
        let want = nf(exact.clone());
        let mut bind = "ok".to_string();
        for (name, got) in [
            ("eval_relaxed", nf(fl.eval_relaxed(&vs))),
            ("eval_vec", nf(fl.eval_vec(vs.clone()))),
            ("eval_iter", nf(fl.eval_iter(vs.clone().into_iter()))),
            ("deep eval", nf(dp.eval(&vs))),
            ("deep eval_relaxed", nf(dp.eval_relaxed(&vs))),
        ] {
            if got != want && bind == "ok" {
                bind = format!("{} gives {} but eval gives {}", name, got, want);
            }
        }
        format!("vars={}\tdvars={}\tar={}\tbind={}\tconsume={}", strs(fl.var_names()), strs(dp.var_names()), ar.join(","), bind, consume)
    })
}
