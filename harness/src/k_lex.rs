//! kind `lex`: token streams of `tokenize_and_analyze` through the hook.
use crate::gen::*;
use crate::sym::*;
use exmex::{MakeOperators, MatchLiteral, NumberMatcher};
use std::collections::BTreeMap;

pub fn show_tokens(toks: &[exmex::verif::VerifToken<Sym>]) -> String {
    toks.iter()
        .map(|t| match t {
            exmex::verif::VerifToken::Num(n) => format!("n{}", n),
            exmex::verif::VerifToken::Open => "(".to_string(),
            exmex::verif::VerifToken::Close => ")".to_string(),
            exmex::verif::VerifToken::Op(i) => format!("o{}", i),
            exmex::verif::VerifToken::Var(v) => format!("v{}", hex(v)),
        })
        .collect::<Vec<_>>()
        .join(" ")
}

const IDENT_EXT: &[&str] = &["x", "4", "_", "α", "Z", "9a", "x y"];
const NON_IDENT_EXT: &[&str] = &["", " ", "(", " 4", "(4)", " x", "{x}", ")", "+", ",", "😀", "{"];

/// one random character sequence over a token-ish alphabet
pub fn gen_soup(r: &mut Rng, t: &[OpCfg], len: usize) -> String {
    let mut s = String::new();
    let fixed = ["(", ")", ",", "{", "}", " ", "1", "2.5", ".", "x", "y", "{a b}", "z9", "_", "α", "é", "😀", "\t", "#", "$", "0.0.1", "²", "½", "٣", "１", "Ⅷ", "①", "2²", "1.５"];
    for _ in 0..len {
        match r.below(10) {
            0..=3 => s.push_str(&t[r.below(t.len())].name),
            4 => {
                // truncated or extended operator name
                let name = &t[r.below(t.len())].name;
                let chars: Vec<char> = name.chars().collect();
                if r.chance(1, 2) && chars.len() > 1 {
                    s.extend(chars[..chars.len() - 1].iter());
                } else {
                    s.push_str(name);
                    s.push_str(*r.pick(IDENT_EXT));
                }
            }
            _ => s.push_str(*r.pick(&fixed)),
        }
        if r.chance(1, 5) {
            s.push(' ');
        }
    }
    s
}


/// Reference tokenizer written from the statement of C13 (not from parser.rs): literals are runs of
/// digits and dots with at most one dot (a lone dot is no literal); anything in braces is one
/// variable; the longest operator name that matches and is *eligible* wins, where a name without
/// binary role is eligible only if it is not continued by a character that would make
/// name+character an identifier; otherwise a maximal identifier is a variable.
/// `None`: the text is outside what the statement decides (commas, unclosed braces).
pub fn ref_lex(text: &str, t: &[OpCfg]) -> Option<String> {
    fn ident_start(c: char) -> bool {
        c.is_ascii_alphabetic() || c == '_' || ('α'..='ω').contains(&c) || ('Α'..='Ω').contains(&c)
    }
    fn ident_cont(c: char) -> bool {
        ident_start(c) || c.is_ascii_digit()
    }
    fn is_ident(s: &[char]) -> bool {
        !s.is_empty() && ident_start(s[0]) && s[1..].iter().all(|c| ident_cont(*c))
    }
    let cs: Vec<char> = text.chars().collect();
    let mut out: Vec<String> = vec![];
    let mut i = 0;
    while i < cs.len() {
        let c = cs[i];
        if c == ' ' {
            i += 1;
            continue;
        }
        if c == '(' {
            out.push("(".into());
            i += 1;
            continue;
        }
        if c == ')' {
            out.push(")".into());
            i += 1;
            continue;
        }
        if c == ',' {
            return None;
        }
        if c == '{' {
            let close = cs[i..].iter().position(|x| *x == '}')?;
            let name: String = cs[i + 1..i + close].iter().collect();
            out.push(format!("v{}", hex(&name)));
            i += close + 1;
            continue;
        }
        // literal
        let run: Vec<char> = cs[i..].iter().take_while(|x| x.is_ascii_digit() || **x == '.').cloned().collect();
        let dots = run.iter().filter(|x| **x == '.').count();
        if (run.len() > 1 && dots < 2) || (run.len() == 1 && dots == 0) {
            let lit: String = run.iter().collect();
            out.push(format!("nL{}", lit));
            i += run.len();
            continue;
        }
        // operators: longest eligible name
        let mut best: Option<(usize, usize)> = None; // (length in chars, index)
        for (k, op) in t.iter().enumerate() {
            let nm: Vec<char> = op.name.chars().collect();
            if nm.is_empty() || i + nm.len() > cs.len() || cs[i..i + nm.len()] != nm[..] {
                continue;
            }
            let eligible = op.bin.is_some()
                || i + nm.len() == cs.len()
                || !is_ident(&cs[i..i + nm.len() + 1]);
            if eligible && best.map(|b| nm.len() > b.0).unwrap_or(true) {
                best = Some((nm.len(), k));
            }
        }
        if let Some((len, k)) = best {
            if t[k].konst {
                out.push(format!("nK{}", k));
            } else {
                out.push(format!("o{}", k));
            }
            i += len;
            continue;
        }
        if ident_start(c) {
            let n = 1 + cs[i + 1..].iter().take_while(|x| ident_cont(**x)).count();
            let name: String = cs[i..i + n].iter().collect();
            out.push(format!("v{}", hex(&name)));
            i += n;
            continue;
        }
        return Some("E".into());
    }
    Some(out.join(" "))
}

/// one time in three: a unary-only operator or a constant whose name EXTENDS the name of a binary
/// operator of the table (`+`/`++`, `-`/`-inf`, `mod`/`modsq`): the longest matching name must win
/// whatever the roles are
fn with_prefix_pairs(r: &mut Rng, mut t: Vec<OpCfg>) -> Vec<OpCfg> {
    // one table in eight has an operator whose name starts like a number literal (`.` as in the value
    // type's index operator, or `0x`): literals are matched before operators
    if r.chance(1, 8) {
        let name = *r.pick(&[".", "0x", "1st"]);
        if !t.iter().any(|c| c.name == name) {
            t.push(OpCfg { name: name.to_string(), bin: Some((r.below(3) as i64, false)), un: r.chance(1, 2), konst: false });
        }
        return t;
    }
    if !r.chance(1, 3) {
        return t;
    }
    let bins: Vec<String> = t.iter().filter(|c| c.bin.is_some()).map(|c| c.name.clone()).collect();
    if bins.is_empty() {
        return t;
    }
    let base = bins[r.below(bins.len())].clone();
    let alpha = base.chars().all(|c| c.is_alphanumeric() || c == '_');
    let suffix = if alpha { *r.pick(&["sq", "2", "_x"]) } else { *r.pick(&["+", "-", "inf", "~", "="]) };
    let name = format!("{}{}", base, suffix);
    if t.iter().any(|c| c.name == name) {
        return t;
    }
    if r.chance(1, 2) {
        t.push(OpCfg { name, bin: None, un: true, konst: false });
    } else {
        t.push(OpCfg { name, bin: None, un: false, konst: true });
    }
    t
}

pub fn gen(r: &mut Rng, _tier: &str, i: usize, stats: &mut BTreeMap<String, u64>) -> String {
    let t = gen_table(r);
    let t = with_prefix_pairs(r, t);
    let fam = i % 6;
    let text = match fam {
        0 => {
            // operator / constant name, extended by an identifier character or not
            let op = if r.chance(1, 3) { &t[t.len() - 1] } else { &t[r.below(t.len())] };
            let ext = if r.chance(1, 2) { *r.pick(IDENT_EXT) } else { *r.pick(NON_IDENT_EXT) };
            let pre = *r.pick(&["", "1 ", "(", "x", "x ", "2"]);
            format!("{}{}{}", pre, op.name, ext)
        }
        1 => {
            // sign chains in all left contexts
            let signs: Vec<&OpCfg> = t.iter().filter(|c| c.un).collect();
            let ctx = *r.pick(&["", "(", "1", "x", ")", "1+", "x*"]);
            let mut s = ctx.to_string();
            let n = 1 + r.below(5);
            for _ in 0..n {
                if signs.is_empty() {
                    s.push('-');
                } else {
                    s.push_str(&signs[r.below(signs.len())].name);
                }
                if r.chance(1, 4) {
                    s.push(' ');
                }
            }
            s.push_str(*r.pick(&["x", "1", "(x)", "{a b}"]));
            s
        }
        2 => {
            // literal spellings over {0,1,.}
            let n = 1 + r.below(6);
            let mut s = String::new();
            for _ in 0..n {
                s.push(*r.pick(&['0', '1', '.']));
            }
            format!("{}{}", s, *r.pick(&["", "+x", " ", "x", "(", ".", "e5", "²", "٣", "１", "½"]))
        }
        3 => {
            // braces with arbitrary content
            let n = r.below(6);
            let mut s = String::from("{");
            for _ in 0..n {
                s.push(*r.pick(&['a', ' ', '1', '+', '{', '(', 'é', '😀', ',', 's', 'i', 'n']));
            }
            if r.chance(4, 5) {
                s.push('}');
            }
            format!("{}{}", s, *r.pick(&["", "+1", " x", "}", "{b}"]))
        }
        4 => {
            // call notation fragments
            let bins: Vec<&OpCfg> = t.iter().filter(|c| c.bin.is_some()).collect();
            let a = &bins[r.below(bins.len())].name;
            let b = &bins[r.below(bins.len())].name;
            match r.below(5) {
                0 => format!("{}(x,y)", a),
                1 => format!("{}(1,{}(x,2))", a, b),
                2 => format!("{}({}(1,2),{}(3,4))", a, b, a),
                3 => format!("{}(x,y,z)", a),
                _ => format!("{}(x,{}(y,z)))", a, b),
            }
        }
        _ => {
            let n = 1 + r.below(10);
            gen_soup(r, &t, n)
        }
    };
    *stats.entry(format!("fam_{}", fam)).or_insert(0) += 1;
    format!("lex\t{}\tnum\t{}", table_to_field(&t), hex(&text))
}

pub fn run(f: &[&str]) -> String {
    let t = table_from_field(f[0]);
    set_table(&t);
    let text = unhex(f[2]);
    let expect = ref_lex(&text, &t).unwrap_or_else(|| "-".to_string());
    crate::catch(move || {
        let ops = SymOps::make();
        let toks = match exmex::verif::tokenize::<Sym, _>(&text, &ops, NumberMatcher::is_literal, false) {
            Ok(toks) => show_tokens(&toks),
            Err(_) => "E".to_string(),
        };
        // `ref`: "ok" when the documented tokenisation (reference lexer above) agrees, or does not decide
        let verdict = if expect == "-" || expect == toks { "ok".to_string() } else { format!("expected[{}]", expect) };
        format!("toks={}\tref={}", toks, verdict)
    })
}
