//! kind `valdiff` (C18): derivatives of value-typed and piecewise expressions
//! `parse_val(text).partial(i).eval(point)` against branch-wise textbook differentiation.
use crate::gen::Rng;
use crate::sym::{hex, unhex};
use exmex::prelude::*;
use exmex::Val;
use std::collections::BTreeMap;
use std::rc::Rc;

#[derive(Clone, Debug)]
enum E {
    Flt(f64),
    Int(i32),
    Var(usize),
    Un(&'static str, Rc<E>),
    Bin(&'static str, Rc<E>, Rc<E>),
    Cmp(&'static str, Rc<E>, Rc<E>),
    /// `f if cond else g`
    Ite(Rc<E>, Rc<E>, Rc<E>),
}
use E::*;
const VARS: &[&str] = &["x", "y", "z"];

/// the same expression with fewer parentheses: the operands of a comparison and the condition of
/// a piecewise expression are written without their own parentheses (arithmetic binds tighter
/// than comparisons, comparisons tighter than `if`/`else`), so that `-`, `>` and `if` share one
/// group of the deep form
fn render_sloppy(e: &E) -> String {
    fn bare(e: &E) -> String {
        match e {
            Bin(n, a, b) if *n == "+" || *n == "-" => format!("({}) {} ({})", render_sloppy(a), n, render_sloppy(b)),
            Cmp(n, a, b) if *n == "&&" || *n == "||" => format!("({}) {} ({})", bare(a), n, bare(b)),
            Cmp(n, a, b) => format!("{} {} {}", bare(a), n, bare(b)),
            _ => render_sloppy(e),
        }
    }
    match e {
        Flt(x) => format!("{:?}", x),
        Int(i) => format!("{}", i),
        Var(i) => VARS[*i].to_string(),
        Un(n, a) => format!("{}({})", n, render_sloppy(a)),
        Bin(n, a, b) => format!("(({}) {} ({}))", render_sloppy(a), n, render_sloppy(b)),
        Cmp(_, _, _) => format!("({})", bare(e)),
        Ite(c, f, g) => format!("(({}) if {} else ({}))", render_sloppy(f), bare(c), render_sloppy(g)),
    }
}

fn render(e: &E) -> String {
    match e {
        Flt(x) => format!("{:?}", x),
        Int(i) => format!("{}", i),
        Var(i) => VARS[*i].to_string(),
        Un(n, a) => format!("{}({})", n, render(a)),
        Bin(n, a, b) => format!("(({}) {} ({}))", render(a), n, render(b)),
        Cmp(n, a, b) => format!("(({}) {} ({}))", render(a), n, render(b)),
        Ite(c, f, g) => format!("(({}) if {} else ({}))", render(f), render(c), render(g)),
    }
}
#[derive(Clone, Copy, Debug, PartialEq)]
enum V {
    F(f64),
    B(bool),
}
fn eval(e: &E, p: &[f64]) -> V {
    let f = |e: &E| match eval(e, p) {
        V::F(x) => x,
        V::B(b) => {
            if b {
                1.0
            } else {
                0.0
            }
        }
    };
    match e {
        Flt(x) => V::F(*x),
        Int(i) => V::F(*i as f64),
        Var(i) => V::F(p[*i]),
        Un(n, a) => {
            let x = f(a);
            V::F(match *n {
                "-" => -x,
                "sin" => x.sin(),
                "cos" => x.cos(),
                "exp" => x.exp(),
                "ln" => x.ln(),
                "sqrt" => x.sqrt(),
                "tanh" => x.tanh(),
                "atan" => x.atan(),
                _ => f64::NAN,
            })
        }
        Bin(n, a, b) => {
            let (x, y) = (f(a), f(b));
            V::F(match *n {
                "+" => x + y,
                "-" => x - y,
                "*" => x * y,
                "/" => x / y,
                "^" => x.powf(y),
                _ => f64::NAN,
            })
        }
        // compound conditions: `&&` / `||` of comparisons (operators WITHOUT a derivative rule, carried
        // unchanged by `partial_relaxed` with `MissingOpMode::None`)
        Cmp(n, a, b) if *n == "&&" || *n == "||" => {
            let (x, y) = (eval(a, p) == V::B(true), eval(b, p) == V::B(true));
            V::B(if *n == "&&" { x && y } else { x || y })
        }
        Cmp(n, a, b) => {
            let (x, y) = (f(a), f(b));
            V::B(match *n {
                ">" => x > y,
                "<" => x < y,
                ">=" => x >= y,
                "<=" => x <= y,
                "==" => x == y,
                _ => x != y,
            })
        }
        Ite(c, ff, g) => {
            if eval(c, p) == V::B(true) {
                eval(ff, p)
            } else {
                eval(g, p)
            }
        }
    }
}
fn has_var(e: &E) -> bool {
    match e {
        Var(_) => true,
        Flt(_) | Int(_) => false,
        Un(_, a) => has_var(a),
        Bin(_, a, b) | Cmp(_, a, b) => has_var(a) || has_var(b),
        Ite(c, f, g) => has_var(c) || has_var(f) || has_var(g),
    }
}
fn b(n: &'static str, a: E, c: E) -> E {
    Bin(n, Rc::new(a), Rc::new(c))
}
fn u(n: &'static str, a: E) -> E {
    Un(n, Rc::new(a))
}
fn deriv(e: &E, v: usize) -> E {
    match e {
        Flt(_) | Int(_) => Flt(0.0),
        Var(i) => Flt(if *i == v { 1.0 } else { 0.0 }),
        Un(n, a) => {
            let da = deriv(a, v);
            let a = (**a).clone();
            let outer = match *n {
                "-" => Flt(-1.0),
                "sin" => u("cos", a),
                "cos" => u("-", u("sin", a)),
                "exp" => u("exp", a),
                "ln" => b("/", Flt(1.0), a),
                "sqrt" => b("/", Flt(1.0), b("*", Flt(2.0), u("sqrt", a))),
                "tanh" => b("-", Flt(1.0), b("^", u("tanh", a), Flt(2.0))),
                _ => b("/", Flt(1.0), b("+", Flt(1.0), b("^", a, Flt(2.0)))),
            };
            b("*", outer, da)
        }
        Bin(n, a, c) => {
            let (da, dc) = (deriv(a, v), deriv(c, v));
            let (a, c) = ((**a).clone(), (**c).clone());
            match *n {
                "+" => b("+", da, dc),
                "-" => b("-", da, dc),
                "*" => b("+", b("*", da, c.clone()), b("*", a, dc)),
                "/" => b("/", b("-", b("*", da, c.clone()), b("*", a, dc)), b("*", c.clone(), c)),
                _ => {
                    let first = b("*", b("*", c.clone(), b("^", a.clone(), b("-", c.clone(), Flt(1.0)))), da);
                    if has_var(&c) {
                        b("+", first, b("*", b("*", b("^", a.clone(), c), u("ln", a)), dc))
                    } else {
                        first
                    }
                }
            }
        }
        // conditions are carried, not differentiated
        Cmp(n, a, c) => Cmp(n, a.clone(), c.clone()),
        Ite(c, f, g) => Ite(c.clone(), Rc::new(deriv(f, v)), Rc::new(deriv(g, v))),
    }
}

/// a float-valued arithmetic expression; integer literals only where promotion makes them floats
fn gen_arith(r: &mut Rng, depth: usize, allow_ite: bool) -> E {
    let roll = r.below(12);
    if depth < 3 && roll < 2 {
        let n = *r.pick(&["sin", "cos", "exp", "ln", "sqrt", "tanh", "atan", "-"]);
        u(n, gen_arith(r, depth + 1, allow_ite))
    } else if depth < 3 && roll < 6 {
        let n = *r.pick(&["+", "-", "*", "/", "^"]);
        if n == "^" {
            // integer or float constant exponent, occasionally a variable exponent
            let ex = match r.below(4) {
                0 => Int(2 + r.below(2) as i32),
                1 => Flt(1.5),
                2 => Flt(2.0),
                _ => gen_arith(r, depth + 2, false),
            };
            b("^", gen_arith(r, depth + 1, allow_ite), ex)
        } else if n != "/" && r.chance(1, 4) {
            // an integer meets a float-valued operand
            if r.chance(1, 2) {
                b(n, gen_arith(r, depth + 1, allow_ite), Int(1 + r.below(4) as i32))
            } else {
                b(n, Int(1 + r.below(4) as i32), gen_arith(r, depth + 1, allow_ite))
            }
        } else {
            b(n, gen_arith(r, depth + 1, allow_ite), gen_arith(r, depth + 1, allow_ite))
        }
    } else if allow_ite && depth < 3 && roll < 8 {
        gen_ite(r, depth + 1)
    } else if roll < 11 {
        Var(r.below(VARS.len()))
    } else {
        Flt(*r.pick(&[0.5, 1.5, 2.0, 3.0, 0.25]))
    }
}
/// integer polynomials (only + - * and integer powers 2..4, integer constants): integer and float
/// arithmetic agree exactly on them, so the derivative may be evaluated at INTEGER points
fn gen_poly(r: &mut Rng, depth: usize) -> E {
    let roll = r.below(10);
    if depth < 3 && roll < 5 {
        let n = *r.pick(&["+", "-", "*", "^"]);
        if n == "^" {
            b("^", gen_poly(r, depth + 1), Int(2 + r.below(3) as i32))
        } else {
            b(n, gen_poly(r, depth + 1), gen_poly(r, depth + 1))
        }
    } else if roll < 9 {
        Var(r.below(VARS.len()))
    } else {
        Int(1 + r.below(3) as i32)
    }
}
fn gen_poly_ite(r: &mut Rng) -> E {
    let n = *r.pick(&[">", "<", ">=", "<="]);
    let c = Cmp(n, Rc::new(Var(r.below(VARS.len()))), Rc::new(b("+", Var(r.below(VARS.len())), Int(r.below(3) as i32))));
    Ite(Rc::new(c), Rc::new(gen_poly(r, 1)), Rc::new(gen_poly(r, 1)))
}

fn gen_ite(r: &mut Rng, depth: usize) -> E {
    let n = *r.pick(&[">", "<", ">=", "<=", ">", "<", "!=", "=="]);
    // the property quantifies over comparison conditions *on the variables*: at least one side depends
    // on a variable (a constant condition is folded to a boolean literal, whose "derivative" is 0 = false;
    // recorded as an observation in DESIGN.md, outside C18's quantifier)
    let mut lhs = gen_arith(r, depth + 1, false);
    let rhs = gen_arith(r, depth + 1, false);
    if !has_var(&lhs) && !has_var(&rhs) {
        lhs = Var(r.below(VARS.len()));
    }
    let mut c = Cmp(n, Rc::new(lhs), Rc::new(rhs));
    if r.chance(1, 5) {
        // compound condition: no derivative rule for `&&` / `||` - differentiated through the relaxed API
        let n2 = *r.pick(&[">", "<", ">=", "<="]);
        let c2 = Cmp(n2, Rc::new(Var(r.below(VARS.len()))), Rc::new(gen_arith(r, depth + 1, false)));
        c = Cmp(*r.pick(&["&&", "||"]), Rc::new(c), Rc::new(c2));
    }
    Ite(Rc::new(c), Rc::new(gen_arith(r, depth, true)), Rc::new(gen_arith(r, depth, true)))
}

pub fn gen(r: &mut Rng, _tier: &str, _i: usize, stats: &mut BTreeMap<String, u64>) -> String {
    let e = match r.below(10) {
        0 => {
            *stats.entry("top_cmp".into()).or_insert(0) += 1;
            Cmp(*r.pick(&[">", "<", ">=", "<="]), Rc::new(b("+", Var(r.below(VARS.len())), gen_arith(r, 1, false))), Rc::new(gen_arith(r, 1, false)))
        }
        1..=6 => {
            *stats.entry("piecewise".into()).or_insert(0) += 1;
            if r.chance(1, 2) {
                gen_ite(r, 0)
            } else {
                b(*r.pick(&["+", "*", "-"]), gen_ite(r, 1), gen_arith(r, 1, true))
            }
        }
        _ => {
            *stats.entry("arith".into()).or_insert(0) += 1;
            gen_arith(r, 0, false)
        }
    };
    // one case in six: an integer polynomial (possibly piecewise), judged at integer points
    let int_case = r.chance(1, 6);
    let e = if int_case {
        *stats.entry("int_polynomial".into()).or_insert(0) += 1;
        if r.chance(1, 2) { gen_poly_ite(r) } else { gen_poly(r, 0) }
    } else {
        e
    };
    let order = *r.pick(&[1usize, 1, 1, 2]);
    let idxs: Vec<String> = (0..order).map(|_| r.below(3).to_string()).collect();
    // half of the cases are handed to the implementation with fewer parentheses (4th field)
    let sloppy = if r.chance(1, 2) { hex(&render_sloppy(&e)) } else { "-".to_string() };
    format!("valdiff\t{}\t{}\t{}\t{}\t{}", hex(&render(&e)), idxs.join(","), r.next() % 1000000, sloppy, if int_case { "int" } else { "float" })
}

// the reference tree is rebuilt from the rendered text by a small parser (full parenthesisation)
fn parse(s: &[char], pos: &mut usize) -> E {
    let skip = |pos: &mut usize| {
        while *pos < s.len() && s[*pos] == ' ' {
            *pos += 1;
        }
    };
    skip(pos);
    if s[*pos] == '(' {
        *pos += 1;
        let a = parse(s, pos);
        skip(pos);
        if s[*pos] == ')' {
            *pos += 1;
            return a;
        }
        let start = *pos;
        while s[*pos] != ' ' {
            *pos += 1;
        }
        let op: String = s[start..*pos].iter().collect();
        let second = parse(s, pos);
        skip(pos);
        if op == "if" {
            // (f) if cond else (g)
            let start = *pos;
            while s[*pos] != ' ' {
                *pos += 1;
            }
            let _else: String = s[start..*pos].iter().collect();
            let g = parse(s, pos);
            skip(pos);
            *pos += 1;
            return Ite(Rc::new(second), Rc::new(a), Rc::new(g));
        }
        *pos += 1; // ')'
        let ops: &[&'static str] = &["+", "-", "*", "/", "^"];
        let cmps: &[&'static str] = &[">", "<", ">=", "<=", "==", "!=", "&&", "||"];
        if let Some(o) = ops.iter().find(|o| **o == op) {
            return Bin(o, Rc::new(a), Rc::new(second));
        }
        let o = cmps.iter().find(|o| **o == op).unwrap();
        return Cmp(o, Rc::new(a), Rc::new(second));
    }
    let start = *pos;
    while *pos < s.len() && (s[*pos].is_alphanumeric() || s[*pos] == '.' || (s[*pos] == '-' && *pos == start)) {
        *pos += 1;
    }
    let word: String = s[start..*pos].iter().collect();
    if *pos < s.len() && s[*pos] == '(' && !word.is_empty() && word.chars().all(|c| c.is_alphabetic() || c == '-') {
        *pos += 1;
        let a = parse(s, pos);
        skip(pos);
        *pos += 1;
        let names: &[&'static str] = &["sin", "cos", "exp", "ln", "sqrt", "tanh", "atan", "-"];
        return Un(names.iter().find(|n| **n == word).unwrap(), Rc::new(a));
    }
    if let Some(i) = VARS.iter().position(|v| *v == word) {
        return Var(i);
    }
    if word.contains('.') {
        Flt(word.parse().unwrap())
    } else {
        Int(word.parse().unwrap())
    }
}

/// all intermediate values moderate and away from branch points and comparison boundaries
fn tame(e: &E, p: &[f64]) -> bool {
    let okv = |x: f64| x.is_finite() && x.abs() < 1e5;
    let val = |e: &E| match eval(e, p) {
        V::F(x) => x,
        V::B(_) => 0.0,
    };
    match e {
        Flt(_) | Int(_) | Var(_) => true,
        Un(n, a) => {
            tame(a, p) && {
                let x = val(a);
                (match *n {
                    "ln" | "sqrt" => x > 1e-2,
                    _ => true,
                }) && okv(val(e))
            }
        }
        Bin(n, a, c) => {
            tame(a, p) && tame(c, p) && {
                let (x, y) = (val(a), val(c));
                (match *n {
                    "/" => y.abs() > 1e-2,
                    "^" => x > 1e-2,
                    _ => true,
                }) && okv(val(e))
            }
        }
        Cmp(n, a, c) if *n == "&&" || *n == "||" => tame(a, p) && tame(c, p),
        Cmp(_, a, c) => tame(a, p) && tame(c, p) && (val(a) - val(c)).abs() > 1e-3,
        Ite(c, f, g) => tame(c, p) && tame(f, p) && tame(g, p),
    }
}

pub fn run(f: &[&str]) -> String {
    let text = unhex(f[0]);
    let idxs: Vec<usize> = f[1].split(',').map(|x| x.parse().unwrap()).collect();
    let seed: u64 = f[2].parse().unwrap_or(1);
    let f_sloppy: String = f.get(3).map(|x| x.to_string()).unwrap_or_else(|| "-".to_string());
    let int_points = f.get(4).map(|x| *x == "int").unwrap_or(false);
    crate::catch(move || {
        let chars: Vec<char> = text.chars().collect();
        let mut pos = 0;
        let reference0 = parse(&chars, &mut pos);
        // the text the implementation sees (the reference always reads the fully parenthesised one)
        let text = if f_sloppy != "-" { unhex(&f_sloppy) } else { text };
        let expr = match exmex::parse_val::<i32, f64>(&text) {
            Ok(e) => e,
            Err(_) => return "r=PARSE-ERROR".to_string(),
        };
        let names = expr.var_names().to_vec();
        // `&&` / `||` have no derivative rule: the strict API must refuse, the relaxed API in mode `None`
        // carries them (and so the condition) unchanged
        let relaxed = text.contains("&&") || text.contains("||");
        fn diff<'a, X: exmex::Differentiate<'a, Val<i32, f64>> + Clone>(e: X, idxs: &[usize], relaxed: bool) -> exmex::ExResult<X> {
            if relaxed {
                if !idxs.is_empty() && e.clone().partial_iter(idxs.iter().copied()).is_ok() {
                    return Err(exmex::ExError::new("strict differentiation accepted an operator without rule"));
                }
                e.partial_iter_relaxed(idxs.iter().copied(), exmex::MissingOpMode::None)
            } else {
                e.partial_iter(idxs.iter().copied())
            }
        }
        // indices refer to the sorted variable list of the expression
        if idxs.iter().any(|i| *i >= names.len()) {
            return match expr.clone().partial_iter(idxs.iter().copied()) {
                Err(_) => "r=ok\tjudged=0".to_string(),
                Ok(_) => "r=MISSING-INDEX-ERROR".to_string(),
            };
        }
        let mut reference = reference0.clone();
        for i in &idxs {
            let v = VARS.iter().position(|v| *v == names[*i]).unwrap();
            reference = deriv(&reference, v);
        }
        let d = match diff(expr.clone(), &idxs, relaxed) {
            Ok(d) => d,
            Err(_) => return "r=UNEXPECTED-ERROR".to_string(),
        };
        if d.var_names() != expr.var_names() {
            return format!("r=VARS {:?} vs {:?}", d.var_names(), expr.var_names());
        }
        // the same through the deep form: DeepEx::parse keeps un-parenthesised chains in one group, so
        // the value/derivative pairs are reduced in priority order (flat -> deep nests every operator)
        type DV<'a> = exmex::DeepEx<'a, Val<i32, f64>, exmex::ValOpsFactory<i32, f64>, exmex::ValMatcher>;
        let text_static: &'static str = Box::leak(text.clone().into_boxed_str());
        let dd = match DV::parse(text_static) {
            Ok(e) => match diff(e, &idxs, relaxed) {
                Ok(d) => d,
                Err(_) => return "r=UNEXPECTED-ERROR-DEEP".to_string(),
            },
            Err(_) => return "r=PARSE-ERROR-DEEP".to_string(),
        };
        if dd.var_names() != expr.var_names() {
            return format!("r=VARS-DEEP {:?} vs {:?}", dd.var_names(), expr.var_names());
        }
        let mut rng = Rng::new(seed);
        let mut judged = 0;
        for _ in 0..20 {
            let p: Vec<f64> = if int_points {
                (0..3).map(|_| (1 + rng.below(4)) as f64).collect()
            } else {
                (0..3).map(|_| 0.3 + (rng.below(2400) as f64) / 1000.0).collect()
            };
            if !tame(&reference0, &p) || !tame(&reference, &p) {
                continue;
            }
            let vals: Vec<Val<i32, f64>> = names
                .iter()
                .map(|n| {
                    let x = p[VARS.iter().position(|v| v == n).unwrap()];
                    if int_points { Val::Int(x as i32) } else { Val::Float(x) }
                })
                .collect();
            let want = eval(&reference, &p);
            for (form, got) in [("flat", d.eval(&vals)), ("deep", dd.eval(&vals))] {
                let got = match got {
                    Ok(v) => v,
                    Err(_) => return format!("r=EVAL-ERROR {}", form),
                };
                let ok = match (&got, want) {
                    (Val::Bool(b), V::B(w)) => *b == w,
                    (Val::Float(x), V::F(w)) => (x - w).abs() <= 1e-6 * (1.0 + x.abs().max(w.abs())),
                    (Val::Int(i), V::F(w)) => ((*i as f64) - w).abs() <= 1e-9,
                    _ => false,
                };
                if !ok {
                    return format!("r=VALUE {} got {:?} want {:?} at {:?}", form, got, want, p);
                }
            }
            judged += 1;
            if judged >= 3 {
                break;
            }
        }
        format!("r=ok\tjudged={}", judged)
    })
}
