//! kind `hist`: histories of calculations (operator application, arithmetic with shortcuts,
//! substitution, differentiation) over a pool of parsed expressions, on the symbolic data type.
use crate::gen::*;
use crate::k_flat::{strs, sym_vars};
use crate::sym::*;
use exmex::prelude::*;
use exmex::{DeepEx, FlatEx, NumberMatcher};
use std::collections::BTreeMap;

type F = FlatEx<Sym, SymOps, NumberMatcher>;
type D<'a> = DeepEx<'a, Sym, SymOps, NumberMatcher>;

pub fn calc_table() -> Vec<OpCfg> {
    let b = |n: &str, p: i64, c: bool, u: bool| OpCfg { name: n.into(), bin: Some((p, c)), un: u, konst: false };
    let u = |n: &str| OpCfg { name: n.into(), bin: None, un: true, konst: false };
    let k = |n: &str| OpCfg { name: n.into(), bin: None, un: false, konst: true };
    let mut t = vec![b("^", 4, false, false), b("*", 2, true, false), b("/", 3, false, false), b("+", 0, true, true), b("-", 1, false, true), b("atan2", 0, false, false), b("min", 0, false, false), b("max", 0, false, false)];
    for n in ["abs", "signum", "sin", "cos", "tan", "asin", "acos", "atan", "sinh", "cosh", "tanh", "asinh", "acosh", "atanh", "floor", "round", "ceil", "trunc", "fract", "exp", "sqrt", "cbrt", "ln", "log2", "log10", "log"] {
        t.push(u(n));
    }
    for n in ["PI", "π", "E", "e", "TAU", "τ"] {
        t.push(k(n));
    }
    // piecewise expressions (names and roles as in the value operator table)
    for n in ["if", "else"] {
        t.push(b(n, 0, false, false));
    }
    for n in [">", "<", ">=", "<=", "==", "!="] {
        t.push(b(n, 1, false, false));
    }
    t
}

const DIFF_UN: &[&str] = &["sqrt", "ln", "log", "log2", "log10", "exp", "sin", "cos", "tan", "asin", "acos", "atan", "sinh", "cosh", "tanh", "asinh", "acosh", "atanh", "-", "+"];
const DIFF_BIN: &[&str] = &["+", "-", "*", "/", "^"];
const NODIFF_UN: &[&str] = &["abs", "floor", "cbrt", "signum", "fract"];
const NODIFF_BIN: &[&str] = &["min", "max", "atan2"];

fn gen_text(r: &mut Rng, vars: &[&str], depth: usize, nodiff_pct: usize) -> String {
    if nodiff_pct >= 1000 && depth < 2 && r.chance(1, 3) {
        // piecewise: (f if (a ⋚ b) else g)
        let cmp = *r.pick(&[">", "<", ">=", "<=", "==", "!="]);
        return format!(
            "(({}) if (({}) {} ({})) else ({}))",
            gen_text(r, vars, depth + 1, nodiff_pct),
            gen_text(r, vars, depth + 2, nodiff_pct),
            cmp,
            gen_text(r, vars, depth + 2, nodiff_pct),
            gen_text(r, vars, depth + 1, nodiff_pct)
        );
    }
    let nodiff_pct = nodiff_pct % 1000;
    let n = 1 + r.below(3);
    let mut s = String::new();
    for i in 0..n {
        if i > 0 {
            let o = if r.below(100) < nodiff_pct { *r.pick(NODIFF_BIN) } else { *r.pick(DIFF_BIN) };
            s.push(' ');
            s.push_str(o);
            s.push(' ');
        }
        let roll = r.below(10);
        if depth < 3 && roll < 3 {
            let u = if r.below(100) < nodiff_pct { *r.pick(NODIFF_UN) } else { *r.pick(DIFF_UN) };
            // one time in four a stack of 2..4 directly composed unary operators (one node of the
            // flat form then carries the whole composition)
            let mut pre = String::new();
            let mut post = String::new();
            if r.chance(1, 4) {
                for _ in 0..(1 + r.below(3)) {
                    pre.push_str(*r.pick(&["sin(", "cos(", "exp(", "tanh(", "-(", "atan("]));
                    post.push(')');
                }
            }
            s.push_str(&format!("{}{}({}){}", pre, u, gen_text(r, vars, depth + 1, nodiff_pct), post));
        } else if depth < 3 && roll < 5 {
            s.push_str(&format!("({})", gen_text(r, vars, depth + 1, nodiff_pct)));
        } else if roll < 8 {
            s.push_str(*r.pick(vars));
        } else {
            s.push_str(*r.pick(&["0", "1", "2", "0.5", "3", "1.0", "2.0", "7"]));
        }
    }
    s
}

pub fn gen(r: &mut Rng, _tier: &str, _i: usize, stats: &mut BTreeMap<String, u64>, profile: &str) -> String {
    let t = calc_table();
    let var_sets: &[&[&str]] = &[&["x", "y"], &["y", "z"], &["a"], &["x", "y", "z"], &["x"], &["b", "a"]];
    let npool = 2 + r.below(4);
    let nodiff_pct = if profile == "diff" { *r.pick(&[0usize, 0, 0, 15]) } else if profile == "val" { 1000 } else { 10 };
    let mut pool = vec![];
    for _ in 0..npool {
        if profile == "default" && r.chance(1, 5) {
            pool.push(r.pick(&["0", "1", "2", "(1 - 1)", "0 * 3"]).to_string());
            continue;
        }
        if profile == "diff" && r.chance(1, 8) {
            // products and sums of few atoms: their derivatives collapse to ONE node that still has to list
            // every variable of the antiderivative (and is differentiated again below)
            pool.push(r.pick(&["x * y", "y * x", "x * cos(y) + z", "x * y * z", "a * b", "x + y", "x * sin(y)", "y * exp(x) + x", "2 * x + y", "x * y + z * y"]).to_string());
            continue;
        }
        let vs = *r.pick(var_sets);
        pool.push(gen_text(r, vs, 0, nodiff_pct));
    }
    let flat = r.chance(1, 2);
    // one flat pool in four holds unfolded expressions
    let wo_pool = flat && r.chance(1, 4);
    if profile == "default" && r.chance(1, 4) {
        // "a neutral element that still lists variables": x*0, x^0, 0/x, (x*0)+1 keep the variables of x;
        // every operator (and its shortcut) then meets such an operand on either side
        let vs1 = *r.pick(var_sets);
        let e1 = gen_text(r, vs1, 0, nodiff_pct);
        let vs2 = *r.pick(var_sets);
        let e2 = gen_text(r, vs2, 0, nodiff_pct);
        let pool = vec![e1, e2, "0".to_string(), "1".to_string(), "2".to_string()];
        let op = |o: &str, i: usize, j: usize| if flat { format!("b:{}:{}:{}", i, j, hex(o)) } else { format!("{}:{}:{}", o, i, j) };
        let mut steps = vec![match r.below(4) {
            0 => op("*", 0, 2),
            1 => op("*", 2, 0),
            2 => op("^", 0, 2),
            _ => op("/", 2, 0),
        }];
        if r.chance(1, 2) {
            // 0 + 1 / 1 * 1 ...: the neutral element changes, the variable list must not
            steps.push(op(*r.pick(&["+", "*", "-"]), 99, 2 + r.below(2)));
        }
        let o = *r.pick(&["+", "-", "*", "/", "^"]);
        steps.push(if r.chance(1, 2) { op(o, 1, 99) } else { op(o, 99, 1) });
        if r.chance(1, 2) {
            let o = *r.pick(&["+", "-", "*", "/", "^"]);
            steps.push(if r.chance(1, 2) { op(o, r.below(5), 99) } else { op(o, 99, r.below(5)) });
        }
        *stats.entry("neutral_with_vars".to_string()).or_insert(0) += 1;
        return format!(
            "hist\t{}\tnum\t{}\t{}\t{}",
            table_to_field(&t),
            pool.iter().map(|s| hex(s)).collect::<Vec<_>>().join(";"),
            if flat { if wo_pool { "W" } else { "F" } } else { "D" },
            steps.join("|")
        );
    }
    let nsteps = 1 + r.below(if profile == "subs" { 3 } else { 6 });
    let mut steps = vec![];
    let mut est: Vec<f64> = pool.iter().map(|p| p.len() as f64).collect();
    let all_names: Vec<String> = t.iter().map(|c| c.name.clone()).collect();
    for _ in 0..nsteps {
        let i = r.below(16);
        let j = r.below(16);
        let after_p = steps.last().map(|l: &String| l.starts_with("p:")).unwrap_or(false);
        // after a derivative: substitute into it, or differentiate it once more in a separate call
        // (once per history, directly after a first- or zeroth-order derivative, one more order at most:
        // chains of higher derivatives explode - a thorough-tier candidate once was killed for memory)
        let p99_ok = steps.len() == steps.iter().filter(|l: &&String| !l.starts_with("p:99:")).count()
            && steps.last().map(|l: &String| l.split(':').nth(2).map(|x| !x.contains(',')).unwrap_or(false)).unwrap_or(false);
        let (i, kind) = if after_p && r.chance(1, 2) { (99, "s") } else if after_p && p99_ok && r.chance(1, 2) { (99, "p99") } else { (i, "") };
        if kind == "p99" {
            // (piecewise expressions over the value type grow fast under differentiation: one more order at most)
            let n = r.below(2);
            let idxs: Vec<String> = (0..n).map(|_| r.below(3).to_string()).collect();
            let step = format!("p:99:{}", if idxs.is_empty() { "-".to_string() } else { idxs.join(",") });
            let last = *est.last().unwrap();
            est.push(last * (if profile == "val" { 40f64 } else { 6f64 }).powi(n as i32));
            if *est.last().unwrap() <= 6000.0 {
                *stats.entry("step_p_again".to_string()).or_insert(0) += 1;
                steps.push(step);
                continue;
            }
            est.pop();
        }
        let kind = if kind == "p99" { "" } else { kind };
        let kind = if kind == "s" { "s" } else { match profile {
            "subs" => *r.pick(&["s", "s", "s", "b", "u"]),
            "diff" | "val" => *r.pick(&["p", "p", "p", "b", "s"]),
            _ => *r.pick(&["b", "b", "u", "+", "-", "*", "/", "^", "n", "s", "p"]),
        } };
        let step = match kind {
            "b" => {
                let nm = if r.chance(1, 12) { "nosuchop".to_string() } else { r.pick(&all_names).clone() };
                format!("b:{}:{}:{}", i, j, hex(&nm))
            }
            "u" => {
                let nm = if r.chance(1, 12) { "nosuchop".to_string() } else { r.pick(&all_names).clone() };
                format!("u:{}:{}", i, hex(&nm))
            }
            "+" | "-" | "*" | "/" | "^" => {
                if flat {
                    // the flat form has no overloaded operators: use operate_binary
                    format!("b:{}:{}:{}", i, j, hex(kind))
                } else {
                    format!("{}:{}:{}", kind, i, j)
                }
            }
            "n" => {
                if flat {
                    format!("u:{}:{}", i, hex("-"))
                } else {
                    format!("n:{}", i)
                }
            }
            "s" => {
                let mut m = vec![];
                for v in ["x", "y", "z", "a", "b"] {
                    if r.chance(1, 3) {
                        // replacements come from the initial pool only (bounded growth)
                        m.push(format!("{}={}", hex(v), r.below(npool)));
                    }
                }
                format!("s:{}:{}", i, if m.is_empty() { "-".to_string() } else { m.join(";") })
            }
            _ => {
                // mostly differentiate expressions of the initial pool (bounded growth of the result)
                let (target, n) = if r.chance(3, 4) { (r.below(npool), *r.pick(&[0usize, 1, 1, 2, 2, 3])) } else { (i, r.below(2)) };
                let idxs: Vec<String> = (0..n).map(|_| (if r.chance(1, 10) { 3 + r.below(2) } else { r.below(3) }).to_string()).collect();
                format!("p:{}:{}", target, if idxs.is_empty() { "-".to_string() } else { idxs.join(",") })
            }
        };
        // rough size estimate of the result (derivatives multiply the size, substitution multiplies it by
        // the size of the replacements): histories whose results would explode are tamed by replacing
        // the step with a cheap one. (A failed step adds no entry; the estimate then is only rough.)
        let at = |k: usize, est: &Vec<f64>| -> f64 { if k == 99 { *est.last().unwrap() } else { est[k % est.len()] } };
        let g: Vec<&str> = step.split(':').collect();
        let e = match g[0] {
            "b" | "+" | "-" | "*" | "/" | "^" => at(g[1].parse().unwrap(), &est) + at(g[2].parse().unwrap(), &est) + 1.0,
            "u" | "n" => at(g[1].parse().unwrap(), &est) + 1.0,
            "s" => {
                let repl: f64 = if g[2] == "-" { 0.0 } else { g[2].split(';').map(|kv| at(kv.split('=').nth(1).unwrap().parse().unwrap(), &est)).sum() };
                at(g[1].parse().unwrap(), &est) * (1.0 + repl / 4.0)
            }
            _ => {
                let n = if g[2] == "-" { 0 } else { g[2].split(',').count() };
                at(g[1].parse().unwrap(), &est) * 6f64.powi(n as i32)
            }
        };
        let (step, e) = if e > 40000.0 {
            *stats.entry("step_tamed".to_string()).or_insert(0) += 1;
            (format!("u:{}:{}", r.below(npool), hex("sin")), est[0] + 1.0)
        } else {
            (step, e)
        };
        est.push(e);
        *stats.entry(format!("step_{}", kind)).or_insert(0) += 1;
        steps.push(step);
    }
    format!(
        "hist\t{}\tnum\t{}\t{}\t{}",
        table_to_field(&t),
        pool.iter().map(|s| hex(s)).collect::<Vec<_>>().join(";"),
        if flat { if wo_pool { "W" } else { "F" } } else { "D" },
        steps.join("|")
    )
}


/// `partial_iter`, or - when `alt` and the index list allows it - `partial_nth` / `partial`: C09 says
/// they are the same (n-th = n single derivatives, order zero = identity)
fn diff_entry<'a, E: exmex::Differentiate<'a, Sym> + Clone>(a: E, idxs: &[usize], alt: bool) -> exmex::ExResult<E> {
    let all_equal = idxs.windows(2).all(|w| w[0] == w[1]);
    if alt && all_equal {
        match idxs.len() {
            0 => a.partial_nth(0, 0),
            1 => a.partial(idxs[0]),
            n => a.partial_nth(idxs[0], n),
        }
    } else {
        a.partial_iter(idxs.iter().copied())
    }
}

#[derive(Clone)]
enum P<'a> {
    Fl(F),
    De(D<'a>),
}

fn show(p: &P, _t: &[OpCfg]) -> String {
    match p {
        P::Fl(f) => {
            let v = sym_vars(f.var_names().len());
            format!("v={};vars={};text={}", crate::k_flat::res(f.eval(&v)), strs(f.var_names()), hex(f.unparse()))
        }
        P::De(d) => {
            let v = sym_vars(d.var_names().len());
            format!("v={};vars={};text={}", crate::k_flat::res(d.eval(&v)), strs(d.var_names()), hex(d.unparse()))
        }
    }
}

/// C12: the printed text of a derived expression parses back (as a flat expression) to the
/// same variables and the same value (modulo associativity of flagged operators).
/// Returns "-" when it does, a description otherwise.
fn round_trip(p: &P, t: &[OpCfg]) -> String {
    let (text, vars, val) = match p {
        P::Fl(f) => (f.unparse().to_string(), f.var_names().to_vec(), f.eval(&sym_vars(f.var_names().len()))),
        P::De(d) => (d.unparse().to_string(), d.var_names().to_vec(), d.eval(&sym_vars(d.var_names().len()))),
    };
    let g = match F::parse(&text) {
        Ok(g) => g,
        Err(_) => return format!("reparse-error:{}", hex(&text)),
    };
    // a derived expression may list variables that no longer occur in its text
    let gv = g.var_names().to_vec();
    if gv.iter().any(|n| !vars.contains(n)) {
        return format!("vars:{}", hex(&text));
    }
    // bind the re-parsed variables to the symbols they have in the original listing
    let all = sym_vars(vars.len());
    let bound: Vec<Sym> = gv.iter().map(|n| all[vars.iter().position(|m| m == n).unwrap()].clone()).collect();
    let a = crate::k_flat::res_nf(&val, t);
    let b = crate::k_flat::res_nf(&g.eval(&bound), t);
    if a == b {
        "-".to_string()
    } else {
        format!("value:{}", hex(&text))
    }
}

pub fn run(f: &[&str]) -> String {
    let t = table_from_field(f[0]);
    set_table(&t);
    let texts: Vec<String> = f[2].split(';').map(unhex).collect();
    let texts: Vec<&'static str> = texts.into_iter().map(|s| &*Box::leak(s.into_boxed_str())).collect();
    let flat = f[3] == "F" || f[3] == "W";
    let wo = f[3] == "W";
    let hist: Vec<String> = if f[4] == "-" { vec![] } else { f[4].split('|').map(|s| s.to_string()).collect() };
    crate::catch(move || {
        let mut pool: Vec<P<'static>> = vec![];
        for tx in &texts {
            // W: the pool holds UNFOLDED flat expressions (parse_wo_compile)
            let p = if wo { F::parse_wo_compile(tx).map(P::Fl) } else if flat { F::parse(tx).map(P::Fl) } else { D::parse(tx).map(P::De) };
            match p {
                Ok(p) => pool.push(p),
                Err(_) => return "pool=E".to_string(),
            }
        }
        let mut out = vec![];
        let mut rtbad = "-".to_string();
        let mut varsbad = "-".to_string();
        for step in &hist {
            let g: Vec<&str> = step.split(':').collect();
            // index 99 = the most recent pool entry
            let idx = |s: &str| if s == "99" { pool.len() - 1 } else { s.parse::<usize>().unwrap() % pool.len() };
            let leak = |s: String| -> &'static str { Box::leak(s.into_boxed_str()) };
            let r: Result<exmex::ExResult<P<'static>>, ()> = std::panic::catch_unwind(std::panic::AssertUnwindSafe(|| -> exmex::ExResult<P<'static>> {
                match g[0] {
                    "b" => {
                        let nm = leak(unhex(g[3]));
                        match (pool[idx(g[1])].clone(), pool[idx(g[2])].clone()) {
                            (P::Fl(a), P::Fl(b)) => a.operate_binary(b, nm).map(P::Fl),
                            (P::De(a), P::De(b)) => a.operate_binary(b, nm).map(P::De),
                            _ => unreachable!(),
                        }
                    }
                    "u" => {
                        let nm = leak(unhex(g[2]));
                        match pool[idx(g[1])].clone() {
                            P::Fl(a) => a.operate_unary(nm).map(P::Fl),
                            P::De(a) => a.operate_unary(nm).map(P::De),
                        }
                    }
                    "+" | "-" | "*" | "/" | "^" => match (pool[idx(g[1])].clone(), pool[idx(g[2])].clone()) {
                        (P::De(a), P::De(b)) => match g[0] {
                            "+" => (a + b).map(P::De),
                            "-" => (a - b).map(P::De),
                            "*" => (a * b).map(P::De),
                            "/" => (a / b).map(P::De),
                            _ => a.pow(b).map(P::De),
                        },
                        _ => Err(exmex::ExError::new("flat form has no overloaded operators")),
                    },
                    "n" => match pool[idx(g[1])].clone() {
                        P::De(a) => (-a).map(P::De),
                        _ => Err(exmex::ExError::new("flat form has no overloaded operators")),
                    },
                    "s" => {
                        let pairs: Vec<(String, usize)> = if g[2] == "-" {
                            vec![]
                        } else {
                            g[2].split(';').map(|kv| { let p: Vec<&str> = kv.split('=').collect(); (unhex(p[0]), idx(p[1])) }).collect()
                        };
                        match pool[idx(g[1])].clone() {
                            P::Fl(a) => {
                                let mut sub = |v: &str| -> Option<F> {
                                    pairs.iter().find(|p| p.0 == v).and_then(|p| match &pool[p.1] { P::Fl(x) => Some(x.clone()), _ => None })
                                };
                                a.subs(&mut sub).map(P::Fl)
                            }
                            P::De(a) => {
                                let mut sub = |v: &str| -> Option<D<'static>> {
                                    pairs.iter().find(|p| p.0 == v).and_then(|p| match &pool[p.1] { P::De(x) => Some(x.clone()), _ => None })
                                };
                                a.subs(&mut sub).map(P::De)
                            }
                        }
                    }
                    _ => {
                        let idxs: Vec<usize> = if g[2] == "-" { vec![] } else { g[2].split(',').map(|x| x.parse().unwrap()).collect() };
                        match pool[idx(g[1])].clone() {
                            // the same derivative through the other entry points: `partial_nth` when all
                            // indices are equal (order zero included), `partial` for a single index -
                            // chosen by the parity of the target so that the request decides it
                            P::Fl(a) => diff_entry(a, &idxs, g[1].parse::<usize>().unwrap_or(0) % 2 == 0).map(P::Fl),
                            P::De(a) => diff_entry(a, &idxs, g[1].parse::<usize>().unwrap_or(0) % 2 == 0).map(P::De),
                        }
                    }
                }
            })).map_err(|_| ());
            // documented variable list of the result (C04/C09/C10/C11): the sorted duplicate-free union of
            // the operands' lists; unchanged by unary operators and differentiation; for a substitution
            // every listed variable is replaced by the variables of its replacement
            let names = |p: &P| -> Vec<String> {
                match p {
                    P::Fl(f) => f.var_names().to_vec(),
                    P::De(d) => d.var_names().to_vec(),
                }
            };
            let same_form = |a: &P, b: &P| matches!((a, b), (P::Fl(_), P::Fl(_)) | (P::De(_), P::De(_)));
            let mut want: Vec<String> = match g[0] {
                "b" | "+" | "-" | "*" | "/" | "^" => {
                    let mut v = names(&pool[idx(g[1])]);
                    v.extend(names(&pool[idx(g[2])]));
                    v
                }
                "s" => {
                    let target = &pool[idx(g[1])];
                    let mut v = vec![];
                    for n in names(target) {
                        let rep = if g[2] == "-" {
                            None
                        } else {
                            g[2].split(';').map(|kv| { let q: Vec<&str> = kv.split('=').collect(); (unhex(q[0]), idx(q[1])) }).find(|q| q.0 == n && same_form(&pool[q.1], target))
                        };
                        match rep {
                            Some((_, k)) => v.extend(names(&pool[k])),
                            None => v.push(n),
                        }
                    }
                    v
                }
                _ => names(&pool[idx(g[1])]),
            };
            want.sort();
            want.dedup();
            match r {
                Ok(Ok(p)) => {
                    out.push(format!("ok {}", show(&p, &t)));
                    if varsbad == "-" && names(&p) != want {
                        varsbad = format!("step{}:{}:listed={}:documented={}", out.len() - 1, step, crate::k_flat::strs(&names(&p)), crate::k_flat::strs(&want));
                    }
                    if rtbad == "-" {
                        let r = round_trip(&p, &t);
                        if r != "-" {
                            rtbad = format!("step{}:{}", out.len() - 1, r);
                        }
                    }
                    pool.push(p);
                }
                Ok(Err(_)) => out.push("E".to_string()),
                Err(_) => out.push("PANIC".to_string()),
            }
        }
        format!("pool=ok\tsteps={}\trtbad={}\tvarsbad={}", out.join("|"), rtbad, varsbad)
    })
}
