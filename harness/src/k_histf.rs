//! kind `histf`: the same kind of histories as `hist`, on `f64` with the default operator table,
//! judged against an independent reference: expression trees evaluated directly, substitution by
//! environment, textbook symbolic differentiation (no simplification) evaluated numerically.
use crate::gen::Rng;
use crate::sym::{hex, unhex};
use exmex::prelude::*;
use exmex::{DeepEx, FlatEx};
use std::collections::{BTreeMap, BTreeSet};
use std::rc::Rc;

#[derive(Clone, Debug)]
pub enum R {
    Num(f64),
    Var(String),
    Un(String, Rc<R>),
    Bin(String, Rc<R>, Rc<R>),
}
use R::*;

fn un(n: &str, a: R) -> R {
    Un(n.to_string(), Rc::new(a))
}
fn bin(n: &str, a: R, b: R) -> R {
    Bin(n.to_string(), Rc::new(a), Rc::new(b))
}

pub fn eval(r: &R, env: &BTreeMap<String, f64>) -> f64 {
    match r {
        Num(x) => *x,
        Var(v) => *env.get(v).unwrap_or(&f64::NAN),
        Un(n, a) => {
            let x = eval(a, env);
            match n.as_str() {
                "+" => x,
                "-" => -x,
                "abs" => x.abs(),
                "signum" => x.signum(),
                "sin" => x.sin(),
                "cos" => x.cos(),
                "tan" => x.tan(),
                "asin" => x.asin(),
                "acos" => x.acos(),
                "atan" => x.atan(),
                "sinh" => x.sinh(),
                "cosh" => x.cosh(),
                "tanh" => x.tanh(),
                "asinh" => x.asinh(),
                "acosh" => x.acosh(),
                "atanh" => x.atanh(),
                "floor" => x.floor(),
                "round" => x.round(),
                "ceil" => x.ceil(),
                "trunc" => x.trunc(),
                "fract" => x.fract(),
                "exp" => x.exp(),
                "sqrt" => x.sqrt(),
                "cbrt" => x.cbrt(),
                "ln" | "log" => x.ln(),
                "log2" => x.log2(),
                "log10" => x.log10(),
                _ => f64::NAN,
            }
        }
        Bin(n, a, b) => {
            let (x, y) = (eval(a, env), eval(b, env));
            match n.as_str() {
                "+" => x + y,
                "-" => x - y,
                "*" => x * y,
                "/" => x / y,
                "^" => x.powf(y),
                "atan2" => x.atan2(y),
                "min" => x.min(y),
                "max" => x.max(y),
                _ => f64::NAN,
            }
        }
    }
}

/// textbook derivative w.r.t. variable `v`; `None` = an operator without a derivative rule
thread_local! {
    /// set when an operator without a rule was met on a variable-free operand: the library may
    /// have folded it away (derivative 0) or may report the missing rule; both are acceptable
    static CONST_NORULE: std::cell::Cell<bool> = const { std::cell::Cell::new(false) };
}
fn has_norule(r: &R) -> bool {
    match r {
        Num(_) | Var(_) => false,
        Un(n, a) => !["+", "-", "sqrt", "ln", "log", "log2", "log10", "exp", "sin", "cos", "tan", "asin", "acos", "atan", "sinh", "cosh", "tanh", "asinh", "acosh", "atanh"].contains(&n.as_str()) || has_norule(a),
        Bin(n, a, b) => !["+", "-", "*", "/", "^"].contains(&n.as_str()) || has_norule(a) || has_norule(b),
    }
}

pub fn deriv(r: &R, v: &str) -> Option<R> {
    if !contains_var(r) {
        if has_norule(r) {
            CONST_NORULE.with(|c| c.set(true));
        }
        return Some(Num(0.0));
    }
    Some(match r {
        Num(_) => Num(0.0),
        Var(x) => Num(if x == v { 1.0 } else { 0.0 }),
        Un(n, a) => {
            let da = deriv(a, v)?;
            let a = (**a).clone();
            let outer = match n.as_str() {
                "+" => Num(1.0),
                "-" => Num(-1.0),
                "sqrt" => bin("/", Num(1.0), bin("*", Num(2.0), un("sqrt", a))),
                "ln" | "log" => bin("/", Num(1.0), a),
                "log2" => bin("/", Num(1.0), bin("*", a, Num(std::f64::consts::LN_2))),
                "log10" => bin("/", Num(1.0), bin("*", a, Num(std::f64::consts::LN_10))),
                "exp" => un("exp", a),
                "sin" => un("cos", a),
                "cos" => un("-", un("sin", a)),
                "tan" => bin("/", Num(1.0), bin("^", un("cos", a), Num(2.0))),
                "asin" => bin("/", Num(1.0), un("sqrt", bin("-", Num(1.0), bin("^", a, Num(2.0))))),
                "acos" => un("-", bin("/", Num(1.0), un("sqrt", bin("-", Num(1.0), bin("^", a, Num(2.0)))))),
                "atan" => bin("/", Num(1.0), bin("+", Num(1.0), bin("^", a, Num(2.0)))),
                "sinh" => un("cosh", a),
                "cosh" => un("sinh", a),
                "tanh" => bin("-", Num(1.0), bin("^", un("tanh", a), Num(2.0))),
                "asinh" => bin("/", Num(1.0), un("sqrt", bin("+", bin("^", a, Num(2.0)), Num(1.0)))),
                "acosh" => bin("/", Num(1.0), un("sqrt", bin("-", bin("^", a, Num(2.0)), Num(1.0)))),
                "atanh" => bin("/", Num(1.0), bin("-", Num(1.0), bin("^", a, Num(2.0)))),
                _ => return None,
            };
            bin("*", outer, da)
        }
        Bin(n, a, b) => {
            let (da, db) = (deriv(a, v)?, deriv(b, v)?);
            let (a, b) = ((**a).clone(), (**b).clone());
            match n.as_str() {
                "+" => bin("+", da, db),
                "-" => bin("-", da, db),
                "*" => bin("+", bin("*", da, b.clone()), bin("*", a, db)),
                "/" => bin("/", bin("-", bin("*", da, b.clone()), bin("*", a, db)), bin("*", b.clone(), b)),
                // d(a^b) = b a^(b-1) da + a^b ln(a) db ; the second summand vanishes for a constant exponent
                "^" => {
                    let first = bin("*", bin("*", b.clone(), bin("^", a.clone(), bin("-", b.clone(), Num(1.0)))), da);
                    if matches!(db, Num(z) if z == 0.0) && !contains_var(&b) {
                        first
                    } else {
                        bin("+", first, bin("*", bin("*", bin("^", a.clone(), b), un("ln", a)), db))
                    }
                }
                _ => return None,
            }
        }
    })
}
fn contains_var(r: &R) -> bool {
    match r {
        Num(_) => false,
        Var(_) => true,
        Un(_, a) => contains_var(a),
        Bin(_, a, b) => contains_var(a) || contains_var(b),
    }
}
pub fn subst(r: &R, m: &BTreeMap<String, R>) -> R {
    match r {
        Num(x) => Num(*x),
        Var(v) => m.get(v).cloned().unwrap_or(Var(v.clone())),
        Un(n, a) => Un(n.clone(), Rc::new(subst(a, m))),
        Bin(n, a, b) => Bin(n.clone(), Rc::new(subst(a, m)), Rc::new(subst(b, m))),
    }
}
pub fn size(r: &R) -> usize {
    match r {
        Un(_, a) => 1 + size(a),
        Bin(_, a, b) => 1 + size(a) + size(b),
        _ => 1,
    }
}
fn render(r: &R) -> String {
    match r {
        Num(x) => {
            if *x < 0.0 {
                format!("(-{:?})", -x)
            } else {
                format!("{:?}", x)
            }
        }
        Var(v) => v.clone(),
        Un(n, a) => format!("{}({})", n, render(a)),
        Bin(n, a, b) => format!("({} {} {})", render(a), n, render(b)),
    }
}

/// rendering with only the parentheses the DOCUMENTED priorities of the float table require
/// (`^` 4, `/` 3, `*` 2, `-` 1, `+` 0; equal operators left to right): several operators share one
/// level of the deep form, which the fully parenthesised rendering never produces
fn render_min(r: &R) -> String {
    fn prio(n: &str) -> Option<i32> {
        match n {
            "+" => Some(0),
            "-" => Some(1),
            "*" => Some(2),
            "/" => Some(3),
            "^" => Some(4),
            _ => None,
        }
    }
    fn go(r: &R, parent: Option<(i32, bool)>) -> String {
        match r {
            Bin(n, a, b) => match prio(n) {
                // min, max, atan2: operands that are binary applications keep their parentheses
                None => format!("({} {} {})", go(a, Some((i32::MAX, false))), n, go(b, Some((i32::MAX, false)))),
                Some(p) => {
                    let body = format!("{} {} {}", go(a, Some((p, true))), n, go(b, Some((p, false))));
                    let bare = match parent {
                        None => true,
                        // left operand: binds at least as tightly and, among equals, is the same operator;
                        // right operand: binds strictly tighter
                        Some((q, left)) => p > q || (left && p == q),
                    };
                    if bare { body } else { format!("({})", body) }
                }
            },
            Un(n, a) => format!("{}({})", n, go(a, None)),
            _ => render(r),
        }
    }
    go(r, None)
}

const DIFF_UN: &[&str] = &["sqrt", "ln", "log", "log2", "log10", "exp", "sin", "cos", "tan", "asin", "acos", "atan", "sinh", "cosh", "tanh", "asinh", "acosh", "atanh", "-", "+"];
const DIFF_BIN: &[&str] = &["+", "-", "*", "/", "^"];
const NODIFF_UN: &[&str] = &["abs", "floor", "cbrt", "signum", "fract", "round", "ceil", "trunc"];
const NODIFF_BIN: &[&str] = &["min", "max", "atan2"];

fn gen_ref(r: &mut Rng, vars: &[&str], depth: usize, nodiff_pct: usize) -> R {
    let roll = r.below(10);
    if depth < 3 && roll < 3 {
        let u = if r.below(100) < nodiff_pct { *r.pick(NODIFF_UN) } else { *r.pick(DIFF_UN) };
        un(u, gen_ref(r, vars, depth + 1, nodiff_pct))
    } else if depth < 3 && roll < 7 {
        let o = if r.below(100) < nodiff_pct { *r.pick(NODIFF_BIN) } else { *r.pick(DIFF_BIN) };
        bin(o, gen_ref(r, vars, depth + 1, nodiff_pct), gen_ref(r, vars, depth + 1, nodiff_pct))
    } else if roll < 9 && !vars.is_empty() {
        Var(r.pick(vars).to_string())
    } else {
        Num(*r.pick(&[0.0, 1.0, 0.0, 1.0, 2.0, 0.5, 3.0, 1.5, 0.25]))
    }
}

pub fn gen(r: &mut Rng, _tier: &str, _i: usize, stats: &mut BTreeMap<String, u64>, profile: &str) -> String {
    // an empty variable set gives constant expressions (neutral-element shortcuts need them)
    let var_sets: &[&[&str]] = &[&["x", "y"], &["y", "z"], &["a"], &["x", "y", "z"], &["x"], &["b", "a"], &[], &["x"]];
    let npool = 2 + r.below(3);
    let nodiff_pct = if profile == "diff" { *r.pick(&[0usize, 0, 0, 10]) } else { 8 };
    let mut pool = vec![];
    // (pool index, variable) of entries that mention the variable they may replace: `y -> 2*y`
    let mut selfref: Vec<(usize, &str)> = vec![];
    for _ in 0..npool {
        if profile == "subs" && r.chance(1, 4) {
            // self-referential replacements keep the variable list of the receiver unchanged while the
            // nested levels are re-indexed
            let (tx, v) = *r.pick(&[("(2.0 * y)", "y"), ("(z * y)", "z"), ("(y + 1.0)", "y"), ("(x * 0.5)", "x"), ("(a + a)", "a"), ("(b * a)", "b"), ("(y * x)", "x"), ("(x - y)", "y")]);
            selfref.push((pool.len(), v));
            pool.push(tx.to_string());
            continue;
        }
        if profile == "default" && r.chance(1, 4) {
            // plain neutral elements and constants: the shortcuts of + * / pow fire on these
            pool.push(r.pick(&["0.0", "1.0", "2.0", "(1.0 - 1.0)", "(0.5 + 0.5)"]).to_string());
            continue;
        }
        let vs = *r.pick(var_sets);
        pool.push(render(&gen_ref(r, vs, 0, nodiff_pct)));
    }
    let flat = r.chance(1, 2);
    // one flat pool in four holds unfolded expressions (parse_wo_compile)
    let wo_pool = flat && r.chance(1, 4);
    if profile == "default" && r.chance(1, 4) {
        // "a neutral element that still lists variables" (x*0, x^0, 0/x, (x*0)+1) as an operand of
        // every operator, on either side
        let vs1 = *r.pick(var_sets);
        let e1 = render(&gen_ref(r, vs1, 0, nodiff_pct));
        let vs2 = *r.pick(var_sets);
        let e2 = render(&gen_ref(r, vs2, 0, nodiff_pct));
        let pool = vec![e1, e2, "0.0".to_string(), "1.0".to_string(), "2.0".to_string()];
        let op = |o: &str, i: usize, j: usize| if flat { format!("b:{}:{}:{}", i, j, hex(o)) } else { format!("{}:{}:{}", o, i, j) };
        let mut steps = vec![match r.below(4) {
            0 => op("*", 0, 2),
            1 => op("*", 2, 0),
            2 => op("^", 0, 2),
            _ => op("/", 2, 0),
        }];
        if r.chance(1, 2) {
            steps.push(op(*r.pick(&["+", "*", "-"]), 99, 2 + r.below(2)));
        }
        let o = *r.pick(&["+", "-", "*", "/", "^"]);
        steps.push(if r.chance(1, 2) { op(o, 1, 99) } else { op(o, 99, 1) });
        if r.chance(1, 2) {
            let o = *r.pick(&["+", "-", "*", "/", "^"]);
            steps.push(if r.chance(1, 2) { op(o, r.below(5), 99) } else { op(o, 99, r.below(5)) });
        }
        *stats.entry("neutral_with_vars".to_string()).or_insert(0) += 1;
        let sloppy = r.chance(1, 2);
        return format!("histf\t{}\t{}\t{}\t{}\t{}", pool.iter().map(|s| hex(s)).collect::<Vec<_>>().join(";"), if flat { if wo_pool { "W" } else { "F" } } else { "D" }, steps.join("|"), r.next() % 1000000, if sloppy { 1 } else { 0 });
    }
    let nsteps = 1 + r.below(if profile == "diff" || profile == "subs" { 3 } else { 5 });
    let mut steps = vec![];
    let all_bin = ["+", "-", "*", "/", "^", "min", "max", "atan2"];
    let all_un = ["-", "+", "sin", "cos", "exp", "ln", "sqrt", "abs", "tanh", "atan", "floor"];
    for _ in 0..nsteps {
        let i = r.below(16);
        let j = r.below(16);
        let after_p = steps.last().map(|l: &String| l.starts_with("p:")).unwrap_or(false);
        let (i, kind) = if after_p && r.chance(1, 2) { (99, "s") } else { (i, "") };
        let kind = if kind == "s" { "s" } else { match profile {
            "subs" => *r.pick(&["s", "s", "s", "b", "u"]),
            "diff" => *r.pick(&["p", "p", "p", "b", "s"]),
            _ => *r.pick(&["b", "b", "u", "+", "-", "*", "/", "^", "n"]),
        } };
        let step = match kind {
            "b" => format!("b:{}:{}:{}", i, j, hex(if r.chance(1, 15) { "nosuchop" } else { *r.pick(&all_bin) })),
            "u" => format!("u:{}:{}", i, hex(if r.chance(1, 15) { "nosuchop" } else { *r.pick(&all_un) })),
            "+" | "-" | "*" | "/" | "^" => {
                if flat {
                    format!("b:{}:{}:{}", i, j, hex(kind))
                } else {
                    format!("{}:{}:{}", kind, i, j)
                }
            }
            "n" => {
                if flat {
                    format!("u:{}:{}", i, hex("-"))
                } else {
                    format!("n:{}", i)
                }
            }
            "s" if !selfref.is_empty() && r.chance(1, 2) => {
                let mut m = vec![];
                let mut seen: Vec<&str> = vec![];
                for (k, v) in &selfref {
                    if !seen.contains(v) && r.chance(2, 3) {
                        seen.push(v);
                        m.push(format!("{}={}", hex(v), k));
                    }
                }
                format!("s:{}:{}", i, if m.is_empty() { "-".to_string() } else { m.join(";") })
            }
            "s" => {
                let mut m = vec![];
                for v in ["x", "y", "z", "a", "b"] {
                    if r.chance(1, 3) {
                        // replacements come from the initial pool only (bounded growth)
                        m.push(format!("{}={}", hex(v), r.below(npool)));
                    }
                }
                format!("s:{}:{}", i, if m.is_empty() { "-".to_string() } else { m.join(";") })
            }
            _ => {
                // mostly differentiate expressions of the initial pool (bounded growth of the result)
                let (target, n) = if r.chance(3, 4) { (r.below(npool), *r.pick(&[0usize, 1, 1, 1, 2, 2, 3])) } else { (i, r.below(2)) };
                let idxs: Vec<String> = (0..n).map(|_| (if r.chance(1, 10) { 3 + r.below(3) } else { r.below(2) }).to_string()).collect();
                format!("p:{}:{}", target, if idxs.is_empty() { "-".to_string() } else { idxs.join(",") })
            }
        };
        *stats.entry(format!("step_{}", kind)).or_insert(0) += 1;
        steps.push(step);
    }
    // half of the requests hand the library the minimally parenthesised rendering of the pool
    let sloppy = r.chance(1, 2);
    format!("histf\t{}\t{}\t{}\t{}\t{}", pool.iter().map(|s| hex(s)).collect::<Vec<_>>().join(";"), if flat { if wo_pool { "W" } else { "F" } } else { "D" }, steps.join("|"), r.next() % 1000000, if sloppy { 1 } else { 0 })
}

// a tiny parser for the rendered reference syntax: Num | var | name(expr) | (expr op expr) | (-num)
fn parse_ref(s: &[char], pos: &mut usize) -> R {
    let skip = |pos: &mut usize| {
        while *pos < s.len() && s[*pos] == ' ' {
            *pos += 1;
        }
    };
    skip(pos);
    if s[*pos] == '(' {
        *pos += 1;
        skip(pos);
        if s[*pos] == '-' && *pos + 1 < s.len() && (s[*pos + 1].is_ascii_digit() || s[*pos + 1] == '.') {
            // negative literal
            *pos += 1;
            let start = *pos;
            while s[*pos] != ')' {
                *pos += 1;
            }
            let x: f64 = s[start..*pos].iter().collect::<String>().parse().unwrap();
            *pos += 1;
            return Num(-x);
        }
        let a = parse_ref(s, pos);
        skip(pos);
        let start = *pos;
        while s[*pos] != ' ' {
            *pos += 1;
        }
        let op: String = s[start..*pos].iter().collect();
        let b = parse_ref(s, pos);
        skip(pos);
        *pos += 1; // ')'
        return Bin(op, Rc::new(a), Rc::new(b));
    }
    let start = *pos;
    while *pos < s.len() && (s[*pos].is_alphanumeric() || s[*pos] == '.' || s[*pos] == '_' || s[*pos] == '+' && *pos == start || s[*pos] == '-' && *pos == start) {
        *pos += 1;
    }
    let word: String = s[start..*pos].iter().collect();
    if *pos < s.len() && s[*pos] == '(' {
        *pos += 1;
        let a = parse_ref(s, pos);
        skip(pos);
        *pos += 1;
        return Un(word, Rc::new(a));
    }
    match word.parse::<f64>() {
        Ok(x) => Num(x),
        Err(_) => Var(word),
    }
}

type F = FlatEx<f64>;
type D<'a> = DeepEx<'a, f64>;

/// `partial_iter`, or - when `alt` and the index list allows it - `partial_nth` / `partial`: C09 says
/// they are the same (n-th = n single derivatives, order zero = identity)
fn diff_entry<'a, E: exmex::Differentiate<'a, f64> + Clone>(a: E, idxs: &[usize], alt: bool) -> exmex::ExResult<E> {
    let all_equal = idxs.windows(2).all(|w| w[0] == w[1]);
    if alt && all_equal {
        match idxs.len() {
            0 => a.partial_nth(0, 0),
            1 => a.partial(idxs[0]),
            n => a.partial_nth(idxs[0], n),
        }
    } else {
        a.partial_iter(idxs.iter().copied())
    }
}

#[derive(Clone)]
enum P<'a> {
    Fl(F),
    De(D<'a>),
}
impl P<'_> {
    fn vars(&self) -> Vec<String> {
        match self {
            P::Fl(f) => f.var_names().to_vec(),
            P::De(d) => d.var_names().to_vec(),
        }
    }
    fn eval(&self, v: &[f64]) -> exmex::ExResult<f64> {
        match self {
            P::Fl(f) => f.eval(v),
            P::De(d) => d.eval(v),
        }
    }
}

struct Entry<'a> {
    imp: P<'a>,
    reference: R,
    vars: BTreeSet<String>,
}

fn close(a: f64, b: f64) -> bool {
    if a == b {
        return true;
    }
    let d = (a - b).abs();
    d <= 1e-6 * (1.0 + a.abs().max(b.abs()))
}

/// all intermediate values of the reference finite and moderate (the domain filter)
fn tame(r: &R, env: &BTreeMap<String, f64>) -> bool {
    let ok = |x: f64| x.is_finite() && x.abs() < 1e6 && (x == 0.0 || x.abs() > 1e-6);
    match r {
        Num(_) | Var(_) => true,
        Un(n, a) => {
            if !tame(a, env) {
                return false;
            }
            let x = eval(a, env);
            // keep away from branch points and kinks
            let inner_ok = match n.as_str() {
                "sqrt" | "ln" | "log" | "log2" | "log10" => x > 1e-3,
                "asin" | "acos" | "atanh" => x.abs() < 0.999,
                "acosh" => x > 1.001,
                "tan" => x.cos().abs() > 1e-3,
                // discontinuities: the sign of an exact zero (lost by the `0 * x` shortcut, which is
                // right for real numbers) and rounding errors decide the branch there
                "signum" => x.abs() > 1e-6,
                "floor" | "ceil" | "trunc" | "fract" => (x - x.round()).abs() > 1e-6,
                "round" => ((x - 0.5) - (x - 0.5).round()).abs() > 1e-6,
                _ => true,
            };
            inner_ok && ok(eval(r, env))
        }
        Bin(n, a, b) => {
            if !tame(a, env) || !tame(b, env) {
                return false;
            }
            let (x, y) = (eval(a, env), eval(b, env));
            let inner_ok = match n.as_str() {
                "/" => y.abs() > 1e-3,
                "^" => x > 1e-3,
                // branch cut of atan2(a, b): a = 0 and b < 0
                "atan2" => x.abs() > 1e-6 || y > 1e-6,
                "%" => y.abs() > 1e-3 && ((x / y) - (x / y).round()).abs() > 1e-6,
                _ => true,
            };
            inner_ok && ok(eval(r, env))
        }
    }
}

pub fn run(f: &[&str]) -> String {
    let texts: Vec<String> = f[0].split(';').map(unhex).collect();
    let texts: Vec<&'static str> = texts.into_iter().map(|s| &*Box::leak(s.into_boxed_str())).collect();
    let flat = f[1] == "F" || f[1] == "W";
    let wo = f[1] == "W";
    let hist: Vec<String> = if f[2] == "-" { vec![] } else { f[2].split('|').map(|s| s.to_string()).collect() };
    let seed: u64 = f[3].parse().unwrap_or(1);
    let sloppy = f.get(4) == Some(&"1");
    crate::catch(move || {
        let mut rng = Rng::new(seed);
        let mut pool: Vec<Entry<'static>> = vec![];
        for tx in &texts {
            let chars: Vec<char> = tx.chars().collect();
            let mut pos = 0;
            let reference = parse_ref(&chars, &mut pos);
            let tx: &'static str = if sloppy { Box::leak(render_min(&reference).into_boxed_str()) } else { tx };
            let p = if wo { F::parse_wo_compile(tx).map(P::Fl) } else if flat { F::parse(tx).map(P::Fl) } else { D::parse(tx).map(P::De) };
            match p {
                Ok(p) => {
                    let vars: BTreeSet<String> = p.vars().into_iter().collect();
                    pool.push(Entry { imp: p, reference, vars });
                }
                Err(_) => return "pool=E".to_string(),
            }
        }
        let mut verdicts = vec![];
        let mut judged = 0;
        for step in &hist {
            let g: Vec<&str> = step.split(':').collect();
            let n = pool.len();
            let idx = |s: &str| if s == "99" { n - 1 } else { s.parse::<usize>().unwrap() % n };
            let leak = |s: String| -> &'static str { Box::leak(s.into_boxed_str()) };
            // expected outcome by the reference
            let mut expect_err = false;
            let mut exp_ref: Option<R> = None;
            let mut exp_vars: BTreeSet<String> = BTreeSet::new();
            let known_bin = ["+", "-", "*", "/", "^", "min", "max", "atan2"];
            let known_un = ["+", "-", "abs", "signum", "sin", "cos", "tan", "asin", "acos", "atan", "sinh", "cosh", "tanh", "asinh", "acosh", "atanh", "floor", "round", "ceil", "trunc", "fract", "exp", "sqrt", "cbrt", "ln", "log2", "log10", "log"];
            let mut shortcut_pow = false;
            match g[0] {
                "b" | "+" | "-" | "*" | "/" | "^" => {
                    let nm = if g[0] == "b" { unhex(g[3]) } else { g[0].to_string() };
                    let (a, b) = (&pool[idx(g[1])], &pool[idx(g[2])]);
                    if !known_bin.contains(&nm.as_str()) {
                        expect_err = true;
                    } else {
                        exp_ref = Some(bin(&nm, a.reference.clone(), b.reference.clone()));
                        exp_vars = a.vars.union(&b.vars).cloned().collect();
                        shortcut_pow = g[0] == "^";
                    }
                }
                "u" | "n" => {
                    let nm = if g[0] == "u" { unhex(g[2]) } else { "-".to_string() };
                    let a = &pool[idx(g[1])];
                    if !known_un.contains(&nm.as_str()) {
                        expect_err = true;
                    } else {
                        exp_ref = Some(un(&nm, a.reference.clone()));
                        exp_vars = a.vars.clone();
                    }
                }
                "s" => {
                    let a = &pool[idx(g[1])];
                    let mut m = BTreeMap::new();
                    let mut vars: BTreeSet<String> = BTreeSet::new();
                    let pairs: Vec<(String, usize)> = if g[2] == "-" { vec![] } else { g[2].split(';').map(|kv| { let p: Vec<&str> = kv.split('=').collect(); (unhex(p[0]), p[1].parse::<usize>().unwrap() % n) }).collect() };
                    for v in &a.vars {
                        match pairs.iter().find(|p| &p.0 == v) {
                            Some((_, j)) => {
                                m.insert(v.clone(), pool[*j].reference.clone());
                                vars.extend(pool[*j].vars.iter().cloned());
                            }
                            None => {
                                vars.insert(v.clone());
                            }
                        }
                    }
                    exp_ref = Some(subst(&a.reference, &m));
                    exp_vars = vars;
                }
                _ => {
                    let a = &pool[idx(g[1])];
                    let idxs: Vec<usize> = if g[2] == "-" { vec![] } else { g[2].split(',').map(|x| x.parse().unwrap()).collect() };
                    let names: Vec<String> = a.vars.iter().cloned().collect();
                    if idxs.iter().any(|i| *i >= names.len()) {
                        expect_err = true;
                    } else {
                        CONST_NORULE.with(|c| c.set(false));
                        let mut cur = Some(a.reference.clone());
                        for i in &idxs {
                            cur = cur.and_then(|c| deriv(&c, &names[*i]));
                        }
                        match cur {
                            Some(c) => exp_ref = Some(c),
                            None => expect_err = true,
                        }
                        exp_vars = a.vars.clone();
                    }
                }
            }
            // the implementation
            let r: Result<exmex::ExResult<P<'static>>, ()> = std::panic::catch_unwind(std::panic::AssertUnwindSafe(|| -> exmex::ExResult<P<'static>> {
                match g[0] {
                    "b" => {
                        let nm = leak(unhex(g[3]));
                        match (pool[idx(g[1])].imp.clone(), pool[idx(g[2])].imp.clone()) {
                            (P::Fl(a), P::Fl(b)) => a.operate_binary(b, nm).map(P::Fl),
                            (P::De(a), P::De(b)) => a.operate_binary(b, nm).map(P::De),
                            _ => unreachable!(),
                        }
                    }
                    "u" => {
                        let nm = leak(unhex(g[2]));
                        match pool[idx(g[1])].imp.clone() {
                            P::Fl(a) => a.operate_unary(nm).map(P::Fl),
                            P::De(a) => a.operate_unary(nm).map(P::De),
                        }
                    }
                    "+" | "-" | "*" | "/" | "^" => match (pool[idx(g[1])].imp.clone(), pool[idx(g[2])].imp.clone()) {
                        (P::De(a), P::De(b)) => match g[0] {
                            "+" => (a + b).map(P::De),
                            "-" => (a - b).map(P::De),
                            "*" => (a * b).map(P::De),
                            "/" => (a / b).map(P::De),
                            _ => a.pow(b).map(P::De),
                        },
                        _ => Err(exmex::ExError::new("flat")),
                    },
                    "n" => match pool[idx(g[1])].imp.clone() {
                        P::De(a) => (-a).map(P::De),
                        _ => Err(exmex::ExError::new("flat")),
                    },
                    "s" => {
                        let pairs: Vec<(String, usize)> = if g[2] == "-" { vec![] } else { g[2].split(';').map(|kv| { let p: Vec<&str> = kv.split('=').collect(); (unhex(p[0]), p[1].parse::<usize>().unwrap() % n) }).collect() };
                        match pool[idx(g[1])].imp.clone() {
                            P::Fl(a) => {
                                let mut sub = |v: &str| -> Option<F> { pairs.iter().find(|p| p.0 == v).and_then(|p| match &pool[p.1].imp { P::Fl(x) => Some(x.clone()), _ => None }) };
                                a.subs(&mut sub).map(P::Fl)
                            }
                            P::De(a) => {
                                let mut sub = |v: &str| -> Option<D<'static>> { pairs.iter().find(|p| p.0 == v).and_then(|p| match &pool[p.1].imp { P::De(x) => Some(x.clone()), _ => None }) };
                                a.subs(&mut sub).map(P::De)
                            }
                        }
                    }
                    _ => {
                        let idxs: Vec<usize> = if g[2] == "-" { vec![] } else { g[2].split(',').map(|x| x.parse().unwrap()).collect() };
                        match pool[idx(g[1])].imp.clone() {
                            // the same derivative through the other entry points: `partial_nth` when all
                            // indices are equal (order zero included), `partial` for a single index -
                            // chosen by the parity of the target so that the request decides it
                            P::Fl(a) => diff_entry(a, &idxs, g[1].parse::<usize>().unwrap_or(0) % 2 == 0).map(P::Fl),
                            P::De(a) => diff_entry(a, &idxs, g[1].parse::<usize>().unwrap_or(0) % 2 == 0).map(P::De),
                        }
                    }
                }
            })).map_err(|_| ());
            match r {
                Err(_) => verdicts.push("PANIC".to_string()),
                Ok(Err(_)) => {
                    if expect_err || shortcut_pow || (g[0] == "p" && CONST_NORULE.with(|c| c.get())) {
                        verdicts.push("e".to_string());
                    } else {
                        verdicts.push(format!("UNEXPECTED-ERROR({})", step));
                    }
                }
                Ok(Ok(p)) => {
                    if expect_err {
                        verdicts.push(format!("MISSING-ERROR({})", step));
                        continue;
                    }
                    let reference = exp_ref.unwrap();
                    let got_vars: BTreeSet<String> = p.vars().into_iter().collect();
                    let sorted = p.vars().windows(2).all(|w| w[0] < w[1]);
                    let mut verdict = "ok".to_string();
                    if got_vars != exp_vars || !sorted {
                        verdict = format!("VARS({:?} vs {:?})", p.vars(), exp_vars);
                    } else if size(&reference) < 4000 {
                        let names = p.vars();
                        let mut tested = 0;
                        for _ in 0..12 {
                            let mut env = BTreeMap::new();
                            for nme in &names {
                                env.insert(nme.clone(), 0.3 + (rng.below(1700) as f64) / 1000.0);
                            }
                            if !tame(&reference, &env) {
                                continue;
                            }
                            let vals: Vec<f64> = names.iter().map(|nme| env[nme]).collect();
                            let want = eval(&reference, &env);
                            match p.eval(&vals) {
                                Ok(got) => {
                                    if !close(got, want) {
                                        verdict = format!("VALUE(got {:?} want {:?} at {:?})", got, want, env);
                                        break;
                                    }
                                }
                                Err(_) => {
                                    verdict = "EVAL-ERROR".to_string();
                                    break;
                                }
                            }
                            tested += 1;
                            if tested >= 3 {
                                break;
                            }
                        }
                        if tested > 0 {
                            judged += 1;
                        }
                    }
                    verdicts.push(verdict);
                    if size(&reference) < 4000 {
                        pool.push(Entry { imp: p, reference, vars: exp_vars });
                    }
                }
            }
        }
        let bad: Vec<&String> = verdicts.iter().filter(|v| *v != "ok" && *v != "e").collect();
        format!("pool=ok\tr={}\tjudged={}", if bad.is_empty() { "ok".to_string() } else { bad.iter().map(|s| s.as_str()).collect::<Vec<_>>().join(" ; ") }, judged)
    })
}
