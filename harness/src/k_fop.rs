//! kind `fop` (C19): the default float operator table applied directly and through parsed
//! expressions (infix, call form, unary juxtaposition), compared bit for bit with an independent
//! name -> std primitive table, for f32 and f64.
use crate::gen::Rng;
use exmex::prelude::*;
use exmex::{FlatEx, FloatOpsFactory, MakeOperators};
use std::collections::BTreeMap;

macro_rules! ref_impl {
    ($t:ty, $bin:ident, $un:ident, $konst:ident) => {
        fn $bin(name: &str, a: $t, b: $t) -> Option<$t> {
            Some(match name {
                "^" => a.powf(b),
                "*" => a * b,
                "/" => a / b,
                "+" => a + b,
                "-" => a - b,
                "atan2" => a.atan2(b),
                "min" => a.min(b),
                "max" => a.max(b),
                _ => return None,
            })
        }
        fn $un(name: &str, a: $t) -> Option<$t> {
            Some(match name {
                "+" => a,
                "-" => -a,
                "abs" => a.abs(),
                "signum" => a.signum(),
                "sin" => a.sin(),
                "cos" => a.cos(),
                "tan" => a.tan(),
                "asin" => a.asin(),
                "acos" => a.acos(),
                "atan" => a.atan(),
                "sinh" => a.sinh(),
                "cosh" => a.cosh(),
                "tanh" => a.tanh(),
                "asinh" => a.asinh(),
                "acosh" => a.acosh(),
                "atanh" => a.atanh(),
                "floor" => a.floor(),
                "round" => a.round(),
                "ceil" => a.ceil(),
                "trunc" => a.trunc(),
                "fract" => a.fract(),
                "exp" => a.exp(),
                "sqrt" => a.sqrt(),
                "cbrt" => a.cbrt(),
                "ln" | "log" => a.ln(),
                "log2" => a.log2(),
                "log10" => a.log10(),
                _ => return None,
            })
        }
        fn $konst(name: &str) -> Option<$t> {
            Some(match name {
                "PI" | "π" => std::f64::consts::PI as $t,
                "E" | "e" => std::f64::consts::E as $t,
                "TAU" | "τ" => std::f64::consts::TAU as $t,
                _ => return None,
            })
        }
    };
}
ref_impl!(f64, bin64, un64, konst64);
ref_impl!(f32, bin32, un32, konst32);

fn same64(a: f64, b: f64) -> bool {
    (a.is_nan() && b.is_nan()) || a.to_bits() == b.to_bits()
}
fn same32(a: f32, b: f32) -> bool {
    (a.is_nan() && b.is_nan()) || a.to_bits() == b.to_bits()
}

pub fn cat64() -> Vec<f64> {
    vec![0.0, -0.0, 1.0, -1.0, 0.5, -0.5, 2.0, 3.0, -2.5, 10.0, 5e-324, -5e-324, 2.2250738585072014e-308, 1e308, -1e308, 1e-7, 0.9999999, f64::INFINITY, f64::NEG_INFINITY, f64::NAN, std::f64::consts::FRAC_PI_2, 1e16]
}

/// number of exhaustive cases: op x operands x {f64, f32}
pub fn n_exhaustive() -> usize {
    let ops = FloatOpsFactory::<f64>::make();
    let c = cat64().len();
    let mut n = 0;
    for o in &ops {
        if o.has_bin() {
            n += c * c;
        }
        if o.has_unary() {
            n += c;
        }
        if o.constant().is_some() {
            n += 1;
        }
    }
    2 * n
}

pub fn gen_exhaustive(i: usize) -> String {
    let ops = FloatOpsFactory::<f64>::make();
    let c = cat64().len();
    let total = n_exhaustive() / 2;
    let ty = if i % n_exhaustive() >= total { "f32" } else { "f64" };
    let mut j = i % total;
    for o in &ops {
        if o.has_bin() {
            if j < c * c {
                return format!("fop\t{}\tbin\t{}\t{:016x}\t{:016x}", ty, crate::sym::hex(o.repr()), cat64()[j / c].to_bits(), cat64()[j % c].to_bits());
            }
            j -= c * c;
        }
        if o.has_unary() {
            if j < c {
                return format!("fop\t{}\tun\t{}\t{:016x}\t-", ty, crate::sym::hex(o.repr()), cat64()[j].to_bits());
            }
            j -= c;
        }
        if o.constant().is_some() {
            if j == 0 {
                return format!("fop\t{}\tconst\t{}\t-\t-", ty, crate::sym::hex(o.repr()));
            }
            j -= 1;
        }
    }
    "fop\tf64\tconst\t5049\t-\t-".to_string()
}

pub fn gen(r: &mut Rng, _tier: &str, _i: usize, stats: &mut BTreeMap<String, u64>) -> String {
    let ops = FloatOpsFactory::<f64>::make();
    let o = &ops[r.below(ops.len())];
    let ty = if r.chance(1, 2) { "f64" } else { "f32" };
    let rnd = |r: &mut Rng| -> f64 {
        match r.below(4) {
            0 => f64::from_bits(r.next()),
            1 => (r.below(4000) as f64 - 2000.0) / 16.0,
            2 => ((r.below(120) as f64) - 60.0).exp2() * if r.chance(1, 2) { -1.0 } else { 1.0 },
            _ => (r.below(2000) as f64) / 1000.0 - 1.0,
        }
    };
    *stats.entry(ty.to_string()).or_insert(0) += 1;
    if o.has_bin() && (!o.has_unary() || r.chance(2, 3)) {
        format!("fop\t{}\tbin\t{}\t{:016x}\t{:016x}", ty, crate::sym::hex(o.repr()), rnd(r).to_bits(), rnd(r).to_bits())
    } else if o.has_unary() {
        format!("fop\t{}\tun\t{}\t{:016x}\t-", ty, crate::sym::hex(o.repr()), rnd(r).to_bits())
    } else {
        format!("fop\t{}\tconst\t{}\t-\t-", ty, crate::sym::hex(o.repr()))
    }
}

macro_rules! run_ty {
    ($t:ty, $bin:ident, $un:ident, $konst:ident, $same:ident, $f:expr) => {{
        let f: &[&str] = $f;
        let name = crate::sym::unhex(f[2]);
        let ops = FloatOpsFactory::<$t>::make();
        let op = match ops.iter().find(|o| o.repr() == name) {
            Some(o) => o.clone(),
            None => return "r=NOOP".into(),
        };
        let bits = |s: &str| f64::from_bits(u64::from_str_radix(s, 16).unwrap()) as $t;
        let mut problems: Vec<String> = vec![];
        match f[1] {
            "bin" => {
                let (a, b) = (bits(f[3]), bits(f[4]));
                let want = $bin(&name, a, b);
                match (op.bin().ok(), want) {
                    (Some(bo), Some(w)) => {
                        let got = (bo.apply)(a, b);
                        if !$same(got, w) {
                            problems.push(format!("direct:{:?}!={:?}", got, w));
                        }
                        // through parsed expressions, infix and call form
                        for text in [format!("x {} y", name), format!("{}(x, y)", name), format!("(x){}(y)", name)] {
                            match FlatEx::<$t>::parse(&text).and_then(|e| e.eval(&[a, b])) {
                                Ok(g) => {
                                    if !$same(g, w) {
                                        problems.push(format!("expr[{}]:{:?}!={:?}", text, g, w));
                                    }
                                }
                                Err(_) => problems.push(format!("expr[{}]:error", text)),
                            }
                        }
                    }
                    _ => problems.push("no-binary-role-or-unknown-name".into()),
                }
            }
            "un" => {
                let a = bits(f[3]);
                let want = $un(&name, a);
                match (op.unary().ok(), want) {
                    (Some(uf), Some(w)) => {
                        let got = uf(a);
                        if !$same(got, w) {
                            problems.push(format!("direct:{:?}!={:?}", got, w));
                        }
                        for text in [format!("{}(x)", name), format!("{} x", name), format!("{}{{x}}", name)] {
                            match FlatEx::<$t>::parse(&text).and_then(|e| e.eval(&[a])) {
                                Ok(g) => {
                                    if !$same(g, w) {
                                        problems.push(format!("expr[{}]:{:?}!={:?}", text, g, w));
                                    }
                                }
                                Err(_) => problems.push(format!("expr[{}]:error", text)),
                            }
                        }
                    }
                    _ => problems.push("no-unary-role-or-unknown-name".into()),
                }
            }
            _ => match (op.constant(), $konst(&name)) {
                (Some(c), Some(w)) => {
                    if !$same(c, w) {
                        problems.push(format!("const:{:?}!={:?}", c, w));
                    }
                    match exmex::eval_str::<$t>(&name) {
                        Ok(g) => {
                            if !$same(g, w) {
                                problems.push(format!("eval_str:{:?}!={:?}", g, w));
                            }
                        }
                        Err(_) => problems.push("eval_str:error".into()),
                    }
                }
                _ => problems.push("not-a-constant-or-unknown-name".into()),
            },
        }
        if problems.is_empty() {
            "r=ok".to_string()
        } else {
            format!("r=DIFF {}", problems.join(" ; "))
        }
    }};
}

pub fn run(f: &[&str]) -> String {
    let f: Vec<&str> = f.to_vec();
    crate::catch(move || if f[0] == "f32" { run_ty!(f32, bin32, un32, konst32, same32, &f) } else { run_ty!(f64, bin64, un64, konst64, same64, &f) })
}
