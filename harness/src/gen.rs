//! PRNG, surface syntax (mirrors Exmex/Spec/Surface.lean), rendering, generators.
use crate::sym::{hex, OpCfg};

pub struct Rng(pub u64);
impl Rng {
    pub fn new(seed: u64) -> Rng {
        Rng(seed.wrapping_mul(0x9E3779B97F4A7C15) ^ 0xD1B54A32D192ED03)
    }
    pub fn next(&mut self) -> u64 {
        // splitmix64
        self.0 = self.0.wrapping_add(0x9E3779B97F4A7C15);
        let mut z = self.0;
        z = (z ^ (z >> 30)).wrapping_mul(0xBF58476D1CE4E5B9);
        z = (z ^ (z >> 27)).wrapping_mul(0x94D049BB133111EB);
        z ^ (z >> 31)
    }
    pub fn below(&mut self, n: usize) -> usize {
        if n == 0 {
            0
        } else {
            (self.next() % n as u64) as usize
        }
    }
    pub fn chance(&mut self, num: usize, den: usize) -> bool {
        self.below(den) < num
    }
    pub fn pick<'a, T>(&mut self, v: &'a [T]) -> &'a T {
        &v[self.below(v.len())]
    }
}

#[derive(Clone, Debug)]
pub enum Atom {
    Lit(String),
    Var(String, bool),
    Const(usize),
    Par(Box<Chain>),
    Call(usize, Box<Chain>, Box<Chain>),
    Un(usize, Box<Atom>),
}
#[derive(Clone, Debug)]
pub enum Chain {
    Single(Atom),
    Cons(Atom, usize, Box<Chain>),
}

impl Chain {
    pub fn from_parts(mut atoms: Vec<Atom>, mut ops: Vec<usize>) -> Chain {
        let mut c = Chain::Single(atoms.pop().unwrap());
        while let Some(a) = atoms.pop() {
            c = Chain::Cons(a, ops.pop().unwrap(), Box::new(c));
        }
        c
    }
    pub fn parts(&self) -> (Vec<&Atom>, Vec<usize>) {
        let mut atoms = vec![];
        let mut ops = vec![];
        let mut c = self;
        loop {
            match c {
                Chain::Single(a) => {
                    atoms.push(a);
                    break;
                }
                Chain::Cons(a, o, rest) => {
                    atoms.push(a);
                    ops.push(*o);
                    c = rest;
                }
            }
        }
        (atoms, ops)
    }
    pub fn n_ops(&self) -> usize {
        let (atoms, ops) = self.parts();
        ops.len() + atoms.iter().map(|a| a.n_ops()).sum::<usize>()
    }
    pub fn ser(&self, out: &mut Vec<String>) {
        match self {
            Chain::Single(a) => {
                out.push("S".into());
                a.ser(out);
            }
            Chain::Cons(a, o, rest) => {
                out.push("N".into());
                a.ser(out);
                out.push(o.to_string());
                rest.ser(out);
            }
        }
    }
    pub fn to_field(&self) -> String {
        let mut v = vec![];
        self.ser(&mut v);
        v.join(" ")
    }
}
impl Atom {
    pub fn n_ops(&self) -> usize {
        match self {
            Atom::Par(c) => c.n_ops(),
            Atom::Call(_, a, b) => 1 + a.n_ops() + b.n_ops(),
            Atom::Un(_, a) => a.n_ops(),
            _ => 0,
        }
    }
    pub fn ser(&self, out: &mut Vec<String>) {
        match self {
            Atom::Lit(s) => {
                out.push("L".into());
                out.push(hex(s));
            }
            Atom::Var(x, b) => {
                out.push("V".into());
                out.push(hex(x));
                out.push(if *b { "b".into() } else { "n".into() });
            }
            Atom::Const(k) => {
                out.push("K".into());
                out.push(k.to_string());
            }
            Atom::Par(c) => {
                out.push("P".into());
                c.ser(out);
            }
            Atom::Call(o, a, b) => {
                out.push("C".into());
                out.push(o.to_string());
                a.ser(out);
                b.ser(out);
            }
            Atom::Un(u, a) => {
                out.push("U".into());
                out.push(u.to_string());
                a.ser(out);
            }
        }
    }
}

/// chain parser for replay (`S atom` | `N atom o chain`)
pub fn parse_chain(tok: &[&str], pos: &mut usize) -> Option<Chain> {
    let k = *tok.get(*pos)?;
    *pos += 1;
    match k {
        "S" => Some(Chain::Single(parse_atom(tok, pos)?)),
        "N" => {
            let a = parse_atom(tok, pos)?;
            let o = tok.get(*pos)?.parse().ok()?;
            *pos += 1;
            let rest = parse_chain(tok, pos)?;
            Some(Chain::Cons(a, o, Box::new(rest)))
        }
        _ => None,
    }
}
pub fn parse_atom(tok: &[&str], pos: &mut usize) -> Option<Atom> {
    let k = *tok.get(*pos)?;
    *pos += 1;
    match k {
        "L" => {
            let s = crate::sym::unhex(tok.get(*pos)?);
            *pos += 1;
            Some(Atom::Lit(s))
        }
        "V" => {
            let s = crate::sym::unhex(tok.get(*pos)?);
            let b = *tok.get(*pos + 1)? == "b";
            *pos += 2;
            Some(Atom::Var(s, b))
        }
        "K" => {
            let k = tok.get(*pos)?.parse().ok()?;
            *pos += 1;
            Some(Atom::Const(k))
        }
        "P" => Some(Atom::Par(Box::new(parse_chain(tok, pos)?))),
        "C" => {
            let o = tok.get(*pos)?.parse().ok()?;
            *pos += 1;
            let a = parse_chain(tok, pos)?;
            let b = parse_chain(tok, pos)?;
            Some(Atom::Call(o, Box::new(a), Box::new(b)))
        }
        "U" => {
            let u = tok.get(*pos)?.parse().ok()?;
            *pos += 1;
            Some(Atom::Un(u, Box::new(parse_atom(tok, pos)?)))
        }
        _ => None,
    }
}

pub fn is_word_char(c: char) -> bool {
    c.is_alphanumeric() || c == '_' || c == '.'
}
fn is_symbol_char(c: char) -> bool {
    !is_word_char(c) && !"(){}, ".contains(c)
}

/// Rendering context. `spaces` is either consumed (replay) or produced (generation).
pub struct Renderer<'a> {
    pub table: &'a [OpCfg],
    pub call_form: bool,
    pub out: String,
    pub last_op: Option<String>,
    pub spaces: Vec<usize>,
    pub replay_pos: Option<usize>,
    pub rng: Option<&'a mut Rng>,
    /// probability (percent) of extra spaces at a gap
    pub space_pct: usize,
}
impl<'a> Renderer<'a> {
    fn required(&self, next: &str) -> usize {
        let prev = match self.out.chars().last() {
            None => return 0,
            Some(c) => c,
        };
        let nc = match next.chars().next() {
            None => return 0,
            Some(c) => c,
        };
        if is_word_char(prev) && is_word_char(nc) {
            return 1;
        }
        if let Some(p) = &self.last_op {
            // would a longer operator name swallow the start of the next token?
            for c in self.table {
                if c.name.len() > p.len() && c.name.starts_with(p.as_str()) {
                    let ext = &c.name[p.len()..];
                    if ext.starts_with(nc) {
                        return 1;
                    }
                }
            }
        }
        if is_symbol_char(prev) && is_symbol_char(nc) && self.last_op.is_none() {
            return 1;
        }
        0
    }
    /// take the space count before the token `next`
    fn take(&mut self, next: &str) -> usize {
        let n = match self.replay_pos {
            Some(p) => {
                let n = self.spaces.get(p).copied().unwrap_or(0);
                self.replay_pos = Some(p + 1);
                n
            }
            None => {
                let req = self.required(next);
                let extra = match &mut self.rng {
                    Some(r) => {
                        if r.below(100) < self.space_pct {
                            1 + r.below(3)
                        } else {
                            0
                        }
                    }
                    None => 0,
                };
                let n = req.max(extra);
                self.spaces.push(n);
                n
            }
        };
        for _ in 0..n {
            self.out.push(' ');
        }
        n
    }
    fn emit(&mut self, s: &str, is_op: bool) {
        self.out.push_str(s);
        self.last_op = if is_op { Some(s.to_string()) } else { None };
    }
    pub fn atom(&mut self, a: &Atom) {
        match a {
            Atom::Lit(s) => {
                self.take(s);
                self.emit(s, false);
            }
            Atom::Var(x, braced) => {
                let s = if *braced { format!("{{{}}}", x) } else { x.clone() };
                self.take(&s);
                self.emit(&s, false);
            }
            Atom::Const(k) => {
                let s = self.table[*k].name.clone();
                self.take(&s);
                // a constant is looked up like an operator, so a longer name could swallow it
                self.emit(&s, true);
            }
            Atom::Par(c) => {
                self.take("(");
                self.emit("(", false);
                self.chain(c);
                self.take(")");
                self.emit(")", false);
            }
            Atom::Call(o, x, y) => {
                let name = self.table[*o].name.clone();
                if self.call_form {
                    self.take(&name);
                    self.emit(&name, true);
                    self.take("(");
                    self.emit("(", false);
                    self.chain(x);
                    self.take(",");
                    self.emit(",", false);
                    self.chain(y);
                    self.take(")");
                    self.emit(")", false);
                } else {
                    self.take("(");
                    self.emit("((", false);
                    self.chain(x);
                    self.emit(")", false);
                    let m = self.take(&name);
                    let _ = m;
                    self.emit(" ", false);
                    self.emit(&name, true);
                    self.emit(" (", false);
                    self.chain(y);
                    self.emit("))", false);
                }
            }
            Atom::Un(u, inner) => {
                let s = self.table[*u].name.clone();
                self.take(&s);
                self.emit(&s, true);
                self.atom(inner);
            }
        }
    }
    pub fn chain(&mut self, c: &Chain) {
        match c {
            Chain::Single(a) => self.atom(a),
            Chain::Cons(a, o, rest) => {
                self.atom(a);
                let s = self.table[*o].name.clone();
                self.take(&s);
                self.emit(&s, true);
                self.chain(rest);
            }
        }
    }
}

pub fn render_gen(c: &Chain, table: &[OpCfg], call_form: bool, rng: &mut Rng, space_pct: usize) -> (String, Vec<usize>) {
    let mut r = Renderer {
        table,
        call_form,
        out: String::new(),
        last_op: None,
        spaces: vec![],
        replay_pos: None,
        rng: Some(rng),
        space_pct,
    };
    r.chain(c);
    (r.out, r.spaces)
}
pub fn render_replay(c: &Chain, table: &[OpCfg], call_form: bool, spaces: Vec<usize>) -> String {
    let mut r = Renderer {
        table,
        call_form,
        out: String::new(),
        last_op: None,
        spaces,
        replay_pos: Some(0),
        rng: None,
        space_pct: 0,
    };
    r.chain(c);
    r.out
}

pub fn spaces_field(sp: &[usize]) -> String {
    if sp.is_empty() {
        "-".into()
    } else {
        sp.iter().map(|n| n.to_string()).collect::<Vec<_>>().join(",")
    }
}

// ---------------------------------------------------------------------------------------------
// generators

pub const SYM_NAMES: &[&str] = &["+", "-", "*", "/", "^", "%", "&", "|", "&&", "||", "<", "<=", ">", ">=", "==", "!=", "<<", ">>"];
pub const ALPHA_BIN_NAMES: &[&str] = &["min", "max", "atan2", "mod", "dot", "cross", "XOR", "αβ", "op_1", "if", "else"];
pub const UN_NAMES: &[&str] = &["sin", "cos", "neg", "abs", "f", "g", "σ", "log", "log2", "log10", "!", "~"];
pub const CONST_NAMES: &[&str] = &["PI", "e", "τ", "E", "π"];
pub const VAR_NAMES: &[&str] = &["x", "y", "z", "a", "b", "v0", "v1", "xy", "Erwin", "α", "ω2", "_u", "sin4", "PI5", "expx", "mi", "ma"];
pub const BRACED_NAMES: &[&str] = &["a b", "1", "+", "sin", "x y z", " lead", "😀", "{", "", "max", "2x", "ä"];

#[derive(Clone, Debug, Default)]
pub struct TableStats {
    pub equal_prio: bool,
}

pub fn gen_table(r: &mut Rng) -> Vec<OpCfg> {
    let mut t: Vec<OpCfg> = vec![];
    let nb = 2 + r.below(6);
    let pmax = *r.pick(&[2usize, 3, 5, 100]);
    let mut used: Vec<String> = vec![];
    for _ in 0..nb {
        let name = if r.chance(1, 4) { *r.pick(ALPHA_BIN_NAMES) } else { *r.pick(SYM_NAMES) };
        if used.iter().any(|u| u == name) {
            continue;
        }
        used.push(name.to_string());
        let un = if name == "+" || name == "-" { r.chance(1, 2) } else { r.chance(1, 10) };
        t.push(OpCfg { name: name.to_string(), bin: Some((r.below(pmax) as i64, r.chance(1, 2))), un, konst: false });
    }
    if t.is_empty() {
        t.push(OpCfg { name: "+".into(), bin: Some((0, true)), un: false, konst: false });
    }
    let nu = r.below(4);
    for _ in 0..nu {
        let name = *r.pick(UN_NAMES);
        if used.iter().any(|u| u == name) {
            continue;
        }
        used.push(name.to_string());
        t.push(OpCfg { name: name.to_string(), bin: None, un: true, konst: false });
    }
    let nc = r.below(3);
    for _ in 0..nc {
        let name = *r.pick(CONST_NAMES);
        if used.iter().any(|u| u == name) {
            continue;
        }
        used.push(name.to_string());
        t.push(OpCfg { name: name.to_string(), bin: None, un: false, konst: true });
    }
    t
}

/// may `name` be written without braces under table `t`?
pub fn bare_ok(name: &str, t: &[OpCfg]) -> bool {
    let mut cs = name.chars();
    let first_ok = |c: char| c.is_ascii_alphabetic() || c == '_' || ('α'..='ω').contains(&c) || ('Α'..='Ω').contains(&c);
    match cs.next() {
        Some(c) if first_ok(c) => {}
        _ => return false,
    }
    if !name.chars().skip(1).all(|c| first_ok(c) || c.is_ascii_digit()) {
        return false;
    }
    for c in t {
        if c.name == name {
            return false;
        }
        if c.bin.is_some() && name.starts_with(c.name.as_str()) {
            return false;
        }
    }
    true
}

pub struct ChainCfg {
    pub max_depth: usize,
    pub max_len: usize,
    pub sub_len: usize,
    pub lit_pct: usize,
    pub n_vars: usize,
    pub call_pct: usize,
    pub un_pct: usize,
    pub braced_pct: usize,
}

pub fn gen_lit(r: &mut Rng) -> String {
    match r.below(8) {
        0 => format!("{}.{}", r.below(10), r.below(100)),
        1 => format!(".{}", 1 + r.below(9)),
        2 => format!("{}.", r.below(10)),
        3 => format!("{}", r.below(1000)),
        _ => format!("{}", 1 + r.below(9)),
    }
}

pub fn bare_name(i: usize) -> String {
    if i < VAR_NAMES.len() {
        VAR_NAMES[i].to_string()
    } else {
        format!("q{}", i - VAR_NAMES.len())
    }
}
pub fn braced_name(i: usize) -> String {
    if i < BRACED_NAMES.len() {
        BRACED_NAMES[i].to_string()
    } else {
        format!("b {}", i - BRACED_NAMES.len())
    }
}

pub fn gen_var(r: &mut Rng, t: &[OpCfg], cfg: &ChainCfg) -> Atom {
    if r.below(100) < cfg.braced_pct {
        let name = braced_name(r.below(cfg.n_vars.max(1)));
        return Atom::Var(name, true);
    }
    let name = bare_name(r.below(cfg.n_vars.max(1)));
    let braced = !bare_ok(&name, t) || r.chance(1, 5);
    Atom::Var(name, braced)
}

pub fn gen_atom(r: &mut Rng, depth: usize, t: &[OpCfg], cfg: &ChainCfg) -> Atom {
    let uns: Vec<usize> = (0..t.len()).filter(|i| t[*i].un).collect();
    let calls: Vec<usize> = (0..t.len()).filter(|i| t[*i].bin.is_some() && !t[*i].un).collect();
    let consts: Vec<usize> = (0..t.len()).filter(|i| t[*i].konst).collect();
    if !uns.is_empty() && r.below(100) < cfg.un_pct {
        let u = *r.pick(&uns);
        return Atom::Un(u, Box::new(gen_atom(r, depth, t, cfg)));
    }
    let roll = r.below(100);
    if depth < cfg.max_depth && roll < 18 {
        return Atom::Par(Box::new(gen_chain(r, depth + 1, t, cfg)));
    }
    if depth < cfg.max_depth && !calls.is_empty() && roll < 18 + cfg.call_pct {
        let o = *r.pick(&calls);
        return Atom::Call(o, Box::new(gen_chain(r, depth + 1, t, cfg)), Box::new(gen_chain(r, depth + 1, t, cfg)));
    }
    if !consts.is_empty() && r.chance(1, 12) {
        return Atom::Const(*r.pick(&consts));
    }
    if r.below(100) < cfg.lit_pct {
        Atom::Lit(gen_lit(r))
    } else {
        gen_var(r, t, cfg)
    }
}

pub fn gen_chain(r: &mut Rng, depth: usize, t: &[OpCfg], cfg: &ChainCfg) -> Chain {
    let bins: Vec<usize> = (0..t.len()).filter(|i| t[*i].bin.is_some()).collect();
    let maxl = if depth == 0 { cfg.max_len } else { cfg.sub_len.max(1) };
    let n = if depth == 0 && maxl > 30 { maxl } else if depth == 0 && maxl >= 2 && r.chance(3, 4) { 2 + r.below(maxl - 1) } else { 1 + r.below(maxl) };
    let mut atoms = vec![];
    let mut ops = vec![];
    for i in 0..n {
        if i > 0 {
            ops.push(*r.pick(&bins));
        }
        atoms.push(gen_atom(r, depth, t, cfg));
    }
    Chain::from_parts(atoms, ops)
}
