//! Proposes smaller variants of a request (used by the check driver's greedy shrinker).
use crate::gen::*;
use crate::sym::*;

fn atom_variants(a: &Atom) -> Vec<Atom> {
    let mut v = vec![];
    match a {
        Atom::Lit(s) => {
            if s != "1" {
                v.push(Atom::Lit("1".into()));
            }
        }
        Atom::Var(_, _) => {}
        Atom::Const(_) => v.push(Atom::Lit("1".into())),
        Atom::Par(c) => {
            v.push(Atom::Lit("1".into()));
            if let Chain::Single(x) = &**c {
                v.push(x.clone());
            }
            for c2 in chain_variants(c) {
                v.push(Atom::Par(Box::new(c2)));
            }
        }
        Atom::Call(o, x, y) => {
            v.push(Atom::Lit("1".into()));
            v.push(Atom::Par(x.clone()));
            v.push(Atom::Par(y.clone()));
            for x2 in chain_variants(x) {
                v.push(Atom::Call(*o, Box::new(x2), y.clone()));
            }
            for y2 in chain_variants(y) {
                v.push(Atom::Call(*o, x.clone(), Box::new(y2)));
            }
        }
        Atom::Un(u, x) => {
            v.push((**x).clone());
            for x2 in atom_variants(x) {
                v.push(Atom::Un(*u, Box::new(x2)));
            }
        }
    }
    v
}

fn chain_variants(c: &Chain) -> Vec<Chain> {
    let (atoms, ops) = c.parts();
    let atoms: Vec<Atom> = atoms.into_iter().cloned().collect();
    let mut v = vec![];
    let n = atoms.len();
    if n > 1 {
        // drop a prefix / suffix / single operand
        v.push(Chain::from_parts(atoms[1..].to_vec(), ops[1..].to_vec()));
        v.push(Chain::from_parts(atoms[..n - 1].to_vec(), ops[..n - 2].to_vec()));
        if n > 3 {
            v.push(Chain::from_parts(atoms[n / 2..].to_vec(), ops[n / 2..].to_vec()));
            v.push(Chain::from_parts(atoms[..n / 2].to_vec(), ops[..n / 2 - 1].to_vec()));
        }
        for i in 1..n - 1 {
            let mut a2 = atoms.clone();
            let mut o2 = ops.clone();
            a2.remove(i);
            o2.remove(i);
            v.push(Chain::from_parts(a2, o2));
        }
    }
    for i in 0..n {
        for a2 in atom_variants(&atoms[i]) {
            let mut at = atoms.clone();
            at[i] = a2;
            v.push(Chain::from_parts(at, ops.clone()));
        }
    }
    v
}

/// variants of a request whose 4th..6th fields are (text, chain, spaces, callform)
pub fn candidates(line: &str) -> Vec<String> {
    let f: Vec<&str> = line.split('\t').collect();
    let mut out = vec![];
    match f[0] {
        "flat" | "deep" | "conv" if f.len() >= 7 && f[4] != "-" => {
            let t = table_from_field(f[1]);
            let toks: Vec<&str> = f[4].split(' ').filter(|s| !s.is_empty()).collect();
            let mut pos = 0;
            let chain = match parse_chain(&toks, &mut pos) {
                Some(c) => c,
                None => return out,
            };
            let call_form = f[6] == "1";
            let mut rng = Rng::new(1);
            for c2 in chain_variants(&chain) {
                let (text, sp) = render_gen(&c2, &t, call_form, &mut rng, 0);
                let mut g: Vec<String> = f.iter().map(|s| s.to_string()).collect();
                g[3] = hex(&text);
                g[4] = c2.to_field();
                g[5] = spaces_field(&sp);
                out.push(g.join("\t"));
            }
        }
        // kinds whose request is (table, matcher, text): text-level candidates
        "anytext" | "lex" | "damage" if f.len() >= 4 => {
            let text = unhex(f[3]);
            let cs: Vec<char> = text.chars().collect();
            let mut cands: Vec<String> = vec![];
            // replace a parenthesised group by a single operand
            let mut stack = vec![];
            for (i, c) in cs.iter().enumerate() {
                if *c == '(' {
                    stack.push(i);
                } else if *c == ')' {
                    if let Some(j) = stack.pop() {
                        for rep in ["1", "x"] {
                            let mut o: String = cs[..j].iter().collect();
                            o.push_str(rep);
                            o.extend(cs[i + 1..].iter());
                            cands.push(o);
                        }
                        // drop the parentheses only
                        let mut o: String = cs[..j].iter().collect();
                        o.extend(cs[j + 1..i].iter());
                        o.extend(cs[i + 1..].iter());
                        cands.push(o);
                    }
                }
            }
            // delete one character
            for i in 0..cs.len() {
                let mut o: String = cs[..i].iter().collect();
                o.extend(cs[i + 1..].iter());
                cands.push(o);
            }
            for c in cands.into_iter().take(400) {
                let mut g: Vec<String> = f.iter().map(|s| s.to_string()).collect();
                g[3] = hex(&c);
                out.push(g.join("\t"));
            }
        }
        _ => {}
    }
    out
}
