//! kind `crash` (C06): every parsing entry point on arbitrary strings, plus follow-up calls on
//! whatever was accepted; nothing may panic, hang or overflow the stack.
use crate::gen::*;
use crate::k_flat::sym_vars;
use crate::sym::*;
use exmex::prelude::*;
use exmex::{DeepEx, FlatEx, NumberMatcher};
use std::collections::BTreeMap;

type F = FlatEx<Sym, SymOps, NumberMatcher>;
type D<'a> = DeepEx<'a, Sym, SymOps, NumberMatcher>;

pub const ALPHABET: &[char] = &['a', '1', '.', '+', '-', '*', 's', 'm', '(', ')', ',', '{', '}', ' '];

pub fn crash_table() -> Vec<OpCfg> {
    vec![
        OpCfg { name: "+".into(), bin: Some((0, true)), un: true, konst: false },
        OpCfg { name: "-".into(), bin: Some((1, false)), un: true, konst: false },
        OpCfg { name: "*".into(), bin: Some((2, true)), un: false, konst: false },
        OpCfg { name: "s".into(), bin: None, un: true, konst: false },
        OpCfg { name: "m".into(), bin: Some((0, false)), un: false, konst: false },
    ]
}

fn nth_string(mut i: usize) -> String {
    // enumeration of all strings over ALPHABET by length, then lexicographically
    let k = ALPHABET.len();
    let mut len = 0;
    let mut block = 1usize;
    while i >= block {
        i -= block;
        len += 1;
        block *= k;
    }
    let mut s = vec![];
    for _ in 0..len {
        s.push(ALPHABET[i % k]);
        i /= k;
    }
    s.iter().rev().collect()
}

/// exhaustive: the i-th string over the 14-symbol alphabet
pub fn gen_exhaustive(i: usize) -> String {
    format!("crash\t{}\tnum\t{}", table_to_field(&crash_table()), hex(&nth_string(i)))
}

pub fn gen(r: &mut Rng, tier: &str, i: usize, stats: &mut BTreeMap<String, u64>) -> String {
    let t = crash_table();
    let fam = i % 5;
    let text = match fam {
        0 => {
            // random string over the small alphabet, length 5..12
            let n = 5 + r.below(8);
            (0..n).map(|_| *r.pick(ALPHABET)).collect::<String>()
        }
        1 => {
            // token soup incl. unicode and control characters
            let n = 1 + r.below(if tier == "thorough" { 60 } else { 25 });
            crate::k_lex::gen_soup(r, &t, n)
        }
        2 | 3 => {
            // mutated well-formed text
            let cfg = ChainCfg {
                max_depth: 1 + r.below(6),
                max_len: *r.pick(&[2usize, 4, 8]),
                sub_len: 3,
                lit_pct: 40,
                n_vars: 3,
                call_pct: 15,
                un_pct: 15,
                braced_pct: 10,
            };
            let c = gen_chain(r, 0, &t, &cfg);
            let (text, _) = render_gen(&c, &t, true, r, 10);
            let mut chars: Vec<char> = text.chars().collect();
            let nmut = r.below(4);
            for _ in 0..nmut {
                if chars.is_empty() {
                    break;
                }
                let p = r.below(chars.len());
                match r.below(5) {
                    0 => {
                        chars.remove(p);
                    }
                    1 => chars.insert(p, *r.pick(&['(', ')', ',', '{', '}', '+', 'é', '\u{0}', '\t', '😀', '.', '1', 's', ' ', '²', '½', '٣', '１', 'Ⅷ'])),
                    2 => {
                        let c = chars[p];
                        chars.insert(p, c);
                    }
                    3 => {
                        let q = r.below(chars.len());
                        chars.swap(p, q);
                    }
                    _ => chars[p] = *r.pick(&['(', ')', ',', 'm', '-', 'a', '1']),
                }
            }
            chars.into_iter().collect()
        }
        _ => {
            // long and deep: up to ~1000 tokens, nesting up to 100
            let depth = *r.pick(&[10usize, 50, 100]);
            let mut s = String::new();
            for d in 0..depth {
                s.push_str(*r.pick(&["(", "s(", "-(", "(1+", "(a*"]));
                let _ = d;
            }
            s.push_str("a");
            for _ in 0..depth {
                s.push_str(*r.pick(&[")", ")+1", ")*a", ") m a"]));
            }
            let extra = r.below(if tier == "thorough" { 150 } else { 60 });
            for _ in 0..extra {
                s.push_str(*r.pick(&["+a", "*1", "-s a", " m (a+1)", "+m(a,1)"]));
            }
            s
        }
    };
    *stats.entry(format!("fam_{}", fam)).or_insert(0) += 1;
    format!("crash\t{}\tnum\t{}", table_to_field(&t), hex(&text))
}

fn cls<T>(r: std::thread::Result<exmex::ExResult<T>>) -> (char, Option<T>) {
    match r {
        Ok(Ok(x)) => ('o', Some(x)),
        Ok(Err(_)) => ('e', None),
        Err(_) => ('p', None),
    }
}

pub fn run(f: &[&str]) -> String {
    let t = table_from_field(f[0]);
    set_table(&t);
    let text = unhex(f[2]);
    // run on a thread with the default 2 MiB stack
    let handle = std::thread::Builder::new().stack_size(2 * 1024 * 1024).spawn(move || run_inner(&text)).unwrap();
    match handle.join() {
        Ok(s) => s,
        Err(_) => "r=ppp".to_string(),
    }
}

fn run_inner(text: &str) -> String {
    use std::panic::{catch_unwind, AssertUnwindSafe};
    let mut out = String::new();
    // differentiation of deeply nested expressions is a recorded finding (stack use per nesting
    // level); it is exercised in isolation by the kind `stack`, here only for nesting <= 6 and <= 12 operators
    let mut depth = 0i64;
    let mut max_depth = 0i64;
    for c in text.chars() {
        if c == '(' {
            depth += 1;
            max_depth = max_depth.max(depth);
        } else if c == ')' {
            depth -= 1;
        }
    }
    let n_ops = text.chars().filter(|c| "+-*m,".contains(*c)).count();
    let shallow = max_depth <= 6 && n_ops <= 12;
    // --- symbolic table: compared with the model
    let (c1, fl) = cls(catch_unwind(AssertUnwindSafe(|| F::parse(text))));
    let (c2, _) = cls(catch_unwind(AssertUnwindSafe(|| F::parse_wo_compile(text))));
    let (c3, dp) = cls(catch_unwind(AssertUnwindSafe(|| D::parse(text))));
    out.push_str(&format!("r={}{}{}", c1, c2, c3));
    let mut x = String::new();
    if let Some(fl) = fl {
        let v = sym_vars(fl.var_names().len());
        let (e1, _) = cls(catch_unwind(AssertUnwindSafe(|| fl.eval(&v))));
        let (e2, d2) = cls(catch_unwind(AssertUnwindSafe(|| fl.clone().to_deepex())));
        let e3 = match d2 {
            Some(d2) => {
                let (a, _) = cls(catch_unwind(AssertUnwindSafe(|| d2.eval(&v))));
                let (b, back) = cls(catch_unwind(AssertUnwindSafe(|| F::from_deepex(d2.clone()))));
                let c = match back {
                    Some(g) => cls(catch_unwind(AssertUnwindSafe(|| g.eval(&v)))).0,
                    None => '-',
                };
                format!("{}{}{}", a, b, c)
            }
            None => "---".to_string(),
        };
        out.push_str(&format!("\tfu={}{}{}", e1, e2, e3));
        // impl-only follow-ups
        let _ = catch_unwind(AssertUnwindSafe(|| fl.unparse().len())).map_err(|_| x.push('p'));
        let _ = catch_unwind(AssertUnwindSafe(|| (fl.binary_reprs(), fl.unary_reprs(), fl.operator_reprs()))).map_err(|_| x.push('p'));
        if shallow {
            x.push(cls(catch_unwind(AssertUnwindSafe(|| fl.clone().partial(0)))).0);
            x.push(cls(catch_unwind(AssertUnwindSafe(|| fl.clone().partial_nth(0, 2)))).0);
        }
        x.push(cls(catch_unwind(AssertUnwindSafe(|| fl.eval_vec(v.clone())))).0);
    }
    if let Some(dp) = dp {
        let v = sym_vars(dp.var_names().len());
        x.push(cls(catch_unwind(AssertUnwindSafe(|| dp.eval(&v)))).0);
        let _ = catch_unwind(AssertUnwindSafe(|| (dp.unparse().len(), dp.binary_reprs(), dp.unary_reprs(), dp.operator_reprs()))).map_err(|_| x.push('p'));
        if shallow {
            x.push(cls(catch_unwind(AssertUnwindSafe(|| dp.clone().partial(0)))).0);
        }
    }
    // --- default float table and the value type on the same text (s -> sin, m -> max)
    let ftext: String = text.chars().map(|c| match c { 's' => "sin".to_string(), 'm' => "max".to_string(), c => c.to_string() }).collect();
    let (a1, ff) = cls(catch_unwind(AssertUnwindSafe(|| exmex::parse::<f64>(&ftext))));
    x.push(a1);
    x.push(cls(catch_unwind(AssertUnwindSafe(|| FlatEx::<f64>::parse_wo_compile(&ftext)))).0);
    let (a3, fd) = cls(catch_unwind(AssertUnwindSafe(|| DeepEx::<f64>::parse(&ftext))));
    x.push(a3);
    x.push(cls(catch_unwind(AssertUnwindSafe(|| exmex::eval_str::<f64>(&ftext)))).0);
    x.push(cls(catch_unwind(AssertUnwindSafe(|| exmex::eval_str::<f32>(&ftext)))).0);
    let (a4, fv) = cls(catch_unwind(AssertUnwindSafe(|| exmex::parse_val::<i32, f64>(&ftext))));
    x.push(a4);
    x.push(cls(catch_unwind(AssertUnwindSafe(|| exmex::statements::line_2_statement::<f64, exmex::FloatOpsFactory<f64>, NumberMatcher>(&ftext).map(|_| ())))).0);
    x.push(cls(catch_unwind(AssertUnwindSafe(|| exmex::line_2_statement_val::<i32, f64>(&ftext).map(|_| ())))).0);
    let stmt = format!("y = {}", ftext);
    x.push(cls(catch_unwind(AssertUnwindSafe(|| exmex::line_2_statement_val::<i32, f64>(&stmt).map(|_| ())))).0);
    if let Some(ff) = ff {
        let v: Vec<f64> = (0..ff.var_names().len()).map(|i| 0.5 + i as f64).collect();
        x.push(cls(catch_unwind(AssertUnwindSafe(|| ff.eval(&v)))).0);
        if shallow {
            x.push(cls(catch_unwind(AssertUnwindSafe(|| ff.clone().partial(0)))).0);
        }
        x.push(cls(catch_unwind(AssertUnwindSafe(|| ff.clone().to_deepex()))).0);
        x.push(cls(catch_unwind(AssertUnwindSafe(|| serde_json::to_string(&ff).map_err(|e| exmex::ExError::new(&e.to_string()))))).0);
    }
    if let Some(fd) = fd {
        let v: Vec<f64> = (0..fd.var_names().len()).map(|i| 0.5 + i as f64).collect();
        x.push(cls(catch_unwind(AssertUnwindSafe(|| fd.eval(&v)))).0);
        if shallow {
            x.push(cls(catch_unwind(AssertUnwindSafe(|| fd.clone().partial(0)))).0);
        }
        x.push(cls(catch_unwind(AssertUnwindSafe(|| FlatEx::<f64>::from_deepex(fd.clone())))).0);
    }
    if let Some(fv) = fv {
        let v: Vec<exmex::Val<i32, f64>> = (0..fv.var_names().len()).map(|i| if i % 2 == 0 { exmex::Val::Int(i as i32 + 1) } else { exmex::Val::Float(0.5) }).collect();
        x.push(cls(catch_unwind(AssertUnwindSafe(|| fv.eval(&v)))).0);
        if shallow {
            x.push(cls(catch_unwind(AssertUnwindSafe(|| fv.clone().partial(0)))).0);
        }
    }
    out.push_str(&format!("\tx={}", if x.contains('p') { "PANIC:".to_string() + &x } else { "ok".to_string() }));
    out
}


// ---------------------------------------------------------------------------------------------
// kind `stack`: one library call per child process on a 2 MiB thread; an abort is observable

pub const STACK_FNS: &[&str] = &[
    "flat_parse", "flat_wo", "deep_parse", "eval_str", "parse_val", "statement", "flat_eval", "deep_eval", "to_deepex",
    "from_deepex", "unparse", "reprs", "serde", "partial", "deep_partial", "val_partial",
];
pub const STACK_DEPTHS: &[usize] = &[10, 25, 50, 100];
pub const STACK_STYLES: &[&str] = &["paren", "unary", "chain", "call"];

pub fn gen_stack(i: usize) -> String {
    let nf = STACK_FNS.len();
    let nd = STACK_DEPTHS.len();
    let ns = STACK_STYLES.len();
    let i = i % (nf * nd * ns);
    format!("stack\t{}\t{}\t{}", STACK_FNS[i % nf], STACK_DEPTHS[(i / nf) % nd], STACK_STYLES[i / (nf * nd)])
}

fn stack_text(depth: usize, style: &str, consts: bool) -> String {
    let (vx, vy) = if consts { ("1", "+2") } else { ("x", "+y") };
    // about 1000 tokens in total: nested part plus a flat tail
    let (open, close) = match style {
        "paren" => ("(", ")"),
        "unary" => ("sin(", ")"),
        "chain" => ("(1+", ")"),
        _ => ("max(1,", ")"),
    };
    let mut s = open.repeat(depth) + vx + &close.repeat(depth);
    let used = depth * (open.len() + 1) + 1;
    let tail = (1000usize.saturating_sub(used)) / 2;
    for k in 0..tail {
        s.push_str(if k % 2 == 0 { vy } else { "*2" });
    }
    s
}

pub fn stack_child(fname: &str, depth: usize, style: &str) -> i32 {
    let text = stack_text(depth, style, fname == "eval_str");
    let fname = fname.to_string();
    let h = std::thread::Builder::new()
        .stack_size(2 * 1024 * 1024)
        .spawn(move || -> bool {
            let vals = [0.5f64, 1.5];
            match fname.as_str() {
                "flat_parse" => FlatEx::<f64>::parse(&text).is_ok(),
                "flat_wo" => FlatEx::<f64>::parse_wo_compile(&text).is_ok(),
                "deep_parse" => DeepEx::<f64>::parse(&text).is_ok(),
                "eval_str" => exmex::eval_str::<f64>(&text).is_ok(),
                "parse_val" => exmex::parse_val::<i32, f64>(&text).is_ok(),
                "statement" => exmex::line_2_statement_val::<i32, f64>(&format!("z = {}", text)).is_ok(),
                "flat_eval" => FlatEx::<f64>::parse(&text).and_then(|e| e.eval(&vals)).is_ok(),
                "deep_eval" => DeepEx::<f64>::parse(&text).and_then(|e| e.eval(&vals)).is_ok(),
                "to_deepex" => FlatEx::<f64>::parse(&text).and_then(|e| e.to_deepex()).is_ok(),
                "from_deepex" => DeepEx::<f64>::parse(&text).and_then(FlatEx::<f64>::from_deepex).is_ok(),
                "unparse" => DeepEx::<f64>::parse(&text).map(|e| e.unparse().len()).is_ok(),
                "reprs" => DeepEx::<f64>::parse(&text).map(|e| (e.binary_reprs(), e.unary_reprs(), e.operator_reprs())).is_ok(),
                "serde" => FlatEx::<f64>::parse(&text)
                    .map(|e| serde_json::to_string(&e).ok().and_then(|js| serde_json::from_str::<FlatEx<f64>>(&js).ok()).is_some())
                    .unwrap_or(false),
                "partial" => FlatEx::<f64>::parse(&text).and_then(|e| e.partial(0)).is_ok() || style_has_no_rule(&text),
                "deep_partial" => DeepEx::<f64>::parse(&text).and_then(|e| e.partial(0)).is_ok() || style_has_no_rule(&text),
                "val_partial" => exmex::parse_val::<i32, f64>(&text).and_then(|e| e.partial(0)).is_ok() || style_has_no_rule(&text),
                _ => false,
            }
        })
        .unwrap();
    match h.join() {
        Ok(true) => 0,
        Ok(false) => 3,
        Err(_) => 4,
    }
}
fn style_has_no_rule(text: &str) -> bool {
    // `max` has no derivative rule: an error value is the documented outcome
    text.contains("max")
}

pub fn run_stack(f: &[&str]) -> String {
    let exe = std::env::current_exe().unwrap();
    let out = std::process::Command::new(exe).arg("stackchild").arg(f[0]).arg(f[1]).arg(f[2]).output();
    match out {
        Ok(o) => match o.status.code() {
            Some(0) => "r=ok".to_string(),
            Some(3) => "r=E".to_string(),
            Some(4) => "r=PANIC".to_string(),
            _ => "r=STACK".to_string(),
        },
        Err(_) => "r=SPAWN".to_string(),
    }
}
