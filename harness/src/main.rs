//! Correspondence harness: runs the real exmex library in-process on generated inputs and prints
//! canonical answers; the same request lines are fed to the Lean model/spec driver.
mod gen;
mod k_flat;
mod k_forms;
mod k_order;
mod k_vars;
mod k_lex;
mod k_damage;
mod k_crash;
mod k_anytext;
mod k_big;
mod k_val;
mod k_hist;
mod k_histf;
mod k_fop;
#[cfg(feature = "threads")]
mod k_threads;
mod k_valdiff;
mod shrink;
mod sym;

use std::io::{BufRead, Write};

pub fn catch<F: FnOnce() -> String + std::panic::UnwindSafe>(f: F) -> String {
    match std::panic::catch_unwind(f) {
        Ok(s) => s,
        Err(_) => "PANIC".to_string(),
    }
}

fn run_line(line: &str) -> String {
    let f: Vec<&str> = line.split('\t').collect();
    match f[0] {
        "flat" => k_flat::run(&f[1..]),
        "forms" => k_forms::run(&f[1..]),
        "vars" => k_vars::run(&f[1..]),
        "lex" => k_lex::run(&f[1..]),
        "damage" => k_damage::run(&f[1..]),
        "crash" => k_crash::run(&f[1..]),
        "anytext" => k_anytext::run(&f[1..]),
        "bigeval" => k_big::run(&f[1..]),
        "stack" => k_crash::run_stack(&f[1..]),
        "valop" => k_val::run(&f[1..]),
        "valexpr" => k_val::run_expr(&f[1..]),
        "chain3" => k_val::run_chain3(&f[1..]),
        "hist" => k_hist::run(&f[1..]),
        "histf" => k_histf::run(&f[1..]),
        "fop" => k_fop::run(&f[1..]),
        #[cfg(feature = "threads")]
        "threads" => k_threads::run(&f[1..]),
        "valdiff" => k_valdiff::run(&f[1..]),
        "order" => k_order::run_order(&f[1..]),
        "track" => k_order::run_track(&f[1..]),
        _ => "BADKIND".into(),
    }
}

fn main() {
    // The requests are generated and run on a thread with a large stack: differentiation needs tens of
    // kilobytes of stack per nesting level of the deep form (known finding D11, judged by the `stack`
    // kind in child processes of their own with a 2 MiB stack); the other kinds must not die of it while
    // probing candidate histories.
    let h = std::thread::Builder::new().stack_size(1 << 30).spawn(real_main).unwrap();
    let code = match h.join() {
        Ok(()) => 0,
        Err(_) => 101,
    };
    std::process::exit(code);
}

fn real_main() {
    std::panic::set_hook(Box::new(|_| {}));
    let args: Vec<String> = std::env::args().collect();
    let cmd = args.get(1).map(|s| s.as_str()).unwrap_or("");
    match cmd {
        // harness gen <kind> <seed> <n> <tier> <out-prefix>
        "gen" => {
            let kind = args[2].as_str();
            let seed: u64 = args[3].parse().unwrap();
            let n: usize = args[4].parse().unwrap();
            let tier = args[5].as_str();
            let prefix = args[6].as_str();
            let profile = args.get(7).map(|s| s.as_str()).unwrap_or("default");
            let offset: usize = args.get(8).and_then(|s| s.parse().ok()).unwrap_or(0);
            let mut rng = gen::Rng::new(seed);
            let mut req = std::io::BufWriter::new(std::fs::File::create(format!("{}.req", prefix)).unwrap());
            let mut imp = std::io::BufWriter::new(std::fs::File::create(format!("{}.imp", prefix)).unwrap());
            let mut stats = std::collections::BTreeMap::<String, u64>::new();
            for i in 0..n {
                let line = match kind {
                    "flat" => k_flat::gen_profile(&mut rng, tier, i, &mut stats, profile),
                    "forms" => k_forms::gen(&mut rng, tier, i, &mut stats, profile),
                    "vars" => k_vars::gen(&mut rng, tier, i, &mut stats),
                    "lex" => k_lex::gen(&mut rng, tier, i, &mut stats),
                    "damage" => k_damage::gen(&mut rng, tier, i, &mut stats),
                    "crash" => k_crash::gen(&mut rng, tier, i, &mut stats),
                    "anytext" => k_anytext::gen(&mut rng, tier, i, &mut stats),
                    "bigeval" => k_big::gen(&mut rng, tier, i, &mut stats),
                    "crashx" => k_crash::gen_exhaustive(i + offset),
                    "stack" => k_crash::gen_stack(i),
                    "valop" => k_val::gen(&mut rng, tier, i, &mut stats),
                    "hist" => k_hist::gen(&mut rng, tier, i, &mut stats, profile),
                    "histf" => k_histf::gen(&mut rng, tier, i, &mut stats, profile),
                    "fop" => k_fop::gen(&mut rng, tier, i, &mut stats),
                    #[cfg(feature = "threads")]
                    "threads" => k_threads::gen(&mut rng, tier, i, &mut stats),
                    "valdiff" => k_valdiff::gen(&mut rng, tier, i, &mut stats),
                    "fopx" => k_fop::gen_exhaustive(i + offset),
                    "valopx" => k_val::gen_exhaustive(i + offset),
                    "valexpr" => k_val::gen_expr(&mut rng, tier, i, &mut stats),
                    "chain3" => k_val::gen_chain3(&mut rng, tier, i, &mut stats),
                    "order" => k_order::gen(&mut rng, tier, i, &mut stats),
                    "orderx" => k_order::gen_exhaustive(i),
                    "track" => k_order::gen_track(&mut rng, tier, i, &mut stats),
                    _ => panic!("unknown kind"),
                };
                // the request is on disk before the library is called: if the process dies
                // (stack overflow, abort) the last request line is the culprit
                let mut line = line;
                if kind == "hist" {
                    // histories whose results explode in size are replaced (the model driver is
                    // polynomial in the expression size); the impl is run on them all the same
                    let mut tries = 0;
                    if std::env::var("EXMEX_VERIF_DEBUG_GEN").is_ok() {
                        eprintln!("probe {} {}", i, line);
                    }
                    // (the candidate is on disk before it is tried: if the process dies while probing, the
                    // culprit is the candidate, not the last request written)
                    let probe = |l: &str| std::fs::write(format!("{}.probe", prefix), l).unwrap();
                    probe(&line);
                    while tries < 50 && run_line(&line).len() > 6000 {
                        line = k_hist::gen(&mut rng, tier, i, &mut stats, profile);
                        probe(&line);
                        if std::env::var("EXMEX_VERIF_DEBUG_GEN").is_ok() {
                            eprintln!("probe {} {}", i, line);
                        }
                        tries += 1;
                        *stats.entry("oversize_replaced".into()).or_insert(0) += 1;
                    }
                }
                writeln!(req, "{}", line).unwrap();
                req.flush().unwrap();
                let ans = run_line(&line);
                writeln!(imp, "{}", ans).unwrap();
            }
            let mut st = std::fs::File::create(format!("{}.stats", prefix)).unwrap();
            for (k, v) in stats {
                writeln!(st, "{}\t{}", k, v).unwrap();
            }
        }
        // harness run  (request lines on stdin, answers on stdout)
        "run" => {
            let stdin = std::io::stdin();
            let out = std::io::stdout();
            let mut out = out.lock();
            for line in stdin.lock().lines() {
                let line = line.unwrap();
                writeln!(out, "{}", run_line(&line)).unwrap();
            }
        }
        // harness stackchild <fn> <depth> <style>: one call on a 2 MiB thread (may abort)
        "stackchild" => {
            let code = k_crash::stack_child(&args[2], args[3].parse().unwrap(), &args[4]);
            std::process::exit(code);
        }
        #[cfg(feature = "threads")]
        "threadchild" => {
            let code = k_threads::child(args[2].parse().unwrap(), args[3].parse().unwrap());
            std::process::exit(code);
        }
        // operator tables as the library builds them at run time (for the extractor)
        "tables" => {
            use exmex::MakeOperators;
            let row = |tag: &str, name: &str, bin: Option<(i64, bool)>, un: bool, k: bool| {
                println!("{}\t{}\t{}\t{}\t{}", tag, sym::hex(name), match bin { Some((p, c)) => format!("{},{}", p, if c { "c" } else { "n" }), None => "-".into() }, if un { "u" } else { "-" }, if k { "k" } else { "-" });
            };
            for o in exmex::ValOpsFactory::<i32, f64>::make() {
                row("val", o.repr(), o.bin().ok().map(|b| (b.prio, b.is_commutative)), o.has_unary(), o.constant().is_some());
            }
            for o in exmex::FloatOpsFactory::<f64>::make() {
                row("f64", o.repr(), o.bin().ok().map(|b| (b.prio, b.is_commutative)), o.has_unary(), o.constant().is_some());
            }
            for o in exmex::FloatOpsFactory::<f32>::make() {
                row("f32", o.repr(), o.bin().ok().map(|b| (b.prio, b.is_commutative)), o.has_unary(), o.constant().is_some());
            }
        }
        "count" => {
            // number of cases of an exhaustive kind
            match args[2].as_str() {
                "valopx" => println!("{}", k_val::n_exhaustive()),
                "fopx" => println!("{}", k_fop::n_exhaustive()),
                _ => println!("0"),
            }
        }
        // harness shrink (one request line on stdin; smaller candidate requests on stdout)
        "shrink" => {
            let stdin = std::io::stdin();
            for line in stdin.lock().lines() {
                let line = line.unwrap();
                for c in shrink::candidates(&line) {
                    println!("{}", c);
                }
            }
        }
        _ => {
            eprintln!("usage: harness gen <kind> <seed> <n> <tier> <prefix> | harness run");
            std::process::exit(2);
        }
    }
}
