//! kind `bigeval` (C14): chains of 2000+ operands on one level, evaluated through the public API in
//! the flat and in the deep form (the operand tracker then has more than 32 words), against a
//! reference computed directly. Operands are 1 or 2 and at most three factors are multiplied, so
//! every intermediate value is a small integer and exact in f64.
use crate::gen::Rng;
use exmex::prelude::*;
use exmex::{DeepEx, FlatEx};
use std::collections::BTreeMap;

fn build(n: usize, seed: u64) -> (String, Vec<f64>, f64) {
    let mut r = Rng::new(seed);
    let names = ["x", "y"];
    let vals = [1.0f64, 2.0];
    let mut text = String::new();
    // terms: products of 1..3 variables joined by + or -
    let mut total = 0.0f64;
    let mut sign = 1.0f64;
    let mut k = 0;
    let mut first = true;
    while k < n {
        let len = (1 + r.below(3)).min(n - k);
        if !first {
            if r.chance(1, 2) {
                text.push('+');
                sign = 1.0;
            } else {
                text.push('-');
                sign = -1.0;
            }
        }
        first = false;
        let mut prod = 1.0f64;
        for j in 0..len {
            if j > 0 {
                text.push('*');
            }
            let v = r.below(2);
            text.push_str(names[v]);
            prod *= vals[v];
        }
        total += sign * prod;
        k += len;
    }
    (text, vals.to_vec(), total)
}

pub fn gen(r: &mut Rng, _tier: &str, _i: usize, stats: &mut BTreeMap<String, u64>) -> String {
    let n = *r.pick(&[2047usize, 2048, 2049, 2050, 2111, 4097]);
    *stats.entry(format!("n_{}", n)).or_insert(0) += 1;
    format!("bigeval\t{}\t{}", n, r.next() % 1000000)
}

pub fn run(f: &[&str]) -> String {
    let n: usize = f[0].parse().unwrap();
    let seed: u64 = f[1].parse().unwrap();
    let (text, vals, want) = build(n, seed);
    // on a thread with a large stack: the deep parser recurses per parenthesis level only, but
    // keep clear of the known stack finding
    let h = std::thread::Builder::new().stack_size(64 * 1024 * 1024).spawn(move || {
        crate::catch(move || {
            let fl = match FlatEx::<f64>::parse(&text) {
                Ok(e) => e,
                Err(_) => return "r=flat parse error".to_string(),
            };
            let dp = match DeepEx::<f64>::parse(&text) {
                Ok(e) => e,
                Err(_) => return "r=deep parse error".to_string(),
            };
            for (what, got) in [("flat", fl.eval(&vals)), ("flat again", fl.eval(&vals)), ("deep", dp.eval(&vals)), ("deep again", dp.eval(&vals))] {
                match got {
                    Ok(v) if v == want => {}
                    other => return format!("r={} eval gave {:?}, documented {}", what, other.ok(), want),
                }
            }
            "r=ok".to_string()
        })
    });
    match h.unwrap().join() {
        Ok(s) => s,
        Err(_) => "r=PANIC".to_string(),
    }
}
